//! C13, part 4: buffered / ranged / zero-copy / memory-mapped readers and writers as state machines.
//! Oracle: under an arbitrary history of read sizes (and skip/peek/seek where offered) the reader must
//! present exactly the inner byte stream restricted to its range; a writer must deliver exactly the
//! accepted bytes, in order.
use super::c13_io::{sb_cfg, u8s, Chunky, ChunkyW};
use super::Ctx;
use crate::util::*;
use serde_json::{json, Value};
use std::io::{BufRead, Cursor, Read, Seek, SeekFrom, Write};
use zipora::io::zero_copy::{ZeroCopyRead, ZeroCopyWrite};
use zipora::io::{DataInput, MemoryMappedInput, MmapZeroCopyReader, MultiRangeReader, RangeReader, RangeWriter, StreamBufferedReader, StreamBufferedWriter, ZeroCopyReader, ZeroCopyWriter};

#[derive(Clone, Debug, PartialEq)]
pub enum Out { Bytes(Vec<u8>), Peek(Vec<u8>), Nothing, Avail(usize), Skipped, Pos(u64), Err(String), Unsupported,
    /// (valid UTF-8?, number of buffered bytes the answer is about)
    Flag(bool, usize),
    /// (CRC32C, number of buffered bytes it covers)
    Crc(u32, usize),
    /// accessor values, meaning per operation
    Info(Vec<u64>) }

pub type Op = (String, i64);
pub fn ops_json(ops: &[Op]) -> Value { Value::Array(ops.iter().map(|(a, b)| json!([a, b])).collect()) }
pub fn ops_parse(v: &Value) -> Vec<Op> {
    v.as_array().map(|a| a.iter().filter_map(|x| Some((x.get(0)?.as_str()?.to_string(), x.get(1).and_then(|n| n.as_i64()).unwrap_or(0)))).collect()).unwrap_or_default()
}

pub trait Rd { fn op(&mut self, name: &str, n: i64) -> Out; }

fn rd_generic<R: Read>(r: &mut R, name: &str, n: i64) -> Option<Out> {
    match name {
        "read" => { let mut b = vec![0u8; n as usize]; Some(match r.read(&mut b) { Ok(k) if k <= b.len() => { b.truncate(k); Out::Bytes(b) } Ok(k) => Out::Err(format!("read returned {} for a {}-byte buffer", k, n)), Err(e) => Out::Err(e.to_string()) }) }
        "exact" => { let mut b = vec![0u8; n as usize]; Some(match r.read_exact(&mut b) { Ok(()) => Out::Bytes(b), Err(e) => Out::Err(e.to_string()) }) }
        // VectoredIO::read_vectored into three buffers (the middle one empty): the first `total` bytes of the
        // buffers, taken in order, are what was read (the std::io::Read::read_vectored contract)
        "vec" => {
            let n = n as usize;
            let (mut a, mut b, mut c) = (vec![0xA5u8; n / 3], vec![0u8; 0], vec![0xA5u8; n - n / 3]);
            let mut bufs = [std::io::IoSliceMut::new(&mut a), std::io::IoSliceMut::new(&mut b), std::io::IoSliceMut::new(&mut c)];
            Some(match zipora::io::VectoredIO::read_vectored(r, &mut bufs) {
                Ok(k) if k <= n => { let mut all = a.clone(); all.extend_from_slice(&c); all.truncate(k); Out::Bytes(all) }
                Ok(k) => Out::Err(format!("read_vectored returned {} for {} bytes of buffers", k, n)),
                Err(e) => Out::Err(e.to_string()),
            })
        }
        _ => None,
    }
}
/// CRC32C (Castagnoli), bit by bit.
pub fn crc32c_ref(data: &[u8]) -> u32 {
    let mut crc = 0xFFFF_FFFFu32;
    for &b in data { crc ^= b as u32; for _ in 0..8 { crc = if crc & 1 == 1 { (crc >> 1) ^ 0x82F6_3B78 } else { crc >> 1 }; } }
    !crc
}
fn seek_generic<R: Seek>(r: &mut R, name: &str, n: i64) -> Option<Out> {
    let w = match name { "seek_start" => SeekFrom::Start(n as u64), "seek_cur" => SeekFrom::Current(n), "seek_end" => SeekFrom::End(n), _ => return None };
    Some(match r.seek(w) { Ok(p) => Out::Pos(p), Err(e) => Out::Err(e.to_string()) })
}

struct Sbr<R: Read> { r: StreamBufferedReader<R> }
impl<R: Read> Sbr<R> {
    fn common(&mut self, name: &str, n: i64) -> Option<Out> {
        if let Some(o) = rd_generic(&mut self.r, name, n) { return Some(o); }
        let e = |x: zipora::ZiporaError| Out::Err(x.to_string());
        Some(match name {
            "byte" => self.r.read_byte_fast().map(|b| Out::Bytes(vec![b])).unwrap_or_else(e),
            "slice" => match self.r.read_slice(n as usize) { Ok(Some(s)) => Out::Bytes(s.to_vec()), Ok(None) => Out::Nothing, Err(x) => e(x) },
            "ensure" => self.r.ensure_buffered(n as usize).map(Out::Avail).unwrap_or_else(e),
            "simd" => { let mut b = vec![0u8; n as usize]; match self.r.read_simd_optimized(&mut b) { Ok(k) => { b.truncate(k); Out::Bytes(b) } Err(x) => e(x) } }
            "bulk" => { let mut b = vec![0u8; n as usize]; match self.r.read_bulk(&mut b) { Ok(k) => { b.truncate(k); Out::Bytes(b) } Err(x) => e(x) } }
            "fill_buf" => match self.r.fill_buf() { Ok(s) => Out::Peek(s.to_vec()), Err(x) => Out::Err(x.to_string()) },
            "utf8" => match self.r.validate_utf8_buffered() { Ok(f) => Out::Flag(f, self.r.buffer_usage()), Err(x) => e(x) },
            "usage" => Out::Info(vec![self.r.buffer_usage() as u64, self.r.has_data_in_buffer() as u64, self.r.total_read(), self.r.capacity() as u64]),
            // with nothing buffered the inner reader stands at the logical position: bytes taken from it directly (get_mut) are the next bytes
            "direct" => if self.r.buffer_usage() > 0 { Out::Unsupported } else { let mut b = vec![0u8; n as usize]; match self.r.get_mut().read(&mut b) { Ok(k) => { b.truncate(k); Out::Bytes(b) } Err(x) => Out::Err(x.to_string()) } },
            "consume" => {
                // BufRead protocol: consume at most what fill_buf just showed
                let k = match self.r.fill_buf() { Ok(s) => s.len().min(n as usize), Err(x) => return Some(Out::Err(x.to_string())) };
                let s = self.r.fill_buf().unwrap()[..k].to_vec();
                self.r.consume(k);
                Out::Bytes(s)
            }
            _ => return None,
        })
    }
}
struct SbrSeek(Sbr<Cursor<Vec<u8>>>);
impl Rd for SbrSeek { fn op(&mut self, name: &str, n: i64) -> Out { self.0.common(name, n).or_else(|| seek_generic(&mut self.0.r, name, n)).unwrap_or(Out::Unsupported) } }
struct SbrPlain<R: Read>(Sbr<R>);
impl<R: Read> Rd for SbrPlain<R> { fn op(&mut self, name: &str, n: i64) -> Out { self.0.common(name, n).unwrap_or(Out::Unsupported) } }

struct Rng_<R>(RangeReader<R>);
impl<R: Read> Rng_<R> {
    fn common(&mut self, name: &str, n: i64) -> Option<Out> {
        if let Some(o) = rd_generic(&mut self.0, name, n) { return Some(o); }
        Some(match name {
            "skip" => match DataInput::skip(&mut self.0, n as usize) { Ok(()) => Out::Skipped, Err(x) => Out::Err(x.to_string()) },
            "byte" => match self.0.read_u8() { Ok(b) => Out::Bytes(vec![b]), Err(x) => Out::Err(x.to_string()) },
            "slice" => match self.0.read_vec(n as usize) { Ok(b) => Out::Bytes(b), Err(x) => Out::Err(x.to_string()) },
            "pos" => Out::Pos(DataInput::position(&self.0).unwrap_or(u64::MAX)),
            // [current - start, remaining, range_length, at_end, has_remaining, progress in 1e-6]
            "rinfo" => Out::Info(vec![self.0.current_position().wrapping_sub(self.0.start_position()), self.0.remaining(), self.0.range_length(), self.0.is_at_end() as u64,
                DataInput::has_remaining(&self.0).map(|b| b as u64).unwrap_or(2), (self.0.progress() * 1e6).round() as u64, self.0.end_position().saturating_sub(self.0.start_position())]),
            // the total size of the inner stream becomes known: the range is cut there (n is relative to the range start)
            "set_total" => { let abs = self.0.start_position().saturating_add(n as u64); self.0.set_total_size(abs); Out::Skipped }
            _ => return None,
        })
    }
}
struct RngSeek(Rng_<Cursor<Vec<u8>>>);
impl Rd for RngSeek {
    fn op(&mut self, name: &str, n: i64) -> Out {
        if let Some(o) = self.0.common(name, n) { return o; }
        match name {
            "reset" => match self.0 .0.reset() { Ok(()) => Out::Pos(0), Err(x) => Out::Err(x.to_string()) },
            "seek_in" => match self.0 .0.seek_in_range(n as u64) { Ok(p) => Out::Pos(p), Err(x) => Out::Err(x.to_string()) },
            // where the inner cursor stands, relative to the range start (get_ref)
            "inner_pos" => { let a = self.0 .0.get_ref().position(); let b = self.0 .0.get_mut().position(); if a != b { return Out::Err("get_ref / get_mut show different inner readers".into()); } Out::Pos(a.wrapping_sub(self.0 .0.start_position())) }
            _ => seek_generic(&mut self.0 .0, name, n).unwrap_or(Out::Unsupported),
        }
    }
}
struct RngPlain<R: Read>(Rng_<R>);
impl<R: Read> Rd for RngPlain<R> { fn op(&mut self, name: &str, n: i64) -> Out { self.0.common(name, n).unwrap_or(Out::Unsupported) } }

struct Zc<R: Read>(ZeroCopyReader<R>);
impl<R: Read> Rd for Zc<R> {
    fn op(&mut self, name: &str, n: i64) -> Out {
        if let Some(o) = rd_generic(&mut self.0, name, n) { return o; }
        let e = |x: zipora::ZiporaError| Out::Err(x.to_string());
        match name {
            "peek" => self.0.peek(n as usize).map(|s| Out::Peek(s.to_vec())).unwrap_or_else(e),
            "skip" => self.0.skip_bytes(n as usize).map(|_| Out::Skipped).unwrap_or_else(e),
            "opt" => { let mut b = vec![0u8; n as usize]; match self.0.read_optimized(&mut b) { Ok(k) => { b.truncate(k); Out::Bytes(b) } Err(x) => e(x) } }
            "ensure" => self.0.zc_ensure(n as usize).map(Out::Avail).unwrap_or_else(e),
            "slice" => {
                let s = match self.0.zc_read(n as usize) { Ok(Some(s)) => s.to_vec(), Ok(None) => return Out::Nothing, Err(x) => return e(x) };
                match self.0.zc_advance(n as usize) { Ok(()) => Out::Bytes(s), Err(x) => e(x) }
            }
            "utf8" => match self.0.validate_utf8_buffer() { Ok(f) => Out::Flag(f, self.0.zc_available()), Err(x) => e(x) },
            "crc" => match self.0.checksum_buffer_crc32c() { Ok(c) => Out::Crc(c, self.0.zc_available()), Err(x) => e(x) },
            "vcrc" => match self.0.validate_and_checksum() {
                Ok((f, c)) => { let k = self.0.zc_available(); if self.0.validate_utf8_buffer().ok() != Some(f) { return Out::Err("validate_and_checksum disagrees with validate_utf8_buffer".into()); } Out::Crc(c, k) }
                Err(x) => e(x),
            },
            "usage" => Out::Info(vec![self.0.zc_available() as u64]),
            "direct" => if self.0.zc_available() > 0 { Out::Unsupported } else { let mut b = vec![0u8; n as usize]; match self.0.get_mut().read(&mut b) { Ok(k) => { b.truncate(k); Out::Bytes(b) } Err(x) => Out::Err(x.to_string()) } },
            _ => Out::Unsupported,
        }
    }
}
struct MmZc(MmapZeroCopyReader);
impl Rd for MmZc {
    fn op(&mut self, name: &str, n: i64) -> Out {
        if let Some(o) = rd_generic(&mut self.0, name, n) { return o; }
        let e = |x: zipora::ZiporaError| Out::Err(x.to_string());
        match name {
            "peek" => match self.0.zc_read(n as usize) { Ok(Some(s)) => Out::Peek(s.to_vec()), Ok(None) => Out::Nothing, Err(x) => e(x) },
            "slice" => {
                let s = match self.0.zc_read(n as usize) { Ok(Some(s)) => s.to_vec(), Ok(None) => return Out::Nothing, Err(x) => return e(x) };
                match self.0.zc_advance(n as usize) { Ok(()) => Out::Bytes(s), Err(x) => e(x) }
            }
            "skip" => self.0.zc_advance(n as usize).map(|_| Out::Skipped).unwrap_or_else(e),
            "seek_start" => self.0.set_position(n as usize).map(|_| Out::Pos(n as u64)).unwrap_or_else(e),
            "pos" => Out::Pos(self.0.position() as u64),
            "ensure" => self.0.zc_ensure(n as usize).map(Out::Avail).unwrap_or_else(e),
            // [zc_available, len - position, remaining_slice length, first byte of remaining_slice + 1, as_slice length, is_empty]
            "usage" => Out::Info(vec![self.0.zc_available() as u64, (self.0.len() - self.0.position()) as u64, self.0.remaining_slice().len() as u64,
                self.0.remaining_slice().first().map(|&b| b as u64 + 1).unwrap_or(0), self.0.as_slice().len() as u64, self.0.is_empty() as u64]),
            _ => Out::Unsupported,
        }
    }
}
struct Mmi(MemoryMappedInput);
impl Rd for Mmi {
    fn op(&mut self, name: &str, n: i64) -> Out {
        let e = |x: zipora::ZiporaError| Out::Err(x.to_string());
        let buffered = self.0.strategy() == zipora::io::InputStrategy::BufferedIO;
        match name {
            "read" | "exact" | "slice" => self.0.read_slice(n as usize).map(Out::Bytes).unwrap_or_else(e),
            "zslice" => if buffered { Out::Unsupported } else { self.0.read_slice_zero_copy(n as usize).map(|s| Out::Bytes(s.to_vec())).unwrap_or_else(e) },
            "peek" => if buffered { Out::Unsupported } else { self.0.peek_slice(n as usize).map(Out::Peek).unwrap_or_else(e) },
            "zpeek" => if buffered { Out::Unsupported } else { self.0.peek_slice_zero_copy(n as usize).map(|s| Out::Peek(s.to_vec())).unwrap_or_else(e) },
            "skip" => DataInput::skip(&mut self.0, n as usize).map(|_| Out::Skipped).unwrap_or_else(e),
            "seek_start" => self.0.seek(n as usize).map(|_| Out::Pos(n as u64)).unwrap_or_else(e),
            "byte" => self.0.read_u8().map(|b| Out::Bytes(vec![b])).unwrap_or_else(e),
            "pos" => Out::Pos(self.0.position() as u64),
            // [remaining, len, is_empty]
            "usage" => Out::Info(vec![self.0.remaining() as u64, self.0.len() as u64, self.0.is_empty() as u64]),
            _ => Out::Unsupported,
        }
    }
}
struct Multi(MultiRangeReader<Cursor<Vec<u8>>>, u64);
impl Rd for Multi {
    fn op(&mut self, name: &str, n: i64) -> Out {
        if let Some(o) = rd_generic(&mut self.0, name, n) { return o; }
        match name {
            // ranges are kept inside the file (also when a shrunk replay has less data than the case was generated for)
            "add_range" => { let (a, b) = (((n as u64) >> 20).min(self.1), ((n as u64) & 0xF_FFFF).min(self.1)); self.0.add_range(a, b); Out::Skipped }
            "next_range" => Out::Info(vec![self.0.next_range() as u64]),
            "minfo" => { let c = self.0.current_range(); Out::Info(vec![self.0.total_length(), c.is_some() as u64, c.map(|x| x.0).unwrap_or(0), c.map(|x| x.1).unwrap_or(0)]) }
            _ => Out::Unsupported,
        }
    }
}

/// How the reference interprets the reader: its byte stream, whether short answers are legal, seek rules.
pub struct Spec {
    pub stream: Vec<u8>,
    pub cap: usize,          // requests up to this size must be served in full by peek/slice when the data exists
    pub seek_clamp: Option<u64>, // Some(range_len): seeks clamp into [0, range_len]; None: pass-through
    pub exact_reads: bool,   // "read" behaves like read_exact or fails (MemoryMappedInput::read_slice)
    pub kind: usize,
    pub range_l: u64,        // range kinds: end - start of the range (may exceed the data)
    pub multi: Option<(Vec<u8>, Vec<(u64, u64)>)>, // multi-range reader: the whole inner data and the initial ranges
}

pub const N_RKIND: usize = 13;
pub fn rkind_name(k: usize) -> &'static str {
    ["sbr", "sbr_chunky", "range", "range_chunky", "zc", "zc_chunky", "mmap_zc", "mmapped_input", "multi_range", "range_over_sbr", "sbr_over_range", "sbr_preset", "zc_default"][k % N_RKIND]
}
fn g(cfg: &[u64], i: usize, d: u64) -> u64 { cfg.get(i).copied().unwrap_or(d) }
pub const ALIGNMENTS: [usize; 5] = [1, 1, 2, 64, 4096];
/// Deterministic content of a big input, described in the case by (n, seed, mode): 0 = bytes, 1 = ASCII text, 2 = UTF-8 text with multi-byte characters.
pub fn gen_data(n: usize, seed: u64, mode: u64) -> Vec<u8> {
    let mut r = Rng::new(seed ^ 0xDA7A);
    match mode {
        1 => (0..n).map(|_| b' ' + (r.next() % 95) as u8).collect(),
        2 => {
            let alpha = ["a", "Z", "0", " ", "\u{e9}", "\u{65e5}", "\u{1d11e}", "\u{7f}", "\u{80}", "\u{7ff}", "\u{800}", "\u{ffff}", "\u{10000}"];
            let mut s = Vec::with_capacity(n + 4);
            while s.len() < n { s.extend_from_slice(alpha[(r.next() % alpha.len() as u64) as usize].as_bytes()); }
            while s.len() > n { s.pop(); } // may cut the last character: then the very end is an incomplete sequence
            if let Err(e) = std::str::from_utf8(&s) { let v = e.valid_up_to(); for x in s[v..].iter_mut() { *x = b'.'; } }
            s
        }
        _ => { let k = r.next() as u32 | 1; (0..n).map(|i| ((i as u32).wrapping_mul(2654435761).wrapping_add(k) >> 13) as u8).collect() }
    }
}

/// cfg: [cap, max_cap, readahead, mult, bulk, growth15, chunk, start, len, pool, alignment index (not for multi_range), constructor variant]
/// sbr_preset: cfg[0] = preset (0 new, 1 performance_optimized, 2 memory_efficient, 3 low_latency, 4 default config through with_config), cfg[6] = chunk (0 = plain cursor)
pub fn build(cx: &Ctx, kind: usize, data: &[u8], cfg: &[u64]) -> Result<(Box<dyn Rd>, Spec), String> {
    let e = |x: zipora::ZiporaError| x.to_string();
    let kind = kind % N_RKIND;
    let cap = g(cfg, 0, 8).max(1) as usize;
    let max = (g(cfg, 1, 0) as usize).max(cap);
    let mut sc = sb_cfg(cap, max, g(cfg, 2, 1) == 1, g(cfg, 3, 2) as usize, (g(cfg, 4, 8192) as usize).max(1), if g(cfg, 5, 0) == 1 { 1.5 } else { 2.0 }, g(cfg, 9, 0) == 1);
    if kind != 8 { sc.page_alignment = ALIGNMENTS[g(cfg, 10, 0) as usize % ALIGNMENTS.len()]; }
    let variant = if kind == 8 { 0 } else { g(cfg, 11, 0) };
    let chunk = g(cfg, 6, 1).max(1) as usize;
    let start = g(cfg, 7, 0);
    let len = g(cfg, 8, data.len() as u64);
    let dl = data.len() as u64;
    let range_bytes = || data[(start.min(dl) as usize)..(start.saturating_add(len).min(dl) as usize)].to_vec();
    let path = format!("{}/rd_{}.bin", cx.tmp, kind);
    let sp = |stream: Vec<u8>, cap: usize, seek_clamp: Option<u64>, range_l: u64| Spec { stream, cap, seek_clamp, exact_reads: kind == 7, kind, range_l, multi: None };
    Ok(match kind {
        0 => (Box::new(SbrSeek(Sbr { r: StreamBufferedReader::with_config(Cursor::new(data.to_vec()), sc).map_err(e)? })), sp(data.to_vec(), cap, None, 0)),
        1 => (Box::new(SbrPlain(Sbr { r: StreamBufferedReader::with_config(Chunky { inner: Cursor::new(data.to_vec()), k: chunk }, sc).map_err(e)? })), sp(data.to_vec(), 0, None, 0)),
        2 => {
            let l = start.saturating_add(len) - start;
            let c = Cursor::new(data.to_vec());
            let rr = match variant % 4 {
                0 => RangeReader::new_and_seek(c, start, len).map_err(e)?,
                1 => { let mut c = c; c.set_position(start); RangeReader::with_range(c, start, start.saturating_add(len)) }
                2 => zipora::io::range::reader(c, start, len).map_err(e)?,
                // an inverted range (end before start) is an empty range
                _ => { let mut c = c; c.set_position(start); return Ok((Box::new(RngSeek(Rng_(RangeReader::with_range(c, start, start.saturating_sub(1 + len % 3))))), sp(vec![], usize::MAX, Some(0), 0))); }
            };
            (Box::new(RngSeek(Rng_(rr))), sp(range_bytes(), usize::MAX, Some(l), l))
        }
        3 => {
            // a non-seekable inner positioned at `start` by reading
            let mut inner = Chunky { inner: Cursor::new(data.to_vec()), k: chunk };
            let mut sk = vec![0u8; start.min(dl) as usize];
            inner.read_exact(&mut sk).map_err(|x| x.to_string())?;
            let st = start.min(dl);
            let rr = if variant % 2 == 1 { RangeReader::with_range(inner, st, st.saturating_add(len)) } else { RangeReader::new(inner, st, len) };
            (Box::new(RngPlain(Rng_(rr))), sp(data[st as usize..(st.saturating_add(len).min(dl) as usize)].to_vec(), usize::MAX, None, st.saturating_add(len) - st))
        }
        4 => (Box::new(Zc(ZeroCopyReader::with_capacity(Cursor::new(data.to_vec()), cap).map_err(e)?)), sp(data.to_vec(), cap, None, 0)),
        5 => (Box::new(Zc(if g(cfg, 9, 0) == 1 { ZeroCopyReader::with_secure_buffer(Chunky { inner: Cursor::new(data.to_vec()), k: chunk }, cap).map_err(e)? } else { ZeroCopyReader::with_capacity(Chunky { inner: Cursor::new(data.to_vec()), k: chunk }, cap).map_err(e)? })), sp(data.to_vec(), cap, None, 0)),
        6 => {
            if data.is_empty() { return Err("skip: empty file cannot be mapped".into()); }
            std::fs::write(&path, data).map_err(|x| x.to_string())?;
            (Box::new(MmZc(MmapZeroCopyReader::new(std::fs::File::open(&path).map_err(|x| x.to_string())?).map_err(e)?)), sp(data.to_vec(), usize::MAX, None, 0))
        }
        7 => {
            use zipora::io::AccessPattern;
            std::fs::write(&path, data).map_err(|x| x.to_string())?;
            let pat = [AccessPattern::Unknown, AccessPattern::Sequential, AccessPattern::Random, AccessPattern::Mixed][(variant % 4) as usize];
            let m = match variant % 12 / 4 {
                0 => MemoryMappedInput::from_path(&path),
                1 => MemoryMappedInput::from_path_with_pattern(&path, pat),
                _ => MemoryMappedInput::new_with_pattern(std::fs::File::open(&path).map_err(|x| x.to_string())?, pat),
            }.map_err(e)?;
            (Box::new(Mmi(m)), sp(data.to_vec(), usize::MAX, None, 0))
        }
        8 => {
            // cfg[10..] = (start, end) pairs
            let mut ranges = vec![];
            let mut i = 10;
            while i + 1 < cfg.len() { let (a, b) = (cfg[i].min(dl), cfg[i + 1].min(dl)); ranges.push((a, b)); i += 2; }
            let mut s = sp(vec![], 0, None, 0);
            s.multi = Some((data.to_vec(), ranges.clone()));
            (Box::new(Multi(MultiRangeReader::new(Cursor::new(data.to_vec()), ranges), dl)), s)
        }
        9 => {
            let mut r = StreamBufferedReader::with_config(Cursor::new(data.to_vec()), sc).map_err(e)?;
            let st = start.min(dl);
            let mut sk = vec![0u8; st as usize];
            r.read_exact(&mut sk).map_err(|x| x.to_string())?;
            (Box::new(RngPlain(Rng_(RangeReader::new(r, st, len)))), sp(data[st as usize..(st.saturating_add(len).min(dl) as usize)].to_vec(), usize::MAX, None, st.saturating_add(len) - st))
        }
        10 => {
            let rr = RangeReader::new_and_seek(Cursor::new(data.to_vec()), start, len).map_err(e)?;
            (Box::new(SbrPlain(Sbr { r: StreamBufferedReader::with_config(rr, sc).map_err(e)? })), sp(range_bytes(), cap, None, 0))
        }
        11 => {
            // the preset constructors and configurations, over a plain or a short-read inner
            let k = g(cfg, 6, 0) as usize;
            let inner = Chunky { inner: Cursor::new(data.to_vec()), k: if k == 0 { usize::MAX } else { k } };
            let (r, cap) = match g(cfg, 0, 0) % 5 {
                0 => (StreamBufferedReader::new(inner), 64 * 1024),
                1 => (StreamBufferedReader::performance_optimized(inner), 128 * 1024),
                2 => (StreamBufferedReader::memory_efficient(inner), 16 * 1024),
                3 => (StreamBufferedReader::low_latency(inner), 8 * 1024),
                _ => (StreamBufferedReader::with_config(inner, zipora::io::StreamBufferConfig::default()), 64 * 1024),
            };
            (Box::new(SbrPlain(Sbr { r: r.map_err(e)? })), sp(data.to_vec(), if k == 0 { cap } else { 0 }, None, 0))
        }
        _ => {
            let k = g(cfg, 6, 0) as usize;
            let inner = Chunky { inner: Cursor::new(data.to_vec()), k: if k == 0 { usize::MAX } else { k } };
            (Box::new(Zc(ZeroCopyReader::new(inner).map_err(e)?)), sp(data.to_vec(), 64 * 1024, None, 0))
        }
    })
}

/// The multi-range reader against a shadow (ranges, index of the range being read, offset in it).
fn drive_multi(rd: &mut dyn Rd, data: &[u8], ranges0: &[(u64, u64)], ops: &[Op], obs: &mut Vec<(Op, Out)>) -> Result<(), String> {
    let mut ranges = ranges0.to_vec();
    let (mut idx, mut off) = (0usize, 0u64);
    let mut fuzzy = false;
    for (i, (name, n)) in ops.iter().enumerate() {
        let n = *n;
        let out = rd.op(name, n);
        obs.push(((name.clone(), n), out.clone()));
        let ctx = format!("range {} of {:?} offset {}", idx, ranges, off);
        let at = |m: String| format!("op {} ({} {}), {}: {}", i, name, n, ctx, m);
        match (name.as_str(), out) {
            (_, Out::Unsupported) => {}
            ("read" | "exact" | "vec", Out::Bytes(b)) => {
                // a read of at least one byte first leaves the ranges that are used up (as far as there is a next one)
                let pre = |idx: &mut usize, off: &mut u64, ranges: &[(u64, u64)]| { while *idx + 1 < ranges.len() && ranges[*idx].0 + *off >= ranges[*idx].1 { *idx += 1; *off = 0; } };
                if n > 0 && !ranges.is_empty() { pre(&mut idx, &mut off, &ranges); }
                // what the reader still has to deliver, range after range
                let mut rest: Vec<u8> = vec![];
                for (k, &(a, e)) in ranges.iter().enumerate().skip(idx) { let s = if k == idx { a + off } else { a }; if s < e { rest.extend_from_slice(&data[s as usize..e as usize]); } }
                if b.len() > rest.len() || b[..] != rest[..b.len()] { return Err(at(format!("returned {:?}, the ranges continue with {:?}", &b[..b.len().min(24)], &rest[..rest.len().min(24)]))); }
                if b.len() as i64 > n || (name == "exact" && b.len() as i64 != n) { return Err(at(format!("returned {} bytes", b.len()))); }
                if b.is_empty() && n > 0 && !rest.is_empty() { return Err(at("reported end of stream although ranges remain".into())); }
                // advance the shadow by the delivered bytes
                let mut k = b.len() as u64;
                while k > 0 { let (a, e) = ranges[idx]; let avail = e.saturating_sub(a + off); if avail == 0 { idx += 1; off = 0; continue; } let t = k.min(avail); off += t; k -= t; }
                // a vectored read that came back short may or may not have tried once more (which would leave a used-up range):
                // which range is "current" is then open until the next read
                fuzzy = name == "vec" && (b.len() as i64) < n;
            }
            ("exact", Out::Err(_)) => return Ok(()), // ran past the end (or legitimately short): position afterwards unspecified
            ("add_range", Out::Skipped) => ranges.push((((n as u64) >> 20).min(data.len() as u64), ((n as u64) & 0xF_FFFF).min(data.len() as u64))),
            ("next_range" | "minfo", Out::Info(_)) if fuzzy => return Ok(()),
            ("next_range", Out::Info(v)) => {
                let want = idx + 1 < ranges.len();
                if v != vec![want as u64] { return Err(at(format!("next_range() = {:?}, want {}", v, want))); }
                if want { idx += 1; off = 0; }
            }
            ("minfo", Out::Info(v)) => {
                let total: u64 = ranges.iter().map(|&(a, e)| e.saturating_sub(a)).sum();
                if v[0] != total { return Err(at(format!("total_length() = {}, want {}", v[0], total))); }
                // which range is current is only fixed up to exhausted ranges: compare when the shadow's range still has bytes
                if let Some(&(a, e)) = ranges.get(idx) { if a + off < e && (v[1] != 1 || (v[2], v[3]) != (a, e)) { return Err(at(format!("current_range() = {:?}", &v[1..]))); } }
            }
            (_, Out::Err(e)) => return Err(at(format!("failed: {}", e))),
            (_, o) => return Err(at(format!("unexpected outcome {:?}", o))),
        }
    }
    Ok(())
}

/// Runs the history; Err(msg) = the reader broke the property at some op.
pub fn drive(rd: &mut dyn Rd, spec: &Spec, ops: &[Op], obs: &mut Vec<(Op, Out)>) -> Result<(), String> {
    if let Some((data, ranges)) = &spec.multi { return drive_multi(rd, data, ranges, ops, obs); }
    let r = &spec.stream;
    let mut rl = r.len() as u64;            // shrinks when a range reader learns the total size
    let mut clamp = spec.seek_clamp;
    let mut range_l = spec.range_l;
    let mut seeked = false;
    let mut p: u64 = 0; // logical position, may lie past the end after a seek
    for (idx, (name, n)) in ops.iter().enumerate() {
        let n = *n;
        // "reads": n = count << 24 | size, a run of plain reads of one size (long histories stay short in the case text)
        if name == "reads" {
            let (cnt, sz) = ((n >> 24) as usize, (n & 0xFF_FFFF) as i64);
            for j in 0..cnt {
                let out = rd.op("read", sz);
                let left = rl.saturating_sub(p);
                match out {
                    Out::Bytes(b) => {
                        let h: &[u8] = if p >= rl { &[] } else { &r[p as usize..(p as usize + b.len()).min(rl as usize)] };
                        if b.len() as i64 > sz || b.len() as u64 > left || b[..] != *h { return Err(format!("op {} (reads), read #{} of {} bytes at logical position {} of {}: returned {} bytes that differ from the stream", idx, j, sz, p, rl, b.len())); }
                        if b.is_empty() && sz > 0 && left > 0 { return Err(format!("op {} (reads), read #{} of {} bytes at logical position {} of {}: reported end of stream although bytes remain", idx, j, sz, p, rl)); }
                        p += b.len() as u64;
                    }
                    Out::Err(e) => return Err(format!("op {} (reads), read #{} of {} bytes at logical position {} of {}: failed: {}", idx, j, sz, p, rl, e)),
                    o => return Err(format!("op {} (reads): unexpected outcome {:?}", idx, o)),
                }
            }
            obs.push(((name.clone(), n), Out::Unsupported));
            continue;
        }
        let out = rd.op(name, n);
        obs.push(((name.clone(), n), out.clone()));
        let at = |m: String| format!("op {} ({} {}), logical position {} of {}: {}", idx, name, n, p, rl, m);
        let left = rl.saturating_sub(p);
        let here = |k: usize| -> &[u8] { if p >= rl { &[] } else { &r[p as usize..(p as usize + k).min(rl as usize)] } };
        match (name.as_str(), out) {
            (_, Out::Unsupported) => {}
            ("read" | "simd" | "bulk" | "opt" | "consume" | "vec" | "direct", Out::Bytes(b)) if !(spec.exact_reads && name == "read") => {
                if name == "direct" { seeked = true; } // bytes taken behind the wrapper's back are not in its counters
                if b.len() as i64 > n { return Err(at(format!("returned {} bytes", b.len()))); }
                if b.len() as u64 > left || b[..] != *here(b.len()) { return Err(at(format!("returned {:?}, the stream has {:?}", &b[..b.len().min(32)], &here(b.len())[..here(b.len()).len().min(32)]))); }
                if b.is_empty() && n > 0 && left > 0 { return Err(at("reported end of stream although bytes remain".into())); }
                p += b.len() as u64;
            }
            ("read" | "exact" | "slice" | "zslice" | "byte", Out::Bytes(b)) => {
                let want = if name == "byte" { 1 } else { n as usize };
                if b.len() != want { return Err(at(format!("returned {} bytes", b.len()))); }
                if want as u64 > left || b[..] != *here(want) { return Err(at(format!("returned {:?}, the stream has {:?}", &b[..b.len().min(32)], &here(want)[..here(want).len().min(32)]))); }
                p += want as u64;
            }
            ("exact" | "slice" | "zslice" | "byte" | "read", Out::Err(e)) if name != "read" || spec.exact_reads => {
                let want = if name == "byte" { 1 } else { n as u64 };
                if want <= left && (want as usize <= spec.cap || name == "exact" || name == "byte") { return Err(at(format!("failed although the bytes exist: {}", e))); }
                if want <= left { continue; } // larger than the buffer can ever hold: refusing is legal, state unchanged
                return Ok(()); // ran past the end: position afterwards is unspecified
            }
            ("slice", Out::Nothing) => { if n as u64 <= left && n as usize <= spec.cap { return Err(at("no data although the bytes exist and fit the buffer".into())); } }
            ("peek" | "zpeek" | "fill_buf", Out::Peek(b)) => {
                if b.len() as u64 > left || b[..] != *here(b.len()) { return Err(at(format!("showed {:?}, the stream has {:?}", &b[..b.len().min(32)], &here(b.len())[..here(b.len()).len().min(32)]))); }
                if name == "fill_buf" { if b.is_empty() && left > 0 { return Err(at("fill_buf is empty although bytes remain".into())); } }
                else {
                    if b.len() as i64 > n { return Err(at(format!("showed {} bytes", b.len()))); }
                    if n as usize <= spec.cap && (b.len() as u64) < (n as u64).min(left) { return Err(at(format!("showed only {} bytes although the request fits the buffer", b.len()))); }
                }
            }
            ("peek" | "zpeek", Out::Nothing) => { if n as u64 <= left { return Err(at("no data although the bytes exist".into())); } }
            ("peek" | "zpeek", Out::Err(e)) => { if n as u64 <= left { return Err(at(format!("failed although the bytes exist: {}", e))); } }
            ("ensure", Out::Avail(k)) => { if k as u64 > left { return Err(at(format!("claims {} buffered bytes", k))); } if n as usize <= spec.cap && (k as u64) < (n as u64).min(left) { return Err(at(format!("only {} bytes buffered although the request fits the buffer", k))); } }
            ("ensure", Out::Err(e)) => { if n as usize <= spec.cap { return Err(at(format!("failed: {}", e))); } }
            ("skip", Out::Skipped) => { if n as u64 > left { return Err(at("skipped past the end without an error".into())); } p += n as u64; }
            ("skip", Out::Err(e)) => { if n as u64 <= left { return Err(at(format!("failed although the bytes exist: {}", e))); } return Ok(()); }
            ("pos", Out::Pos(q)) => { if q != p { return Err(at(format!("reports position {}", q))); } }
            ("inner_pos", Out::Pos(q)) => { if q != p { return Err(at(format!("the inner reader stands at {} (relative to the range start)", q))); } }
            ("reset", Out::Pos(_)) => p = 0,
            ("seek_in", Out::Pos(q)) => { if q != n as u64 { return Err(at(format!("returned {}", q))); } p = q; }
            ("seek_in", Out::Err(_)) => { if (n as u64) < clamp.unwrap_or(0) { return Err(at("refused a position inside the range".into())); } }
            ("seek_start" | "seek_cur" | "seek_end", Out::Pos(q)) => {
                seeked = true;
                let end = clamp.unwrap_or(rl) as i128;
                let tgt: i128 = match name.as_str() { "seek_start" => n as i128, "seek_cur" => p as i128 + n as i128, _ => end + n as i128 };
                let want = match clamp { Some(l) => tgt.clamp(0, l as i128), None => tgt };
                if want < 0 { return Err(at(format!("seek before the start succeeded with {}", q))); }
                if q as i128 != want { return Err(at(format!("seek returned {}, want {}", q, want))); }
                p = q;
            }
            ("seek_start" | "seek_cur" | "seek_end", Out::Err(e)) => {
                let end = clamp.unwrap_or(rl) as i128;
                let tgt: i128 = match name.as_str() { "seek_start" => n as i128, "seek_cur" => p as i128 + n as i128, _ => end + n as i128 };
                if clamp.is_some() || (tgt >= 0 && tgt <= rl as i128) { return Err(at(format!("seek failed: {}", e))); }
                return Ok(()); // refused an out-of-range target: later position is unspecified for pass-through seeks
            }
            // the buffered bytes are the next bytes of the stream: their UTF-8 verdict / CRC32C is that of the stream slice
            ("utf8", Out::Flag(f, k)) => {
                if k as u64 > left { return Err(at(format!("claims {} buffered bytes", k))); }
                let want = std::str::from_utf8(here(k)).is_ok();
                if f != want { return Err(at(format!("validates its {} buffered bytes as {}, they are {}valid UTF-8", k, f, if want { "" } else { "in" }))); }
            }
            ("crc" | "vcrc", Out::Crc(c, k)) => {
                if k as u64 > left { return Err(at(format!("claims {} buffered bytes", k))); }
                if k > 0 && c != crc32c_ref(here(k)) { return Err(at(format!("CRC32C of its {} buffered bytes = {:#x}, want {:#x}", k, c, crc32c_ref(here(k))))); }
            }
            ("usage", Out::Info(v)) => match spec.kind {
                0 | 1 | 10 | 11 => {
                    if v[0] > left { return Err(at(format!("claims {} buffered bytes", v[0]))); }
                    if (v[1] == 1) != (v[0] > 0) { return Err(at(format!("has_data_in_buffer() = {} with buffer_usage() = {}", v[1], v[0]))); }
                    if !seeked && v[2].wrapping_sub(v[0]) != p { return Err(at(format!("total_read() {} - buffer_usage() {} is not the number of bytes handed out", v[2], v[0]))); }
                }
                6 => { if v[0] != left || v[1] != left || v[2] != left || v[3] != here(1).first().map(|&b| b as u64 + 1).unwrap_or(0) || v[4] != rl || (v[5] == 1) != (rl == 0) { return Err(at(format!("accessors report {:?} with {} bytes left", v, left))); } }
                7 => { if v[0] != left || v[1] != rl || (v[2] == 1) != (rl == 0) { return Err(at(format!("remaining/len/is_empty report {:?} with {} of {} bytes left", v, left, rl))); } }
                _ => { if v[0] > left { return Err(at(format!("claims {} buffered bytes", v[0]))); } }
            },
            ("rinfo", Out::Info(v)) => {
                let rem = range_l.saturating_sub(p);
                let prog = if range_l == 0 { 1e6 } else { p as f64 / range_l as f64 * 1e6 };
                if v[0] != p || v[1] != rem || v[2] != range_l || (v[3] == 1) != (p >= range_l) || (v[4] == 1) != (p < range_l) || v[5].abs_diff(prog.round() as u64) > 2 || v[6] != range_l {
                    return Err(at(format!("accessors [position, remaining, range_length, is_at_end, has_remaining, progress*1e6, end-start] = {:?}, range length {}", v, range_l)));
                }
            }
            ("set_total", Out::Skipped) => { let n = n as u64; if n < range_l { range_l = n; rl = rl.min(n); if clamp.is_some() { clamp = Some(n); } } }
            (_, Out::Err(e)) => return Err(at(format!("failed: {}", e))),
            (_, o) => return Err(at(format!("unexpected outcome {:?}", o))),
        }
    }
    Ok(())
}

pub fn reader(cx: &mut Ctx, kind: usize, data: &[u8], cfg: &[u64], ops: &[Op], force: bool) { reader_g(cx, kind, data, None, cfg, ops, force) }
/// `gen` = Some((n, seed, mode)): the data is `gen_data(n, seed, mode)` and the case names it that way.
pub fn reader_g(cx: &mut Ctx, kind: usize, data: &[u8], gen: Option<(usize, u64, u64)>, cfg: &[u64], ops: &[Op], force: bool) {
    let kind = kind % N_RKIND;
    let cell = format!("reader/{}", rkind_name(kind));
    let cj = match gen {
        Some((n, seed, mode)) => json!({"cell": "reader", "kind": kind, "gen": [n, seed, mode], "cfg": cfg, "ops": ops_json(ops)}),
        None => json!({"cell": "reader", "kind": kind, "data": data, "cfg": cfg, "ops": ops_json(ops)}),
    };
    if !cx.gate(&cj) { return; }
    cx.sum.eval(&cell, &cj.to_string(), ops.len() >= 3);
    cx.sum.dist_max("reader_max_ops", ops.len() as u64);
    if gen.is_some() { cx.sum.dist("reader_big_input"); }
    // sbr_preset (two of its five presets) and zc_default are the modelled state machines with preset numbers
    // sbr_over_range is the buffered-reader model over the range slice (theorem range_read_is_cursor_read)
    if kind > 6 && kind != 10 && kind != 11 && kind != 12 { cx.sum.cell_status(&cell, "S-only"); }
    for (name, _) in ops { if matches!(name.as_str(), "vec" | "utf8" | "crc" | "vcrc" | "usage" | "rinfo" | "set_total" | "inner_pos" | "add_range" | "next_range" | "minfo" | "reads" | "direct") { cx.sum.dist(&format!("reader_op_{}", name)); } }
    let mut obs = vec![];
    let r = guarded(|| -> Result<(), String> {
        let (mut rd, spec) = match build(cx, kind, data, cfg) { Ok(x) => x, Err(e) if e.starts_with("skip:") => return Ok(()), Err(e) => return Err(format!("constructor failed: {}", e)) };
        drive(rd.as_mut(), &spec, ops, &mut obs)
    });
    match r {
        Err(p) => cx.sum.fail(&cell, None, cj, &format!("panicked: {}", p)),
        Ok(Err(why)) => cx.sum.fail(&cell, None, cj, &why),
        Ok(Ok(())) => cx.coq_reader(kind, data, cfg, &obs, force),
    }
}

// ------------------------------------------------------------------------------------------
// writers
// ------------------------------------------------------------------------------------------
pub const N_WKIND: usize = 11;
pub fn wkind_name(k: usize) -> &'static str {
    ["sbw", "sbw_chunky", "zcw", "zcw_chunky", "range_writer", "sbw_seek", "range_writer_seek", "mmap_out", "sbw_default", "zcw_default", "zc_buffer"][k % N_WKIND]
}

fn payload(counter: &mut u64, n: usize) -> Vec<u8> { (0..n).map(|_| { *counter += 1; (*counter * 31 + (*counter >> 8)) as u8 }).collect() }

/// One operation of a writer history as the writer model reads it: (code, numeric argument, payload) and what the
/// implementation answered: the outcome and the length of the destination afterwards.  code -1 = not modelled.
pub struct WLog { pub code: i128, pub arg: i128, pub data: Vec<u8>, pub out: i128, pub dest: i128 }
thread_local! {
    pub static WLOG: std::cell::RefCell<Vec<WLog>> = std::cell::RefCell::new(vec![]);
    /// what zc_ensure_write granted (-1 = the operation did not run)
    pub static LAST_K: std::cell::Cell<i128> = std::cell::Cell::new(-1);
}
thread_local! {
    /// range writer cases: (original destination, destination afterwards, range start, range end)
    pub static RW_FINAL: std::cell::RefCell<Option<(Vec<u8>, Vec<u8>, u64, u64)>> = std::cell::RefCell::new(None);
}
fn wlog(code: i128, arg: i128, data: &[u8], out: i128) {
    let dest = super::c13_io::CHUNKY_LEN.with(|c| c.get()) as i128;
    WLOG.with(|l| l.borrow_mut().push(WLog { code, arg, data: data.to_vec(), out, dest }));
}

/// Generic driver over io::Write; operations the writer kind adds come through `ext` (Some(true) = the payload was accepted).
fn run_w<W: Write>(w: &mut W, ops: &[Op], accepted: &mut Vec<u8>, ctr: &mut u64, ext: &mut dyn FnMut(&mut W, &str, usize, &[u8], &[u8]) -> Result<Option<bool>, String>) -> Result<(), String> {
    for (idx, (name, n)) in ops.iter().enumerate() {
        match name.as_str() {
            "write" => { let d = payload(ctr, *n as usize); let k = w.write(&d).map_err(|x| format!("op {} write({}) failed: {}", idx, n, x))?; if k > d.len() { return Err(format!("op {}: write accepted {} of {}", idx, k, d.len())); } accepted.extend_from_slice(&d[..k]); wlog(0, 0, &d, k as i128); }
            "write_all" => { let d = payload(ctr, *n as usize); w.write_all(&d).map_err(|x| format!("op {} write_all({}) failed: {}", idx, n, x))?; accepted.extend_from_slice(&d); wlog(1, 0, &d, 1); }
            "flush" => { w.flush().map_err(|x| format!("op {} flush failed: {}", idx, x))?; wlog(2, 0, &[], 1); }
            // VectoredIO::write_vectored of three buffers (the middle one empty): the first `total` bytes of the buffers, in order, were written
            "vecw" => {
                let d = payload(ctr, *n as usize);
                let (a, c) = d.split_at(d.len() / 3);
                let bufs = [std::io::IoSlice::new(a), std::io::IoSlice::new(&[]), std::io::IoSlice::new(c)];
                let k = zipora::io::VectoredIO::write_vectored(w, &bufs).map_err(|x| format!("op {} write_vectored({}) failed: {}", idx, n, x))?;
                if k > d.len() { return Err(format!("op {}: write_vectored accepted {} of {}", idx, k, d.len())); }
                accepted.extend_from_slice(&d[..k]);
                wlog(-1, 0, &[], 0);
            }
            other => {
                let d = payload(ctr, *n as usize);
                LAST_K.with(|c| c.set(-1));
                let r = ext(w, other, *n as usize, &d, accepted).map_err(|x| format!("op {} ({} {}): {}", idx, other, n, x))?;
                if let Some(true) = r { accepted.extend_from_slice(&d); }
                let granted = LAST_K.with(|c| c.get());
                match (other, r) {
                    ("byte", Some(true)) => wlog(3, 0, &d, 1),
                    ("direct", Some(true)) => wlog(4, 0, &d, 1),
                    ("zc", Some(b)) => wlog(5, 0, &d, b as i128),
                    ("zc_ensure", None) if granted >= 0 => wlog(6, *n as i128, &[], granted),
                    // observers and operations the kind does not have leave the writer alone
                    (_, None) => {}
                    // anything else that was accepted is not part of the model
                    _ => wlog(-1, 0, &[], 0),
                }
            }
        }
    }
    Ok(())
}

/// cfg: [cap, bulk, chunk, start, len, prefill, variant]
pub fn writer(cx: &mut Ctx, kind: usize, cfg: &[u64], ops: &[Op]) {
    let kind = kind % N_WKIND;
    let cell = format!("writer/{}", wkind_name(kind));
    let cj = json!({"cell": "writer", "kind": kind, "cfg": cfg, "ops": ops_json(ops)});
    if !cx.gate(&cj) { return; }
    cx.sum.eval(&cell, &cj.to_string(), ops.len() >= 3);
    if !matches!(kind, 0 | 1 | 2 | 3 | 4 | 6 | 8 | 9) { cx.sum.cell_status(&cell, "S-only"); }
    for (name, _) in ops { if matches!(name.as_str(), "vecw" | "zc_ensure" | "winfo" | "seek_start" | "seek_cur" | "seek_end" | "truncate") { cx.sum.dist(&format!("writer_op_{}", name)); } }
    let cap = g(cfg, 0, 8) as usize;
    let bulk = (g(cfg, 1, 8192) as usize).max(1);
    let chunk = g(cfg, 2, 1).max(1) as usize;
    let path = format!("{}/wr_{}.bin", cx.tmp, kind);
    let e = |x: zipora::ZiporaError| x.to_string();
    WLOG.with(|l| l.borrow_mut().clear());
    RW_FINAL.with(|f| *f.borrow_mut() = None);
    super::c13_io::CHUNKY_LEN.with(|c| c.set(0));
    let mut final_dest: Option<Vec<u8>> = None;
    let r = guarded(|| -> Result<(), String> {
        let mut accepted: Vec<u8> = vec![];
        let mut ctr = 0u64;
        let got: Vec<u8> = match kind {
            0 | 1 | 8 => {
                let mut none = |w: &mut StreamBufferedWriter<ChunkyW>, name: &str, _: usize, d: &[u8], acc: &[u8]| -> Result<Option<bool>, String> {
                    match name {
                        // single bytes through the fast path are part of the same stream
                        "byte" => { w.write_byte_fast(d.first().copied().unwrap_or(0)).map_err(|x| x.to_string())?; Ok(Some(!d.is_empty())) }
                        // after a flush the destination is up to date: bytes written to it directly (get_mut) come next in the stream
                        "direct" => { w.flush().map_err(|x| x.to_string())?; w.get_mut().write_all(d).map_err(|x| x.to_string())?; Ok(Some(true)) }
                        // what reached the destination plus what is still buffered is what was accepted
                        "winfo" => {
                            if w.get_ref().inner.len() + w.buffer_usage() != acc.len() { return Err(format!("{} bytes at the destination + buffer_usage() {} != {} bytes accepted", w.get_ref().inner.len(), w.buffer_usage(), acc.len())); }
                            if w.total_written() > acc.len() as u64 { return Err(format!("total_written() = {} with {} bytes accepted", w.total_written(), acc.len())); }
                            if w.get_ref().inner[..] != acc[..w.get_ref().inner.len().min(acc.len())] || w.get_ref().inner.len() > acc.len() { return Err("the destination does not hold a prefix of the accepted bytes".into()); }
                            Ok(None)
                        }
                        _ => Ok(None),
                    }
                };
                let dest = ChunkyW { inner: vec![], k: if kind == 1 || (kind == 8 && g(cfg, 2, 0) > 0) { chunk } else { usize::MAX } };
                let mut w = if kind == 8 { StreamBufferedWriter::new(dest).map_err(e)? } else { StreamBufferedWriter::with_config(dest, sb_cfg(cap.max(1), cap.max(1), true, 2, bulk, 2.0, false)).map_err(e)? };
                // "byte" needs exactly one payload byte
                let ops1: Vec<Op> = ops.iter().map(|(n, k)| if n == "byte" { (n.clone(), 1) } else { (n.clone(), *k) }).collect();
                run_w(&mut w, &ops1, &mut accepted, &mut ctr, &mut none)?;
                w.into_inner().map_err(|x| x.to_string())?.inner
            }
            2 | 3 | 9 => {
                let cap_eff = if kind == 9 { 64 * 1024 } else { cap };
                let mut zc = |w: &mut ZeroCopyWriter<ChunkyW>, name: &str, n: usize, d: &[u8], _: &[u8]| -> Result<Option<bool>, String> {
                    match name {
                        "zc" => {
                            match w.zc_write(n).map_err(|x| x.to_string())? { Some(s) => { if s.len() != n { return Err(format!("zc_write({}) handed out {} bytes", n, s.len())); } s.copy_from_slice(d); } None => { if n <= cap_eff { return Err(format!("zc_write({}) refused although the buffer holds {}", n, cap_eff)); } return Ok(Some(false)); } }
                            w.zc_commit(n).map_err(|x| x.to_string())?;
                            Ok(Some(true))
                        }
                        "zc_ensure" => {
                            let k = w.zc_ensure_write(n).map_err(|x| x.to_string())?;
                            LAST_K.with(|c| c.set(k as i128));
                            if k > n || k > w.zc_write_available() || (n <= cap_eff && k != n) { return Err(format!("zc_ensure_write({}) = {} with {} bytes of space (capacity {})", n, k, w.zc_write_available(), cap_eff)); }
                            Ok(None)
                        }
                        "direct" => { w.flush().map_err(|x| x.to_string())?; w.get_mut().write_all(d).map_err(|x| x.to_string())?; if w.get_ref().inner.len() < d.len() { return Err("get_ref after get_mut".into()); } Ok(Some(true)) }
                        "winfo" => { if w.zc_write_available() > cap_eff { return Err(format!("zc_write_available() = {} in a {}-byte buffer", w.zc_write_available(), cap_eff)); } Ok(None) }
                        _ => Ok(None),
                    }
                };
                let dest = ChunkyW { inner: vec![], k: if kind == 3 || (kind == 9 && g(cfg, 2, 0) > 0) { chunk } else { usize::MAX } };
                let mut w = if kind == 9 { ZeroCopyWriter::new(dest).map_err(e)? } else { ZeroCopyWriter::with_capacity(dest, cap).map_err(e)? };
                run_w(&mut w, ops, &mut accepted, &mut ctr, &mut zc)?;
                w.into_inner().map_err(|x| x.to_string())?.inner
            }
            4 => {
                let (start, len, pre) = (g(cfg, 3, 0), g(cfg, 4, 16), g(cfg, 5, 32) as usize);
                let orig: Vec<u8> = (0..pre).map(|x| 0xA0u8 ^ (x as u8)).collect();
                let mut none = |_: &mut RangeWriter<Cursor<Vec<u8>>>, _: &str, _: usize, _: &[u8], _: &[u8]| -> Result<Option<bool>, String> { Ok(None) };
                let mut w = RangeWriter::new_and_seek(Cursor::new(orig.clone()), start, len).map_err(e)?;
                // writes past the range end are refused (0 bytes), never spill over
                let only_write: Vec<Op> = ops.iter().filter(|(n, _)| n == "write" || n == "flush" || n == "vecw").cloned().collect();
                run_w(&mut w, &only_write, &mut accepted, &mut ctr, &mut none)?;
                if accepted.len() as u64 > len { return Err(format!("range writer accepted {} bytes into a {}-byte range", accepted.len(), len)); }
                if w.bytes_written() != accepted.len() as u64 || w.remaining() != len - accepted.len() as u64 { return Err("range writer counters".into()); }
                let out = w.into_inner().into_inner();
                // expected: the original with [start, start+accepted) overwritten and nothing else touched
                // (a std Cursor zero-fills a gap when positioned past its end; that is not the range writer's doing)
                let s0 = start as usize;
                let hi = orig.len().max(s0 + accepted.len());
                if out.len() < orig.len() || out.len() > hi || (!accepted.is_empty() && out.len() < s0 + accepted.len()) { return Err(format!("range writer left {} bytes, original {} bytes, range start {}, accepted {}", out.len(), orig.len(), s0, accepted.len())); }
                for (i, &b) in out.iter().enumerate() {
                    let want = if i >= s0 && i < s0 + accepted.len() { accepted[i - s0] } else if i < orig.len() { orig[i] } else { 0 };
                    if b != want { return Err(format!("range writer left byte {} = {}, want {} (range start {}, accepted {} bytes)", i, b, want, s0, accepted.len())); }
                }
                RW_FINAL.with(|f| *f.borrow_mut() = Some((orig.clone(), out.clone(), start, start.saturating_add(len))));
                return Ok(());
            }
            5 => return sbw_seek(cfg, ops),
            6 => return range_writer_seek(cfg, ops),
            7 => return mmap_out(&path, cfg, ops),
            _ => return zc_buffer(cfg, ops),
        };
        if got != accepted { return Err(format!("destination holds {} bytes {:?}, the writer accepted {} bytes {:?}", got.len(), &got[..got.len().min(40)], accepted.len(), &accepted[..accepted.len().min(40)])); }
        final_dest = Some(got);
        Ok(())
    });
    match r {
        Err(p) => cx.sum.fail(&cell, None, cj, &format!("panicked: {}", p)),
        Ok(Err(why)) => cx.sum.fail(&cell, None, cj, &why),
        Ok(Ok(())) => {
            // model tie: the range writer as a transducer to inner writes, replayed on a cursor
            if let Some((orig, out, start, end)) = RW_FINAL.with(|f| f.borrow_mut().take()) {
                let log = WLOG.with(|l| std::mem::take(&mut *l.borrow_mut()));
                cx.coq_range_writer(&cell, start, end, &orig, &log, &out);
                return;
            }
            // model tie: the buffered and the zero-copy writer (explicit and default configuration) over the short-write destination
            if let Some(dest) = final_dest {
                let log = WLOG.with(|l| std::mem::take(&mut *l.borrow_mut()));
                let unlimited = |on: bool| if on { chunk as i128 } else { 0 };
                let (zc, capm, bulkm, chunkm): (bool, i128, i128, i128) = match kind {
                    0 => (false, cap.max(1) as i128, bulk as i128, 0),
                    1 => (false, cap.max(1) as i128, bulk as i128, chunk as i128),
                    8 => (false, 65536, 8192, unlimited(g(cfg, 2, 0) > 0)),
                    2 => (true, cap as i128, 0, 0),
                    3 => (true, cap as i128, 0, chunk as i128),
                    9 => (true, 65536, 0, unlimited(g(cfg, 2, 0) > 0)),
                    _ => return,
                };
                cx.coq_writer(&cell, zc, capm, bulkm, chunkm, &log, &dest);
            }
        }
    }
}

fn seek_of(name: &str, n: i64) -> Option<SeekFrom> {
    Some(match name { "seek_start" => SeekFrom::Start(n.max(0) as u64), "seek_cur" => SeekFrom::Current(n), "seek_end" => SeekFrom::End(n), _ => return None })
}

/// StreamBufferedWriter over a seekable destination against an unbuffered cursor that receives the same accepted bytes and seeks.
fn sbw_seek(cfg: &[u64], ops: &[Op]) -> Result<(), String> {
    let cap = (g(cfg, 0, 8) as usize).max(1);
    let bulk = (g(cfg, 1, 8192) as usize).max(1);
    let pre: Vec<u8> = (0..g(cfg, 5, 0) as usize).map(|x| 0x50u8 ^ (x as u8)).collect();
    let mut w = StreamBufferedWriter::with_config(Cursor::new(pre.clone()), sb_cfg(cap, cap, true, 2, bulk, 2.0, false)).map_err(|x| x.to_string())?;
    let mut shadow = Cursor::new(pre);
    let mut ctr = 0u64;
    for (idx, (name, n)) in ops.iter().enumerate() {
        let at = |m: String| format!("op {} ({} {}): {}", idx, name, n, m);
        if let Some(sf) = seek_of(name, *n) {
            let (a, b) = (w.seek(sf), shadow.seek(sf));
            match (a, b) {
                (Ok(x), Ok(y)) => if x != y { return Err(at(format!("seek returned {}, an unbuffered writer is at {}", x, y))); },
                (Err(_), Err(_)) => {}
                (a, b) => return Err(at(format!("seek gave {:?}, an unbuffered writer {:?}", a.map_err(|x| x.to_string()), b.map_err(|x| x.to_string())))),
            }
            continue;
        }
        match name.as_str() {
            "write" | "write_all" | "vecw" => {
                let d = payload(&mut ctr, *n as usize);
                let k = match name.as_str() {
                    "write" => w.write(&d).map_err(|x| at(x.to_string()))?,
                    "write_all" => { w.write_all(&d).map_err(|x| at(x.to_string()))?; d.len() }
                    _ => { let (a, c) = d.split_at(d.len() / 3); zipora::io::VectoredIO::write_vectored(&mut w, &[std::io::IoSlice::new(a), std::io::IoSlice::new(&[]), std::io::IoSlice::new(c)]).map_err(|x| at(x.to_string()))? }
                };
                if k > d.len() { return Err(at(format!("accepted {} of {} bytes", k, d.len()))); }
                if k > 0 { shadow.write_all(&d[..k]).unwrap(); }
            }
            "byte" => { let d = payload(&mut ctr, 1); w.write_byte_fast(d[0]).map_err(|x| at(x.to_string()))?; shadow.write_all(&d).unwrap(); }
            "flush" => w.flush().map_err(|x| at(x.to_string()))?,
            _ => {}
        }
    }
    let got = w.into_inner().map_err(|x| x.to_string())?.into_inner();
    let want = shadow.into_inner();
    if got != want { return Err(format!("destination holds {} bytes {:?}, an unbuffered writer leaves {} bytes {:?}", got.len(), &got[..got.len().min(48)], want.len(), &want[..want.len().min(48)])); }
    Ok(())
}

/// RangeWriter with seeks; the range lies inside the destination, so the result is the original with the written bytes laid over it.
fn range_writer_seek(cfg: &[u64], ops: &[Op]) -> Result<(), String> {
    let (start, len) = (g(cfg, 3, 0), g(cfg, 4, 16));
    let end = start + len;
    let orig: Vec<u8> = (0..(end + 1 + g(cfg, 5, 0) % 7) as usize).map(|x| 0xA0u8 ^ (x as u8)).collect();
    let c = Cursor::new(orig.clone());
    let e = |x: zipora::ZiporaError| x.to_string();
    let mut w = match g(cfg, 6, 0) % 3 {
        0 => RangeWriter::new_and_seek(c, start, len).map_err(e)?,
        1 => { let mut c = c; c.set_position(start); RangeWriter::with_range(c, start, end) }
        _ => zipora::io::range::writer(c, start, len).map_err(e)?,
    };
    let mut model = orig.clone();
    let (mut cur, mut total) = (start, 0u64);
    let mut ctr = 0u64;
    for (idx, (name, n)) in ops.iter().enumerate() {
        let at = |m: String| format!("op {} ({} {}), position {} in range [{}, {}): {}", idx, name, n, cur, start, end, m);
        if let Some(sf) = seek_of(name, *n) {
            let tgt: i128 = match sf { SeekFrom::Start(x) => start as i128 + x as i128, SeekFrom::Current(x) => cur as i128 + x as i128, SeekFrom::End(x) => end as i128 + x as i128 };
            let want = tgt.clamp(start as i128, end as i128) as u64;
            match w.seek(sf) { Ok(q) => { if q != want - start { return Err(at(format!("seek returned {}, want {}", q, want - start))); } cur = want; wlog(match sf { SeekFrom::Start(_) => 9, SeekFrom::Current(_) => 10, SeekFrom::End(_) => 11 }, match sf { SeekFrom::Start(x) => x as i128, SeekFrom::Current(x) | SeekFrom::End(x) => x as i128 }, &[], q as i128); } Err(x) => return Err(at(format!("seek failed: {}", x))) }
            continue;
        }
        match name.as_str() {
            "write" | "vecw" => {
                let d = payload(&mut ctr, *n as usize);
                let k = if name == "write" { w.write(&d) } else { let (a, c) = d.split_at(d.len() / 3); zipora::io::VectoredIO::write_vectored(&mut w, &[std::io::IoSlice::new(a), std::io::IoSlice::new(&[]), std::io::IoSlice::new(c)]) }.map_err(|x| at(x.to_string()))?;
                if k as u64 > end - cur || k > d.len() { return Err(at(format!("accepted {} bytes with {} left in the range", k, end - cur))); }
                if k == 0 && !d.is_empty() && cur < end { return Err(at("accepted nothing although the range has room".into())); }
                model[cur as usize..cur as usize + k].copy_from_slice(&d[..k]);
                cur += k as u64;
                total += k as u64;
                if name == "write" { wlog(0, 0, &d, k as i128); } else { wlog(-1, 0, &[], 0); }
            }
            "flush" => { w.flush().map_err(|x| at(x.to_string()))?; wlog(2, 0, &[], 1); }
            "winfo" => {
                let got = (w.current_position(), w.remaining(), w.bytes_written(), w.is_at_end(), w.start_position(), w.end_position(), w.range_length());
                if got != (cur, end - cur, total, cur >= end, start, end, len) { return Err(at(format!("accessors (current, remaining, bytes_written, at_end, start, end, length) = {:?}, {} bytes written", got, total))); }
                if w.get_ref().position() != cur || w.get_mut().position() != cur { return Err(at(format!("the destination stands at {}", w.get_ref().position()))); }
            }
            _ => {}
        }
    }
    let out = w.into_inner().into_inner();
    if out != model { let i = out.iter().zip(model.iter()).position(|(a, b)| a != b).unwrap_or(out.len().min(model.len())); return Err(format!("destination ({} bytes) differs from the original overlaid with the writes ({} bytes) at byte {}", out.len(), model.len(), i)); }
    RW_FINAL.with(|f| *f.borrow_mut() = Some((orig, out, start, end)));
    Ok(())
}

/// MemoryMappedOutput (create / open, seek, write_slice and typed writes, truncate) against a plain byte vector.
fn mmap_out(path: &str, cfg: &[u64], ops: &[Op]) -> Result<(), String> {
    use zipora::io::{DataOutput, MemoryMappedOutput};
    let e = |x: zipora::ZiporaError| x.to_string();
    let init = g(cfg, 0, 0) as usize;
    let opened = g(cfg, 6, 0) % 2 == 1;
    let mut model: Vec<u8> = if opened { (0..init).map(|x| 0x33u8 ^ (x as u8).wrapping_mul(5)).collect() } else { vec![0; init] };
    let mut o = if opened { std::fs::write(path, &model).map_err(|x| x.to_string())?; MemoryMappedOutput::open(path).map_err(e)? } else { MemoryMappedOutput::create(path, init).map_err(e)? };
    let mut pos = 0usize;
    let mut ctr = 0u64;
    let mut exact = false; // the file length is known exactly only right after truncate()
    for (idx, (name, n)) in ops.iter().enumerate() {
        let at = |m: String| format!("op {} ({} {}), position {}: {}", idx, name, n, pos, m);
        match name.as_str() {
            "write" | "write_all" | "byte" | "zc" => {
                let d = payload(&mut ctr, if name == "byte" { 1 } else { *n as usize });
                match name.as_str() {
                    "write" => o.write_slice(&d),
                    "write_all" => o.write_bytes(&d),
                    "byte" => o.write_u8(d[0]),
                    _ => o.write_length_prefixed_bytes(&d),
                }.map_err(|x| at(x.to_string()))?;
                let mut enc = vec![];
                if name == "zc" { let mut v = d.len() as u64; loop { let b = (v & 0x7f) as u8; v >>= 7; if v == 0 { enc.push(b); break; } enc.push(b | 0x80); } }
                enc.extend_from_slice(&d);
                if model.len() < pos + enc.len() { model.resize(pos + enc.len(), 0); }
                model[pos..pos + enc.len()].copy_from_slice(&enc);
                pos += enc.len();
                if !enc.is_empty() { exact = false; }
            }
            "seek_start" => match o.seek(*n as usize) {
                Ok(()) => { if *n as usize > o.capacity() { return Err(at(format!("seek beyond the capacity {} succeeded", o.capacity()))); } pos = *n as usize; if model.len() < pos { model.resize(pos, 0); exact = false; } }
                Err(x) => { if *n as usize <= model.len() { return Err(at(format!("seek inside the written region failed: {}", x))); } }
            },
            "flush" => o.flush().map_err(|x| at(x.to_string()))?,
            "truncate" => { o.truncate().map_err(|x| at(x.to_string()))?; model.truncate(pos); exact = true; }
            "winfo" => {
                if o.position() != pos || o.capacity() < model.len() || o.remaining() != o.capacity() - pos { return Err(at(format!("position() {} capacity() {} remaining() {} with {} bytes of content", o.position(), o.capacity(), o.remaining(), model.len()))); }
            }
            _ => {}
        }
    }
    o.flush().map_err(e)?;
    drop(o);
    let f = std::fs::read(path).map_err(|x| x.to_string())?;
    if f.len() < model.len() || (exact && f.len() != model.len()) { return Err(format!("the file has {} bytes, the content written has {}{}", f.len(), model.len(), if exact { " (truncated last)" } else { "" })); }
    if f[..model.len()] != model[..] { let i = f.iter().zip(model.iter()).position(|(a, b)| a != b).unwrap(); return Err(format!("the file differs from the bytes written at offset {}: {} instead of {}", i, f[i], model[i])); }
    if f[model.len()..].iter().any(|&b| b != 0) { return Err("the file has non-zero bytes beyond what was written".into()); }
    Ok(())
}

/// ZeroCopyBuffer on its own: a FIFO of bytes (fill_from / zc_write+commit in, drain_to / zc_read+advance out, compact, reset).
fn zc_buffer(cfg: &[u64], ops: &[Op]) -> Result<(), String> {
    use zipora::io::ZeroCopyBuffer;
    let cap = g(cfg, 0, 8) as usize;
    let mut b = if g(cfg, 6, 0) % 2 == 1 { ZeroCopyBuffer::with_secure_pool(cap) } else { ZeroCopyBuffer::new(cap) }.map_err(|x| x.to_string())?;
    let mut q: std::collections::VecDeque<u8> = Default::default();
    let mut ctr = 0u64;
    for (idx, (name, n)) in ops.iter().enumerate() {
        let n = *n as usize;
        let ql0 = q.len();
        let at = move |m: String| format!("op {} ({} {}), {} bytes queued before it, capacity {}: {}", idx, name, n, ql0, cap, m);
        let front = |q: &std::collections::VecDeque<u8>, k: usize| -> Vec<u8> { q.iter().take(k).copied().collect() };
        match name.as_str() {
            "write" | "fill" => {
                let d = payload(&mut ctr, n);
                let mut src = &d[..];
                let k = b.fill_from(&mut src).map_err(|x| at(x.to_string()))?;
                if k > n || src.len() != n - k { return Err(at(format!("fill_from reports {} bytes, the source gave {}", k, n - src.len()))); }
                if k == 0 && n > 0 && q.len() < cap { return Err(at("took nothing although there is room".into())); }
                if q.len() + k > cap { return Err(at(format!("holds {} bytes", q.len() + k))); }
                q.extend(&d[..k]);
            }
            "write_all" | "drain" => {
                let mut w = ChunkyW { inner: vec![], k: n.max(1) };
                let k = b.drain_to(&mut w).map_err(|x| at(x.to_string()))?;
                if k != w.inner.len() || k > q.len() || w.inner != front(&q, k) { return Err(at(format!("drained {:?}, the queue starts with {:?}", &w.inner[..w.inner.len().min(24)], front(&q, k.min(24))))); }
                if k == 0 && !q.is_empty() { return Err(at("drained nothing although bytes are queued".into())); }
                q.drain(..k);
            }
            "zc" => {
                let d = payload(&mut ctr, n);
                let room = b.write_available();
                match b.zc_write(n).map_err(|x| at(x.to_string()))? {
                    Some(s) => { if s.len() != n || n > room { return Err(at(format!("zc_write handed out {} bytes with {} of space", s.len(), room))); } s.copy_from_slice(&d); b.zc_commit(n).map_err(|x| at(x.to_string()))?; q.extend(&d); }
                    None => if n <= room { return Err(at(format!("zc_write refused although write_available() = {}", room))); },
                }
            }
            "byte" | "zcr" => {
                let k = if name == "byte" { 1 } else { n };
                match b.zc_read(k).map_err(|x| at(x.to_string()))? {
                    Some(s) => { if k > q.len() || s != &front(&q, k)[..] { return Err(at(format!("zc_read showed {:?}, the queue starts with {:?}", &s[..s.len().min(24)], front(&q, k.min(24))))); } b.zc_advance(k).map_err(|x| at(x.to_string()))?; q.drain(..k); }
                    None => if k <= q.len() { return Err(at("zc_read refused although the bytes are queued".into())); },
                }
            }
            "flush" | "compact" => { b.compact(); if b.read_position() != 0 || b.write_position() != q.len() { return Err(at(format!("after compact: read_position {} write_position {}", b.read_position(), b.write_position()))); } }
            "truncate" | "reset" => { b.reset(); q.clear(); }
            "zc_ensure" => {
                let k = b.zc_ensure_write(n).map_err(|x| at(x.to_string()))?;
                if k > n || k != b.write_available().min(n) || k < n.min(cap - q.len()) { return Err(at(format!("zc_ensure_write = {} with write_available() {}", k, b.write_available()))); }
            }
            "seek_start" => { // an advance beyond the queued bytes is refused and changes nothing
                if b.zc_advance(q.len() + 1 + n % 3).is_ok() { return Err(at("zc_advance beyond the queued bytes succeeded".into())); }
                if b.zc_commit(b.write_available() + 1).is_ok() { return Err(at("zc_commit beyond the capacity succeeded".into())); }
            }
            _ => {}
        }
        // after every operation: the readable bytes are the queue
        let all = front(&q, q.len());
        if b.available() != q.len() || b.readable_slice() != &all[..] || b.is_empty() != q.is_empty() || b.zc_available() != q.len() || b.capacity() != cap {
            return Err(at(format!("holds {} bytes {:?}, the queue has {} bytes {:?}", b.available(), &b.readable_slice()[..b.available().min(24)], q.len(), &all[..all.len().min(24)])));
        }
        if b.is_full() != (b.write_position() == cap) || b.write_available() != cap - b.write_position() || b.zc_write_available() != b.write_available() || b.zc_ensure(n).ok() != Some(q.len().min(n)) || b.writable_slice().len() != b.write_available() {
            return Err(at("space accessors disagree with each other".into()));
        }
    }
    Ok(())
}

// ------------------------------------------------------------------------------------------
// generators
// ------------------------------------------------------------------------------------------
pub fn gen_sizes(r: &mut Rng, cap: usize) -> i64 {
    let c = cap as i64;
    let opts = [0, 1, 2, 3, c - 1, c, c + 1, 2 * c, 2 * c + 1, c / 2, 7, 64];
    let v = if r.chance(3, 4) { *r.pick(&opts) } else { r.below(3 * cap as u64 + 4) as i64 };
    v.max(0)
}
pub fn gen_reader_case(r: &mut Rng, kind: usize) -> (Vec<u8>, Vec<u64>, Vec<Op>) {
    let kind = kind % N_RKIND;
    if kind >= 11 { return gen_preset_case(r, kind); }
    let cap = *r.pick(&[1usize, 2, 3, 4, 5, 8, 16]);
    let dl = match r.below(6) { 0 => 0, 1 => cap, 2 => cap + 1, 3 => 4 * cap + 3, 4 => r.below(20) as usize, _ => r.below(12 * cap as u64 + 2) as usize };
    // MemoryMappedInput switches from buffered I/O to a memory map above 4096 bytes
    let dl = if kind == 7 && r.chance(1, 2) { *r.pick(&[4000usize, 4095, 4096, 4097, 4200, 4500]) } else { dl };
    let mut data: Vec<u8> = (0..dl).map(|i| (i as u8).wrapping_mul(13).wrapping_add(r.below(3) as u8)).collect();
    let max = *r.pick(&[cap, cap, cap + 1, 2 * cap, 4 * cap + 1, 64]);
    let start = match r.below(4) { 0 => 0, 1 => r.below(dl as u64 + 2), _ => r.below(dl as u64 / 2 + 1) };
    let len = match r.below(5) { 0 => 0, 1 => dl as u64, 2 => u64::MAX, _ => r.below(dl as u64 + 3) };
    let mut cfg = vec![cap as u64, max as u64, r.below(2), 1 + r.below(4), *r.pick(&[1u64, 2, 4, 8, 8192, 8192]), r.below(2), 1 + r.below(3), start, len, r.chance(1, 10) as u64];
    if kind == 8 { for _ in 0..r.below(5) { let a = r.below(dl as u64 + 1); let b = a + r.below(dl as u64 + 2 - a.min(dl as u64)); cfg.push(a); cfg.push(b.min(dl as u64)); } }
    // the widened half of the cases: text content (the buffered bytes are judged as UTF-8), non-default page alignment,
    // the other constructors, and the operations the Coq model does not know
    let ext = r.chance(1, 2);
    if ext {
        if r.chance(1, 2) { data = gen_data(dl, r.next(), 1 + r.below(2)); }
        if kind != 8 {
            cfg.push(if matches!(kind, 0 | 1 | 9 | 10) && r.chance(1, 2) { r.below(ALIGNMENTS.len() as u64) } else { 0 });
            cfg.push(match kind { 2 => r.below(4) * r.below(2), 3 => r.below(2), 7 => r.below(12), _ => 0 });
        }
    }
    let names: &[&str] = match (kind, ext) {
        (0, false) => &["read", "read", "read", "byte", "slice", "ensure", "simd", "bulk", "fill_buf", "consume", "exact", "seek_start", "seek_cur", "seek_cur", "seek_end"],
        (0, true) => &["read", "read", "read", "byte", "slice", "ensure", "simd", "bulk", "fill_buf", "consume", "exact", "seek_start", "seek_cur", "seek_end", "vec", "vec", "utf8", "utf8", "usage", "direct"],
        (1 | 10, false) => &["read", "read", "read", "byte", "slice", "ensure", "simd", "bulk", "fill_buf", "consume", "exact"],
        (1 | 10, true) => &["read", "read", "read", "byte", "slice", "ensure", "simd", "bulk", "fill_buf", "consume", "exact", "vec", "vec", "utf8", "utf8", "usage", "direct"],
        (2, false) => &["read", "read", "read", "skip", "byte", "slice", "pos", "exact", "seek_start", "seek_cur", "seek_end", "reset", "seek_in"],
        (2, true) => &["read", "read", "read", "skip", "byte", "slice", "pos", "exact", "seek_start", "seek_cur", "seek_end", "reset", "seek_in", "vec", "rinfo", "rinfo", "set_total", "inner_pos", "inner_pos"],
        (3 | 9, false) => &["read", "read", "read", "skip", "byte", "slice", "pos", "exact"],
        (3 | 9, true) => &["read", "read", "read", "skip", "byte", "slice", "pos", "exact", "vec", "rinfo", "rinfo", "set_total"],
        (4 | 5, false) => &["read", "read", "read", "peek", "skip", "opt", "ensure", "slice", "exact"],
        (4 | 5, true) => &["read", "read", "read", "peek", "skip", "opt", "ensure", "slice", "exact", "vec", "utf8", "utf8", "crc", "vcrc", "usage", "direct"],
        (6, false) => &["read", "read", "peek", "slice", "skip", "seek_start", "pos", "ensure", "exact"],
        (6, true) => &["read", "read", "peek", "slice", "skip", "seek_start", "pos", "ensure", "exact", "vec", "usage", "usage"],
        (7, false) => &["read", "slice", "zslice", "peek", "zpeek", "skip", "seek_start", "byte", "pos"],
        (7, true) => &["read", "slice", "zslice", "peek", "zpeek", "skip", "seek_start", "byte", "pos", "usage"],
        (_, false) => &["read", "read", "exact"],
        (_, true) => &["read", "read", "exact", "vec", "add_range", "next_range", "minfo"],
    };
    let nops = match r.below(4) { 0 => r.below(4), 1 => 30 + r.below(40), _ => r.below(16) } as usize;
    let mut ops = vec![];
    for _ in 0..nops {
        let name = *r.pick(names);
        let n = match name {
            "seek_cur" | "seek_end" => { let m = gen_sizes(r, cap); if r.chance(1, 2) { -m } else { m } }
            "seek_start" | "seek_in" => if r.chance(1, 3) { (dl as i64 - r.below(12) as i64 + 2).max(0) } else { r.below(dl as u64 + 3) as i64 },
            "set_total" => r.below(dl as u64 + 3) as i64,
            "add_range" => { let a = r.below(dl as u64 + 1); let b = a + r.below(dl as u64 + 1 - a); ((a << 20) | b) as i64 }
            // a zero-byte read moves the multi-range reader to its next range or not, which nothing specifies
            _ if kind == 8 => gen_sizes(r, cap).max(1),
            _ => gen_sizes(r, cap),
        };
        ops.push((name.to_string(), n));
    }
    // a long tail of small reads drains the stream across many refills
    if r.chance(1, 3) { for _ in 0..(dl / 2 + 3).min(60) { ops.push(("read".to_string(), 1 + r.below(3) as i64)); } }
    (data, cfg, ops)
}
/// The preset constructors (64 KiB default buffers) over a few KiB of text, request sizes around the presets' thresholds.
fn gen_preset_case(r: &mut Rng, kind: usize) -> (Vec<u8>, Vec<u64>, Vec<Op>) {
    let dl = *r.pick(&[0usize, 1, 100, 2047, 2048, 4096, 5000, 9000, 20000]);
    let data = gen_data(dl, r.next(), r.below(3));
    let cfg = vec![r.below(5), 0, 0, 0, 0, 0, *r.pick(&[0u64, 0, 1, 700, 5000])];
    let names: &[&str] = if kind == 11 { &["read", "read", "byte", "slice", "ensure", "simd", "bulk", "fill_buf", "consume", "exact", "vec", "utf8", "usage"] }
        else { &["read", "read", "peek", "skip", "opt", "ensure", "slice", "exact", "vec", "utf8", "crc", "vcrc", "usage"] };
    let sizes = [0i64, 1, 2, 7, 64, 1000, 2047, 2048, 2049, 4095, 4096, 4097, 8191, 8192, 8193, 16384, 20001];
    let nops = 2 + r.below(14) as usize;
    let ops = (0..nops).map(|_| ((*r.pick(names)).to_string(), *r.pick(&sizes))).collect();
    (data, cfg, ops)
}
/// Deterministic big cases: inputs of 50 KB .. 8 MB (named by (n, seed, mode)), the preset configurations, request sizes
/// around 2048 / 4096 / 8192 / 16384 / 32768 / 65536 and the long small-read histories that walk a buffer to its maximum.
pub fn big_reader_cases(thorough: bool) -> Vec<(usize, (usize, u64, u64), Vec<u64>, Vec<Op>)> {
    let o = |n: &str, k: i64| (n.to_string(), k);
    let reads = |cnt: i64, sz: i64| ("reads".to_string(), (cnt << 24) | sz);
    let mut v = vec![];
    // every preset, plain and short-read inner: growth beyond the initial capacity, the bulk bypass, BufRead, vectored reads
    for preset in 0..5u64 {
        for chunk in [0u64, 1000] {
            let ops = vec![o("read", 1000), o("usage", 0), o("utf8", 0), o("slice", 70000), o("slice", 70000), o("ensure", 9000), o("read", 8192), o("read", 8191), o("bulk", 4096), o("bulk", 2048),
                o("fill_buf", 0), o("consume", 5000), o("utf8", 0), o("vec", 20000), o("usage", 0), o("exact", 65537), reads(100, 777), o("byte", 0), o("simd", 16384), o("read", 16383), o("usage", 0), reads(40, 2047), o("exact", 3)];
            v.push((11, (200_000, 11 + preset, 2), vec![preset, 0, 0, 0, 0, 0, chunk], ops));
        }
    }
    // a long stream in small pieces: more bytes than the preset's maximum buffer would hold if the buffer were never rewound
    for (preset, n, sz) in [(3u64, 1_150_000usize, 1000i64), (2, 2_300_000, 1000), (0, 7_700_000, 4000), (1, 8_600_000, 4000)] {
        if !thorough && preset == 1 { continue; }
        v.push((11, (n, 50 + preset, 0), vec![preset, 0, 0, 0, 0, 0, 0], vec![o("read", 100), reads(n as i64 / sz + 2, sz), o("usage", 0), o("read", 1)]));
    }
    // ZeroCopyReader::new: the large-read bypass at half the 64 KiB buffer, peeks at and beyond the capacity, long skips
    for chunk in [0u64, 3000] {
        let ops = vec![o("read", 1000), o("crc", 0), o("utf8", 0), o("read", 32768), o("read", 32767), o("peek", 65536), o("peek", 65537), o("read", 10), o("skip", 8193), o("usage", 0), o("skip", 20000), o("slice", 40000),
            o("vcrc", 0), reads(50, 3000), o("opt", 70000), o("vec", 50000), o("ensure", 65536), o("exact", 65537), reads(30, 1)];
        v.push((12, (400_000, 21 + chunk, 2), vec![0, 0, 0, 0, 0, 0, chunk], ops));
    }
    // MemoryMappedInput: above 64 KiB a sequential hint prefetches the map; from 1 MiB the huge-page strategy is tried
    for (n, variant) in [(70_000usize, 5u64), (70_001, 10), (1_048_576, 1), (1_100_000, 9), (1_048_575, 7)] {
        if !thorough && n == 1_048_575 { continue; }
        let ops = vec![o("usage", 0), o("read", 5000), o("skip", 10000), o("peek", 4096), o("zslice", 8193), o("byte", 0), o("seek_start", n as i64 - 100), o("usage", 0), o("zpeek", 100), o("read", 100), o("seek_start", 0), o("slice", 65537), o("pos", 0), o("seek_start", n as i64 - 1), o("usage", 0), o("read", 2)];
        v.push((7, (n, 31, 0), vec![0, 0, 0, 0, 0, 0, 0, 0, 0, 0, 0, variant], ops));
    }
    v.push((6, (100_000, 32, 1), vec![], vec![o("usage", 0), o("read", 70000), o("vec", 9000), o("peek", 100), o("skip", 8193), o("usage", 0), o("slice", 12000), o("seek_start", 99_999), o("read", 2), o("usage", 0)]));
    // RangeReader as DataInput over a big stream: skip and read_vec work in 8 KiB / 64 KiB steps
    for variant in [0u64, 1, 2] {
        let ops = vec![o("rinfo", 0), o("skip", 8191), o("skip", 8192), o("skip", 8193), o("pos", 0), o("slice", 65536), o("slice", 65537), o("skip", 20000), o("inner_pos", 0), o("slice", 70000), o("rinfo", 0), o("set_total", 240_000),
            o("seek_end", -10), o("read", 100), o("rinfo", 0), o("seek_start", 5), o("vec", 30000), o("inner_pos", 0)];
        v.push((2, (300_000, 33, 0), vec![8, 8, 1, 2, 8192, 0, 1, 1000, 250_000, 0, 0, variant], ops));
    }
    v.push((3, (120_000, 34, 0), vec![8, 8, 1, 2, 8192, 0, 3000, 500, 100_000, 0, 0, 1], vec![o("skip", 8193), o("slice", 70000), o("rinfo", 0), o("vec", 9000), o("skip", 10000), o("pos", 0), o("read", 100), o("set_total", 99_000), o("exact", 3000), o("rinfo", 0)]));
    // the wrappers stacked, realistic sizes
    v.push((9, (50_000, 35, 2), vec![4096, 16384, 1, 2, 8192, 0, 1, 100, 40_000, 1, 4, 0], vec![o("skip", 8193), o("slice", 10000), o("read", 4096), o("rinfo", 0), o("vec", 5000), o("exact", 9000), o("pos", 0)]));
    v.push((10, (50_000, 36, 2), vec![4096, 16384, 0, 1, 2048, 1, 1, 100, 40_000, 0, 4, 0], vec![o("read", 1000), o("utf8", 0), o("slice", 4096), o("ensure", 5000), o("bulk", 2048), o("vec", 5000), o("usage", 0), reads(30, 1300), o("exact", 100)]));
    // multi-range reader over a big file, ranges added while reading
    let mr = |a: i64, b: i64| ("add_range".to_string(), (a << 20) | b);
    v.push((8, (100_000, 37, 0), vec![8, 8, 1, 2, 8192, 0, 1, 0, 0, 0, 10, 20_000, 50_000, 50_000, 90_000, 99_999], vec![o("minfo", 0), o("read", 9000), o("exact", 1000), mr(0, 10), o("next_range", 0), o("minfo", 0), o("vec", 3000), o("exact", 6000), o("next_range", 0), o("exact", 10), o("read", 5), mr(70_000, 70_100), o("exact", 100), o("read", 1), o("minfo", 0)]));
    v
}
pub fn gen_writer_case(r: &mut Rng, kind: usize) -> (Vec<u64>, Vec<Op>) {
    let kind = kind % N_WKIND;
    let cap = *r.pick(&[0usize, 1, 2, 3, 4, 8, 16]);
    let mut cfg = vec![cap as u64, *r.pick(&[1u64, 2, 4, 8, 8192, 8192]), 1 + r.below(3), r.below(40), r.below(24), r.below(48), r.below(6)];
    if matches!(kind, 8 | 9) { cfg[2] = *r.pick(&[0u64, 0, 1, 3000]); }
    // half of the cases of the older kinds keep the older operation mix
    let ext = r.chance(1, 2);
    let names: &[&str] = match (kind, ext) {
        (0 | 1, false) => &["write", "write", "write_all", "byte", "flush"],
        (0 | 1, true) => &["write", "write", "write_all", "byte", "flush", "vecw", "vecw", "winfo", "direct"],
        (2 | 3, false) => &["write", "write", "write_all", "zc", "flush"],
        (2 | 3, true) => &["write", "write", "write_all", "zc", "flush", "vecw", "vecw", "zc_ensure", "winfo", "direct"],
        (4, false) => &["write", "write", "flush"],
        (4, true) => &["write", "write", "flush", "vecw"],
        (5, _) => &["write", "write", "write_all", "byte", "flush", "vecw", "seek_start", "seek_cur", "seek_cur", "seek_end"],
        (6, _) => &["write", "write", "write", "flush", "vecw", "winfo", "seek_start", "seek_cur", "seek_cur", "seek_end"],
        (7, _) => &["write", "write", "write_all", "byte", "zc", "flush", "seek_start", "seek_start", "truncate", "winfo"],
        (8, _) => &["write", "write", "write_all", "byte", "flush", "vecw", "winfo"],
        (9, _) => &["write", "write", "write_all", "zc", "flush", "vecw", "zc_ensure", "winfo"],
        _ => &["fill", "fill", "drain", "zc", "zcr", "byte", "compact", "reset", "zc_ensure", "seek_start"],
    };
    let nops = if r.chance(1, 4) { 30 + r.below(30) } else { r.below(14) } as usize;
    let big = [1i64, 100, 2047, 2048, 4095, 4096, 8191, 8192, 8193, 32767, 32768, 32769, 65535, 65536, 65537];
    let ops = (0..nops).map(|_| {
        let name = *r.pick(names);
        let n = match (kind, name) {
            (5 | 6, "seek_cur" | "seek_end") => { let m = gen_sizes(r, cap.max(1)); if r.chance(1, 2) { -m } else { m } }
            (5 | 6, "seek_start") => r.below(60) as i64,
            (7, "seek_start") => r.below(70) as i64,
            (7, _) => if r.chance(1, 6) { *r.pick(&[127i64, 128, 129, 4095, 4096, 4097]) } else { gen_sizes(r, cap.max(1)) },
            (8 | 9, _) => if r.chance(1, 2) { *r.pick(&big) } else { gen_sizes(r, 16) },
            _ => gen_sizes(r, cap.max(1)),
        };
        (name.to_string(), n)
    }).collect();
    (cfg, ops)
}
pub fn parse_reader(c: &Value) -> (usize, Vec<u8>, Vec<u64>, Vec<Op>) {
    let data = match c.get("gen").and_then(|g| g.as_array()) {
        Some(g) => gen_data(g.get(0).and_then(|x| x.as_u64()).unwrap_or(0) as usize, g.get(1).and_then(|x| x.as_u64()).unwrap_or(0), g.get(2).and_then(|x| x.as_u64()).unwrap_or(0)),
        None => u8s(&c["data"]),
    };
    (c["kind"].as_u64().unwrap_or(0) as usize, data, c["cfg"].as_array().map(|a| a.iter().map(|x| x.as_u64().unwrap_or(0)).collect()).unwrap_or_default(), ops_parse(&c["ops"]))
}
pub fn parse_gen(c: &Value) -> Option<(usize, u64, u64)> {
    c.get("gen").and_then(|g| g.as_array()).map(|g| (g.get(0).and_then(|x| x.as_u64()).unwrap_or(0) as usize, g.get(1).and_then(|x| x.as_u64()).unwrap_or(0), g.get(2).and_then(|x| x.as_u64()).unwrap_or(0)))
}
