//! C09, IntVec<T> for the eight element types and the three constructors: oracle against the input slice,
//! plus the observation record (len, data+index bytes, gets) replayed in the Coq model coq/C09/ModelIntVec.v
//! (analyses, raw / min-max / block / delta encodings, both compression paths, signed mapping).
use super::Ctx;
use crate::util::*;
use serde_json::json;
use zipora::containers::specialized::{IntVec, PackedInt};

pub trait Elem: PackedInt + PartialEq + std::fmt::Debug + Copy + std::panic::RefUnwindSafe {
    const NAME: &'static str; const BITS: u32; const SIGNED: bool;
    fn from_i128(x: i128) -> Self; fn to_i128(self) -> i128;
    fn lo() -> i128; fn hi() -> i128;
}
macro_rules! elem { ($t:ty, $n:expr, $b:expr, $s:expr) => { impl Elem for $t {
    const NAME: &'static str = $n; const BITS: u32 = $b; const SIGNED: bool = $s;
    fn from_i128(x: i128) -> Self { x as $t } fn to_i128(self) -> i128 { self as i128 }
    fn lo() -> i128 { <$t>::MIN as i128 } fn hi() -> i128 { <$t>::MAX as i128 } } }; }
elem!(u8, "u8", 8, false); elem!(u16, "u16", 16, false); elem!(u32, "u32", 32, false); elem!(u64, "u64", 64, false);
elem!(i8, "i8", 8, true); elem!(i16, "i16", 16, true); elem!(i32, "i32", 32, true); elem!(i64, "i64", 64, true);

/// the value the container works on: `v as u64` (sign extension for the signed types)
fn wire(x: i128) -> u64 { x as i64 as u64 }

pub fn read_indices(n: usize, r: &mut Rng) -> Vec<usize> {
    if n <= 400 { return (0..n).collect(); }
    let mut v: Vec<usize> = (0..70).chain(n - 70..n).collect();
    for _ in 0..6 { let b = (r.below(n as u64 / 64) as usize) * 64; for d in 0..4 { if b + d < n { v.push(b + d); } if b >= d + 1 { v.push(b - d - 1); } } }
    for _ in 0..60 { v.push(r.below(n as u64) as usize); }
    v.sort(); v.dedup(); v
}

/// which generated cases are also evaluated by the Coq model: `coq` = 0 never, 1 always (replay / corpus),
/// otherwise one case in `coq` (drawn from the run's Rng), within the cap and the cost limit
pub fn intvec_case<T: Elem>(cx: &mut Ctx, vals: &[T], shape: &str, ctors: &[usize], coq: u64, r: &mut Rng) {
    let n = vals.len();
    let shown: Vec<String> = vals.iter().map(|v| v.to_i128().to_string()).collect();
    let wires: Vec<u64> = vals.iter().map(|v| wire(v.to_i128())).collect();
    let wmin = wires.iter().min().copied().unwrap_or(0); let wmax = wires.iter().max().copied().unwrap_or(0);
    let range_bits = (64 - (wmax - wmin).leading_zeros()).max(1) as u64;
    let sorted = wires.windows(2).all(|w| w[0] <= w[1]);
    let uniform = n >= 2 && sorted && wires.windows(2).all(|w| w[1] - w[0] == wires[1] - wires[0]);
    let class: Option<&'static str> = None;
    let idx = read_indices(n, r);
    // indices replayed in Coq: everything for short vectors, a spread for long ones; a (non-uniform) delta
    // vector costs O(index) reads per get in the model as in the code, so only a few there
    let coq_idx: Vec<usize> = if n <= 260 { (0..n).collect() }
        else if sorted && !uniform { vec![0, 1, idx[idx.len() / 2], n - 1] }
        else { let mut v: Vec<usize> = idx.iter().step_by((idx.len() / 24).max(1)).copied().collect(); v.push(n - 1); v.sort(); v.dedup(); v };
    let cost = (n as u64) * (n as u64) / 2 * range_bits + if sorted && !uniform { (n as u64) * (n as u64) * range_bits.min(33) } else { 0 };
    for &ctor in ctors {
        let cname = ["from_slice", "from_slice_bulk", "from_slice_bulk_simd"][ctor];
        let cell = format!("IntVec<{}>/{}", T::NAME, cname);
        cx.sum.eval(&cell, &format!("{} {:?}", cell, shown), n >= 2);
        cx.sum.cell_status(&cell, if cx.model_intvec { "M+S" } else { "S-only" });
        cx.sum.dist(&format!("intvec_shape_{}", shape));
        let cj = json!({"cell": "intvec", "type": T::NAME, "ctor": ctor, "values": shown});
        let built = guarded(|| match ctor { 0 => IntVec::<T>::from_slice(vals), 1 => IntVec::<T>::from_slice_bulk(vals), _ => IntVec::<T>::from_slice_bulk_simd(vals) });
        let mut obs: Vec<String> = vec![];
        let past_idx = [n, n + 1, n + 7, n + 64, usize::MAX];
        match built {
            Err(p) => { obs.push("[(-1)]%Z".into()); cx.sum.fail(&cell, class, cj.clone(), &format!("constructor panicked: {}", p)); }
            Ok(Err(_)) => { obs.push("[1]%Z".into()); cx.sum.dist("intvec_build_refused"); }
            Ok(Ok(iv)) => {
                // every third vector is read through a clone whose original is gone (Clone copies strategy, data and index)
                let iv = if (n + ctor) % 3 == 0 { cx.sum.dist("intvec_read_through_clone"); let c = iv.clone(); drop(iv); c } else { iv };
                let rr = guarded(|| {
                    let got: Vec<Option<T>> = idx.iter().map(|&i| iv.get(i)).collect();
                    let past: Vec<Option<T>> = past_idx.iter().map(|&i| iv.get(i)).collect();
                    (iv.len(), iv.is_empty(), got, past, iv.memory_usage())
                });
                match rr {
                    Err(p) => { obs.push("[(-1)]%Z".into()); cx.sum.fail(&cell, class, cj.clone(), &format!("get panicked: {}", p)); }
                    Ok((len, empty, got, past, mem)) => {
                        let mut bad: Option<String> = None;
                        if len != n { bad = Some(format!("len {} want {}", len, n)); }
                        if empty != (n == 0) && bad.is_none() { bad = Some(format!("is_empty {} for {} elements", empty, n)); }
                        for (k, &i) in idx.iter().enumerate() { if got[k] != Some(vals[i]) && bad.is_none() { bad = Some(format!("element {} reads back {:?}, stored {:?}", i, got[k], vals[i])); } }
                        for (k, p) in past.iter().enumerate() { if p.is_some() && bad.is_none() { bad = Some(format!("read past the end (#{}) not refused: {:?}", k, p)); } }
                        if let Some(d) = bad { cx.sum.fail(&cell, class, cj.clone(), &d); }
                        let payload = mem as i128 - std::mem::size_of::<IntVec<T>>() as i128;
                        obs.push(format!("[0; {}; {}]%Z", len, payload));
                        let show = |g: &Option<T>| match g { Some(v) => format!("[0; {}]%Z", coq_z(v.to_i128())), None => "[1]%Z".to_string() };
                        for &i in &coq_idx { let k = idx.binary_search(&i).expect("coq index is a read index"); obs.push(show(&got[k])); }
                        for k in [0usize, 1, 4] { obs.push(show(&past[k])); }
                    }
                }
            }
        }
        let pick = (coq == 1 && !(cx.corpus_mode && cost > 300_000_000)) || (coq > 1 && cx.shards.len() < cx.budget && cx.n_intvec_coq < cx.cap_intvec_coq && cost <= 12_000_000 && r.chance(1, coq));
        if cx.model_intvec && pick {
            cx.n_intvec_coq += 1;
            if n > 260 { cx.sum.dist("coq_cases_intvec_long"); }
            if n > 10000 { cx.sum.dist("coq_cases_intvec_full_analysis"); }
            let mut all_idx: Vec<u128> = coq_idx.iter().map(|&i| i as u128).collect();
            if obs.len() > 1 { for k in [0usize, 1, 4] { all_idx.push(past_idx[k] as u128); } }
            let term = format!("CIntVec {} {} {} {} {} [{}]", ctor, T::BITS, coq_bool(T::SIGNED),
                coq_z_list(vals.iter().map(|v| v.to_i128())), coq_n_list(all_idx.into_iter()), obs.join("; "));
            cx.shards.push(term, cj);
        }
    }
}

pub const LENGTHS: &[usize] = &[0, 1, 2, 3, 4, 5, 7, 8, 9, 15, 16, 17, 31, 32, 33, 34, 35, 47, 48, 49, 63, 64, 65, 66, 127, 128, 129, 130, 200, 255, 256, 257];
pub const LONG: &[usize] = &[999, 1000, 1001, 1023, 1024, 1025, 2047, 2048, 2049, 4100];
pub const HUGE: &[usize] = &[10000, 10001, 16385, 20000];

pub fn gen_vals<T: Elem>(r: &mut Rng, n: usize, shape: u64) -> (Vec<T>, &'static str) {
    let lo = T::lo(); let hi = T::hi();
    let span = hi - lo; // < 2^64
    let clamp = |x: i128| x.max(lo).min(hi);
    let rnd_in = |r: &mut Rng, a: i128, b: i128| -> i128 { if b <= a { a } else { a + (r.next() as u128 % ((b - a + 1) as u128)) as i128 } };
    let small: i128 = if r.chance(1, 2) { *r.pick(&[1i128, 2, 7, 16, 100, 255, 256, 1000, 65535, 65536, 70000]) }
                      else { let k = r.range(1, 63) as u32; (1i128 << k) - *r.pick(&[0i128, 1, 1]) }; // every bit width 1..63, at 2^k-1 and 2^k
    let small = small.min(span);
    let base = match r.below(5) { 0 => lo, 1 => hi - small, 2 => clamp(-small / 2), 3 => clamp(0), _ => rnd_in(r, lo, hi - small) };
    let (v, name): (Vec<i128>, &'static str) = match shape {
        0 => ((0..n).map(|_| base).collect(), "constant"),
        1 => { let cap = *r.pick(&[1i128, 1, 3, 1000, 1 << 33]); let step = rnd_in(r, 0, (span / (n as i128 + 1)).min(cap)); let b = rnd_in(r, lo, hi - step * n as i128); ((0..n).map(|i| b + step * i as i128).collect(), "arithmetic") }
        2 => { let mut c = rnd_in(r, lo, hi - (small * n as i128).min(span)); let c0 = c; let _ = c0; ((0..n).map(|_| { c = clamp(c + rnd_in(r, 0, small)); c }).collect(), "sorted_small_steps") }
        3 => { // sorted, small steps, then a huge jump at or near the end
            let mut c = rnd_in(r, lo, lo + span / 4); let jump_at = n.saturating_sub(1 + r.below(3) as usize);
            let jump = *r.pick(&[span / 2, (1i128 << 31).min(span / 2), (1i128 << 32).min(span / 2), ((1i128 << 32) + 5).min(span / 2), 70000i128.min(span / 2)]);
            ((0..n).map(|i| { c = clamp(c + if i == jump_at { jump } else { rnd_in(r, 0, 3) }); c }).collect(), "sorted_jump_near_end") }
        4 => { // nearly sorted: one inversion
            let mut c = rnd_in(r, lo, hi - (small * n as i128).min(span)); let mut v: Vec<i128> = (0..n).map(|_| { c = clamp(c + rnd_in(r, 0, small)); c }).collect();
            if n >= 2 { let k = 1 + r.below(n as u64 - 1) as usize; v[k] = clamp(v[k - 1] - 1 - rnd_in(r, 0, small)); }
            (v, "one_inversion") }
        5 => { let mut v: Vec<i128> = (0..n).map(|_| base + rnd_in(r, 0, small)).collect();
               if n >= 2 && r.chance(2, 3) { let a = r.below(n as u64) as usize; let b = (a + 1 + r.below(n as u64 - 1) as usize) % n; v[a] = base; v[b] = base + small; } // the range is exactly `small`
               (v, "small_range") }
        6 => ((0..n).map(|_| rnd_in(r, lo, hi)).collect(), "full_range"),
        7 => { let k = 1 + r.below(3); let out = *r.pick(&[hi, hi - 1, lo, clamp(hi / 2 + 1), clamp(1i128 << 59), clamp((1i128 << 58) - 1), clamp(1i128 << 32), clamp(1i128 << 16)]);
               let b = *r.pick(&[clamp(0), clamp(-3), lo, clamp(1000)]);
               let mut v: Vec<i128> = (0..n).map(|_| clamp(b + rnd_in(r, 0, 8))).collect();
               for _ in 0..k { if n > 0 { let p = r.below(n as u64) as usize; v[p] = out; } }
               (v, "few_outliers") }
        8 => ((0..n).map(|_| *r.pick(&[lo, hi, clamp(0), clamp(1), hi - 1, lo + 1, clamp(-1), clamp(hi / 2), clamp(hi / 2 + 1)])).collect(), "extremes"),
        9 => { // per-block bases far apart, small offsets inside a block
            let bs = *r.pick(&[64usize, 128]); let mut bases: Vec<i128> = vec![];
            ((0..n).map(|i| { if i % bs == 0 { bases.push(rnd_in(r, lo, hi - small)); } bases[i / bs] + rnd_in(r, 0, small) }).collect(), "block_bases") }
        10 => { let d = *r.pick(&[(1i128 << 32) - 1, 1i128 << 32, (1i128 << 32) + 1, 1i128 << 31, 1i128 << 40]); let d = d.min(span / (n as i128 + 1)).max(0);
                let mut c = lo; ((0..n).map(|_| { c = clamp(c + rnd_in(r, d / 2, d)); c }).collect(), "sorted_big_steps") }
        11 => ((0..n).map(|i| if i % 2 == 0 { clamp(-(rnd_in(r, 0, small))) } else { clamp(rnd_in(r, 0, small)) }).collect(), "around_zero"),
        _ => { let sh = r.below(T::BITS as u64 + 1) as u32; ((0..n).map(|_| { let x = rnd_in(r, lo, hi); if sh >= 64 { clamp(0) } else { clamp(x >> sh) } }).collect(), "shifted_random") }
    };
    (v.into_iter().map(|x| T::from_i128(clamp(x))).collect(), name)
}

pub fn gen_intvec<T: Elem>(cx: &mut Ctx, r: &mut Rng, size_class: u32) {
    let n = match size_class { 0 => { let n = *r.pick(LENGTHS); if r.chance(1, 3) { n.min(12) } else { n } }, 1 => *r.pick(LONG), _ => *r.pick(HUGE) };
    let shape = r.below(13);
    let (vals, name) = gen_vals::<T>(r, n, shape);
    let coq = match size_class { 0 => 230, 1 => 25, _ => 0 };
    intvec_case::<T>(cx, &vals, name, &[0, 1, 2], coq, r);
}

/// One vector above the 10000-element / 16 KiB limits of the small-dataset heuristic, so that the full analysis
/// (min-max vs delta vs block based, chosen by estimated size) runs, shaped so that the block layout wins:
/// far-apart block bases, one-bit offsets.  Always replayed in the Coq model (about ten seconds there).
pub fn full_analysis_case<T: Elem>(cx: &mut Ctx, r: &mut Rng) {
    // read through a clone (intvec_case does so when (n + ctor) % 3 == 0): the block layout is the one with an index to copy
    let ctor = if r.chance(1, 2) { 0usize } else { 2 };
    let mut n = 10001 + r.below(300) as usize; while (n + ctor) % 3 != 0 || n % 128 == 0 { n += 1; }
    let hi = T::hi(); let lo = T::lo().max(0);
    let last_block = (n - 1) / 128;
    let mut base = lo;
    // the short last block carries the largest offsets: the offset width has to come from it
    let vals: Vec<T> = (0..n).map(|i| { if i % 128 == 0 { base = lo + (r.next() as u128 % ((hi - lo - 3) as u128)) as i128; }
        T::from_i128(base + if i / 128 == last_block { r.below(4) as i128 } else { r.below(2) as i128 }) }).collect();
    intvec_case::<T>(cx, &vals, "full_analysis_blocks", &[ctor], 1, r);
}

/// Fields of 59..63 bits whose last field reaches into the very last byte of the 16-byte aligned buffer through
/// the ninth byte of its window (n * w = 121..127 mod 128): n = 71 for w = 63, and the like.
pub fn tight_tail_case<T: Elem>(cx: &mut Ctx, r: &mut Rng, coq: u64) {
    if T::BITS < 64 { return; }
    let w = 59 + r.below(5) as u32;
    let cands: Vec<usize> = (4..300usize).filter(|n| { let m = (n * w as usize) % 128; m >= 121 }).collect();
    let n = *r.pick(&cands);
    let lo = T::lo(); let top: i128 = 1i128 << (w - 1);
    // range exactly w bits: the minimum and a value with bit w-1 set are present, the last element has its top bit set
    let base = if T::SIGNED { lo } else { r.below(1000) as i128 };
    let mut vals: Vec<T> = (0..n).map(|_| T::from_i128(base + (r.next() as u128 % (top as u128 * 2)) as i128)).collect();
    vals[0] = T::from_i128(base); vals[1] = T::from_i128(base + 1); vals[2] = T::from_i128(base);
    vals[n - 1] = T::from_i128(base + top + (r.next() as u128 % (top as u128)) as i128);
    intvec_case::<T>(cx, &vals, "tight_tail", &[0, 2], coq, r);
}

/// The unique minimum / maximum of the input at the positions where the chunked range scans end (multiples of 8 and 16, the 128-element
/// switch of analyze_range_bulk_optimized, the first and the last elements): a scan that drops a remainder takes too narrow a width.
pub fn minmax_position_family<T: Elem>(cx: &mut Ctx, r: &mut Rng) {
    let lo = T::lo(); let hi = T::hi();
    for &n in &[5usize, 8, 9, 16, 17, 33, 64, 65, 127, 128, 129, 130, 144, 145, 257, 1025, 2049] {
        let mut pos: Vec<usize> = vec![0, 1, n - 1, n - 2, ((n / 8) * 8).min(n - 1), ((n / 16) * 16).min(n - 1), ((n / 8) * 8).saturating_sub(1), 127usize.min(n - 1), 128usize.min(n - 1)]; pos.sort(); pos.dedup();
        for &p in &pos { for up in [true, false] {
            let mid: i128 = (lo + hi) / 2 + (r.below(5) as i128);
            let k = r.range(3, T::BITS as u64 - 2) as u32;
            let mut v: Vec<i128> = (0..n).map(|_| mid + r.below(4) as i128).collect();
            v[p] = if up { (mid + (1i128 << k)).min(hi) } else { (mid - (1i128 << k)).max(lo) };
            let vals: Vec<T> = v.into_iter().map(T::from_i128).collect();
            intvec_case::<T>(cx, &vals, "minmax_position", &[0, 2], 0, r);
        } }
    }
}

/// The sizes at which from_slice leaves the small-dataset heuristic for the full analysis: more than 10000 elements AND more than
/// 16 KiB of input (17 * 1024 bytes when truncated to KiB), i.e. 17408 elements of one byte, 10001 elements of the wider types.
pub fn analysis_threshold_family<T: Elem>(cx: &mut Ctx, r: &mut Rng) {
    let thr = if T::BITS == 8 { 17 * 1024 } else { 10001 };
    for n in [thr - 1, thr, thr + 1] { for shape in [9u64, 5, 7, 2] {
        let (vals, _) = gen_vals::<T>(r, n, shape);
        intvec_case::<T>(cx, &vals, "analysis_threshold", &[0, 2], 0, r);
    } }
}

/// IntVec::new() / Default: an empty vector; and the element conversions of PackedInt the containers are generic over
/// (to_u64 / from_u64 and to_i64 / from_i64 are inverse on the type, max_value / min_value are the type's extremes)
pub fn empty_constructors<T: Elem>(cx: &mut Ctx) {
    let cell = format!("IntVec<{}>/from_slice", T::NAME);
    for x in [T::lo(), T::lo() + 1, -1i128, 0, 1, T::hi() / 2, T::hi() / 2 + 1, T::hi() - 1, T::hi()] {
        if x < T::lo() { continue; }
        let v = T::from_i128(x);
        if T::from_u64(v.to_u64()) != v || T::from_i64(v.to_i64()) != v || T::max_value().to_i128() != T::hi() || T::min_value().to_i128() != T::lo() || T::bit_width() as u32 != T::BITS {
            cx.sum.fail(&cell, None, json!({"cell": "intvec", "type": T::NAME, "ctor": 0, "values": [x.to_string()]}), &format!("PackedInt conversions of {} do not return the value", x));
        }
    }
    cx.sum.eval(&cell, &format!("{} new/default", cell), false);
    for (k, iv) in [IntVec::<T>::new(), IntVec::<T>::default(), IntVec::<T>::new().clone()].iter().enumerate() {
        if iv.len() != 0 || !iv.is_empty() || iv.get(0).is_some() || iv.get(usize::MAX).is_some() {
            cx.sum.fail(&cell, None, json!({"cell": "intvec", "type": T::NAME, "ctor": 0, "values": []}), &format!("empty constructor #{}: len {} get(0) {:?}", k, iv.len(), iv.get(0)));
        }
    }
}

/// Enumerated: every sequence of length <= 4 over {0, 1, MAX-1, MAX, MIN} of the type.
pub fn enum_small<T: Elem>(cx: &mut Ctx, r: &mut Rng) {
    empty_constructors::<T>(cx);
    let lo = T::lo(); let hi = T::hi();
    let mut alpha: Vec<i128> = vec![0, 1, hi - 1, hi, lo]; alpha.sort(); alpha.dedup();
    let a = alpha.len();
    for len in 0..=4usize {
        let total = a.pow(len as u32);
        for code in 0..total {
            let mut c = code; let mut v: Vec<T> = vec![];
            for _ in 0..len { v.push(T::from_i128(alpha[c % a])); c /= a; }
            intvec_case::<T>(cx, &v, "enumerated", &[0, 2], 230, r);
        }
    }
}
