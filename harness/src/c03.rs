//! C03: blob stores return exactly what was stored, under stable ids.
//!
//! Oracle (independent of the Coq model): a shadow `HashMap<id, bytes>` of live records.  After every
//! operation of a history the real store must agree with the shadow: `get` of a live id returns the
//! bytes, `get`/`contains`/`size` of a removed or never-issued id report absence, `len` is the number
//! of live records, a freshly issued id is not the id of another live record.  Bulk-built stores must
//! return record i = input i; a saved and re-loaded store must answer identically.
//!
//! Cells with a mechanism model (M+S, evaluated in Coq against the real code): MemoryBlobStore
//! histories, ZipOffsetBlobStore builder + file image (uncompressed configurations), MixedLenBlobStore,
//! SimpleZipBlobStore, ZeroLengthBlobStore, PlainBlobStore (with close + reopen and the directory listing),
//! the wrapper stores (Zstd, Huffman framing, Rans/Dictionary) and CachedBlobStore over any modelled inner
//! store, stacks of them, DictZipBlobStore's bookkeeping (`XHist` / `XPlain` / `XPlainOpen` cases: the whole
//! history on the whole stack; opaque codecs enter as the table of (input, output) pairs seen between two
//! layers), BatchZipOffsetBlobStoreBuilder (`XBatch`: the add_record / flush_batch calls made, ids, byte-exact image or
//! refusal), NestLoudsTrieBlobStoreBuilder (`XNltb`: entries with repeated keys, reads by key and by id of the finished
//! store), MemoryBlobStore::from_data + history (`XFromData`), ZeroLengthBlobStore::finish(n) + history (`XZeroFinish`).  Everything else is S-only (oracle).
use crate::util::*;
#[path = "c03_b.rs"]
mod b;
use serde_json::{json, Value};
use std::collections::{HashMap, HashSet};
use zipora::blob_store::cached_store::CacheWriteStrategy;
use zipora::blob_store::{
    BatchBlobStore, BatchZipOffsetBlobStoreBuilder, BlobStore, BlobStoreStats, CachedBlobStore, CompressedBlobStore, DictionaryBlobStore,
    HuffmanBlobStore, IterableBlobStore, MemoryBlobStore, MixedLenBlobStore, NestLoudsTrieBlobStore, NestLoudsTrieBlobStoreBuilder,
    PlainBlobStore, RansBlobStore, SimpleZipBlobStore, SimpleZipConfig, SortedUintVecConfig, TrieBlobStoreConfig,
    ZeroLengthBlobStore, ZipOffsetBlobStore, ZipOffsetBlobStoreBuilder, ZipOffsetBlobStoreConfig, ZstdBlobStore,
};
use zipora::cache::PageCacheConfig;
use zipora::compression::dict_zip::{DictZipBlobStore, DictZipBlobStoreBuilder, DictZipConfig, DictionaryBuilderConfig, EntropyAlgorithm};
use zipora::error::Result as ZResult;
use zipora::succinct::rank_select::RankSelectInterleaved256;
use zipora::RecordId;

const HEADER: &str = r#"From ZV.Common Require Import Base Run.
From ZV.C03 Require Import Model ModelStore ModelWrap ModelCached ModelDictZip ModelPlain ModelZero ModelBatch ModelNltb ModelFromData ModelZeroFinish ModelCases.
Open Scope N_scope.
Definition case_t : Type := xcase.
Definition ok (c : case_t) : bool := check_xcase c.
"#;

type Nt = NestLoudsTrieBlobStore<RankSelectInterleaved256>;

// ---------------------------------------------------------------------------------------------
// dynamic store stacks
// ---------------------------------------------------------------------------------------------
trait DynStore {
    fn bs(&mut self) -> &mut dyn BlobStore;
    fn bs_ref(&self) -> &dyn BlobStore;
    fn has_batch(&self) -> bool { false }
    fn put_batch_dyn(&mut self, _recs: Vec<Vec<u8>>) -> ZResult<Vec<RecordId>> { unreachable!() }
    fn remove_batch_dyn(&mut self, _ids: Vec<RecordId>) -> ZResult<usize> { unreachable!() }
    fn get_batch_dyn(&self, _ids: Vec<RecordId>) -> ZResult<Vec<Option<Vec<u8>>>> { unreachable!() }
    /// save -> load (or close -> reopen); None = the store type has no such operation
    fn reopen(self: Box<Self>) -> Result<Box<dyn DynStore>, String>;
    fn can_reopen(&self) -> bool { false }
    // ---- secondary entry points (oracle breadth) ----
    /// the ids the store's own iteration yields (`IterableBlobStore::iter_ids`, `iter_ids_vec`); None = the type has no iteration
    fn iter_ids_dyn(&self) -> Option<Vec<RecordId>> { None }
    /// the (id, record) pairs of `iter_blobs` / `iter_blobs_vec`
    fn iter_blobs_dyn(&self) -> Option<Result<Vec<(RecordId, Vec<u8>)>, String>> { None }
    /// Housekeeping / accessor / statistics calls that must leave the logical content alone; `k` selects the call.
    /// Returns its name and whether the model of the stack is unaffected (false: a configuration switch the model has as a parameter).
    fn housekeeping(&mut self, _k: u64, _dir: &str) -> (&'static str, bool) { ("none", true) }
    /// `Clone`: an independent copy that answers identically
    fn clone_dyn(&self) -> Option<Box<dyn DynStore>> { None }
    /// an operation documented to drop every record (`clear`, `load_dictionary`); None = the type has none
    fn clear_dyn(&mut self, _k: u64, _dir: &str) -> Option<Result<&'static str, String>> { None }
    /// (re)train the codec in the middle of a history (`add_training_data` + `build_tree`, `train`)
    fn retrain_dyn(&mut self, _k: u64) -> Option<Result<&'static str, String>> { None }
    /// take the wrapper off its inner store and put a new wrapper on (`into_inner` + `new`); stores without it return themselves
    fn rewrap(self: Box<Self>, _k: u64) -> Result<(Box<dyn DynStore>, &'static str), String>;
    /// `finalize`: afterwards writes may be refused; None = the type has no such call
    fn finalize_dyn(&mut self) -> Option<Result<(), String>> { None }
    /// after `finalize`: the records of the bulk store that was built, in id order
    fn finalized_records(&self) -> Option<Result<Vec<Vec<u8>>, String>> { None }
}

/// What reached one layer of a stack (recorded by the `B` adapter that sits between two layers): the records handed
/// down by the layer above and the ids the layer below answered with; removals.  Level k = below k wrappers.
#[derive(Clone, Debug)]
enum XEv { Put { level: usize, data: Vec<u8>, id: Option<RecordId> }, Remove { level: usize, id: RecordId } }
thread_local! { static XLOG: std::cell::RefCell<Vec<XEv>> = std::cell::RefCell::new(vec![]); }
fn xlog(e: XEv) { XLOG.with(|l| l.borrow_mut().push(e)); }
fn xlog_take() -> Vec<XEv> { XLOG.with(|l| std::mem::take(&mut *l.borrow_mut())) }

/// A boxed store that is itself a BlobStore, so that zipora's generic wrappers can be stacked at run time.
struct B(Box<dyn DynStore>, usize);
impl BlobStore for B {
    fn get(&self, id: RecordId) -> ZResult<Vec<u8>> { self.0.bs_ref().get(id) }
    fn put(&mut self, data: &[u8]) -> ZResult<RecordId> {
        let r = self.0.bs().put(data);
        xlog(XEv::Put { level: self.1, data: data.to_vec(), id: r.as_ref().ok().copied() });
        r
    }
    fn remove(&mut self, id: RecordId) -> ZResult<()> {
        let r = self.0.bs().remove(id);
        if r.is_ok() { xlog(XEv::Remove { level: self.1, id }); }
        r
    }
    fn contains(&self, id: RecordId) -> bool { self.0.bs_ref().contains(id) }
    fn size(&self, id: RecordId) -> ZResult<Option<usize>> { self.0.bs_ref().size(id) }
    fn len(&self) -> usize { self.0.bs_ref().len() }
    fn is_empty(&self) -> bool { self.0.bs_ref().is_empty() }
    fn flush(&mut self) -> ZResult<()> { self.0.bs().flush() }
    fn stats(&self) -> BlobStoreStats { self.0.bs_ref().stats() }
}
impl BatchBlobStore for B {
    fn put_batch<I: IntoIterator<Item = Vec<u8>>>(&mut self, blobs: I) -> ZResult<Vec<RecordId>> {
        let v: Vec<Vec<u8>> = blobs.into_iter().collect();
        if self.0.has_batch() {
            let r = self.0.put_batch_dyn(v.clone());
            match &r {
                Ok(ids) if ids.len() == v.len() => for (d, id) in v.iter().zip(ids.iter()) { xlog(XEv::Put { level: self.1, data: d.clone(), id: Some(*id) }); },
                _ => for d in v.iter() { xlog(XEv::Put { level: self.1, data: d.clone(), id: None }); },
            }
            r
        } else {
            let mut ids = vec![];
            for b in v { ids.push(self.put(&b)?); }
            Ok(ids)
        }
    }
    fn get_batch<I: IntoIterator<Item = RecordId>>(&self, ids: I) -> ZResult<Vec<Option<Vec<u8>>>> {
        if self.0.has_batch() { return self.0.get_batch_dyn(ids.into_iter().collect()); }
        Ok(ids.into_iter().map(|id| self.0.bs_ref().get(id).ok()).collect())
    }
    fn remove_batch<I: IntoIterator<Item = RecordId>>(&mut self, ids: I) -> ZResult<usize> {
        if self.0.has_batch() {
            let v: Vec<RecordId> = ids.into_iter().collect();
            let r = self.0.remove_batch_dyn(v.clone());
            if r.is_ok() { for id in v { xlog(XEv::Remove { level: self.1, id }); } }
            return r;
        }
        let mut n = 0;
        for id in ids { if self.remove(id).is_ok() { n += 1; } }
        Ok(n)
    }
}

/// Secondary entry points of one store type (everything the BlobStore / BatchBlobStore traits do not name); the defaults say
/// "this type has no such call".
trait Extra {
    fn x_iter_ids(&self) -> Option<Vec<RecordId>> { None }
    fn x_iter_blobs(&self) -> Option<Result<Vec<(RecordId, Vec<u8>)>, String>> { None }
    fn x_housekeeping(&mut self, _k: u64, _dir: &str) -> (&'static str, bool) { ("none", true) }
    fn x_clear(&mut self, _k: u64, _dir: &str) -> Option<Result<&'static str, String>> { None }
    fn x_retrain(&mut self, _k: u64) -> Option<Result<&'static str, String>> { None }
    fn x_finalize(&mut self) -> Option<Result<(), String>> { None }
    fn x_finalized_records(&self) -> Option<Result<Vec<Vec<u8>>, String>> { None }
}
macro_rules! extra_fwd { () => {
        fn iter_ids_dyn(&self) -> Option<Vec<RecordId>> { Extra::x_iter_ids(self) }
        fn iter_blobs_dyn(&self) -> Option<Result<Vec<(RecordId, Vec<u8>)>, String>> { Extra::x_iter_blobs(self) }
        fn housekeeping(&mut self, k: u64, dir: &str) -> (&'static str, bool) { Extra::x_housekeeping(self, k, dir) }
        fn clear_dyn(&mut self, k: u64, dir: &str) -> Option<Result<&'static str, String>> { Extra::x_clear(self, k, dir) }
        fn retrain_dyn(&mut self, k: u64) -> Option<Result<&'static str, String>> { Extra::x_retrain(self, k) }
        fn finalize_dyn(&mut self) -> Option<Result<(), String>> { Extra::x_finalize(self) }
        fn finalized_records(&self) -> Option<Result<Vec<Vec<u8>>, String>> { Extra::x_finalized_records(self) }
} }
macro_rules! dyn_store {
    ($t:ty, batch) => {
        impl DynStore for $t {
            fn bs(&mut self) -> &mut dyn BlobStore { self }
            fn bs_ref(&self) -> &dyn BlobStore { self }
            fn has_batch(&self) -> bool { true }
            fn put_batch_dyn(&mut self, recs: Vec<Vec<u8>>) -> ZResult<Vec<RecordId>> { self.put_batch(recs) }
            fn remove_batch_dyn(&mut self, ids: Vec<RecordId>) -> ZResult<usize> { self.remove_batch(ids) }
            fn get_batch_dyn(&self, ids: Vec<RecordId>) -> ZResult<Vec<Option<Vec<u8>>>> { self.get_batch(ids) }
            fn reopen(self: Box<Self>) -> Result<Box<dyn DynStore>, String> { Err("no reopen".into()) }
            fn rewrap(self: Box<Self>, _k: u64) -> Result<(Box<dyn DynStore>, &'static str), String> { Ok((self, "none")) }
            extra_fwd!();
        }
    };
    ($t:ty, nobatch) => {
        impl DynStore for $t {
            fn bs(&mut self) -> &mut dyn BlobStore { self }
            fn bs_ref(&self) -> &dyn BlobStore { self }
            fn reopen(self: Box<Self>) -> Result<Box<dyn DynStore>, String> { Err("no reopen".into()) }
            fn rewrap(self: Box<Self>, _k: u64) -> Result<(Box<dyn DynStore>, &'static str), String> { Ok((self, "none")) }
            extra_fwd!();
        }
    };
}
dyn_store!(HuffmanBlobStore<B>, nobatch);
dyn_store!(RansBlobStore<B>, nobatch);
dyn_store!(DictionaryBlobStore<B>, nobatch);
dyn_store!(CachedBlobStore<B>, nobatch);
dyn_store!(Nt, batch);
dyn_store!(DictZipBlobStore, batch);

fn ids_of<S: IterableBlobStore>(s: &S) -> Vec<RecordId> { s.iter_ids().collect() }
fn blobs_of<S: IterableBlobStore>(s: &S) -> Result<Vec<(RecordId, Vec<u8>)>, String> {
    let mut v = vec![];
    for x in s.iter_blobs() { v.push(x.map_err(|e| format!("iter_blobs yielded an error: {}", e))?); }
    Ok(v)
}
const EXTRA_TRAIN: &[u8] = b"zzzz yyyy xxxx {\"k\": 12345, \"v\": [1,2,3]} aaaaaaaaaaaaaaaaaaaaaaaa bbbbbbbb QQQQQQQQ ~~~~ \x00\x01\x02\xff\xfe";

impl Extra for MemoryBlobStore {
    fn x_iter_ids(&self) -> Option<Vec<RecordId>> { Some(ids_of(self)) }
    fn x_iter_blobs(&self) -> Option<Result<Vec<(RecordId, Vec<u8>)>, String>> { Some(blobs_of(self)) }
    fn x_housekeeping(&mut self, k: u64, _dir: &str) -> (&'static str, bool) {
        match k % 6 {
            0 => { self.reserve((k / 6 % 3000) as usize); ("memory.reserve", true) }
            1 => { self.shrink_to_fit(); ("memory.shrink_to_fit", true) }
            2 => { let _ = self.capacity(); ("memory.capacity", true) }
            3 => { let _ = self.stats(); ("memory.stats", true) }
            4 => { let _ = self.flush(); ("memory.flush", true) }
            _ => { self.reserve(0); self.shrink_to_fit(); self.reserve(1); ("memory.reserve+shrink", true) }
        }
    }
    fn x_clear(&mut self, _k: u64, _dir: &str) -> Option<Result<&'static str, String>> { self.clear(); Some(Ok("memory.clear")) }
}
impl DynStore for MemoryBlobStore {
    fn bs(&mut self) -> &mut dyn BlobStore { self }
    fn bs_ref(&self) -> &dyn BlobStore { self }
    fn has_batch(&self) -> bool { true }
    fn put_batch_dyn(&mut self, recs: Vec<Vec<u8>>) -> ZResult<Vec<RecordId>> { self.put_batch(recs) }
    fn remove_batch_dyn(&mut self, ids: Vec<RecordId>) -> ZResult<usize> { self.remove_batch(ids) }
    fn get_batch_dyn(&self, ids: Vec<RecordId>) -> ZResult<Vec<Option<Vec<u8>>>> { self.get_batch(ids) }
    fn can_reopen(&self) -> bool { true }
    fn reopen(self: Box<Self>) -> Result<Box<dyn DynStore>, String> {
        // the serde image is the store's "saved to bytes" form
        let bytes = serde_json::to_vec(&*self).map_err(|e| format!("serialize: {}", e))?;
        let s: MemoryBlobStore = serde_json::from_slice(&bytes).map_err(|e| format!("deserialize: {}", e))?;
        Ok(Box::new(s))
    }
    fn rewrap(self: Box<Self>, _k: u64) -> Result<(Box<dyn DynStore>, &'static str), String> { Ok((self, "none")) }
    fn clone_dyn(&self) -> Option<Box<dyn DynStore>> { Some(Box::new(self.clone())) }
    extra_fwd!();
}
impl Extra for PlainBlobStore {
    fn x_iter_ids(&self) -> Option<Vec<RecordId>> { Some(ids_of(self)) }
    fn x_iter_blobs(&self) -> Option<Result<Vec<(RecordId, Vec<u8>)>, String>> { Some(blobs_of(self)) }
    fn x_housekeeping(&mut self, k: u64, _dir: &str) -> (&'static str, bool) {
        match k % 3 {
            0 => { let _ = self.flush(); ("plain.flush", true) }
            1 => { let _ = self.stats(); ("plain.stats", true) }
            _ => { let _ = self.base_dir().to_path_buf(); ("plain.base_dir", true) }
        }
    }
}
impl DynStore for PlainBlobStore {
    fn bs(&mut self) -> &mut dyn BlobStore { self }
    fn bs_ref(&self) -> &dyn BlobStore { self }
    fn has_batch(&self) -> bool { true }
    fn put_batch_dyn(&mut self, recs: Vec<Vec<u8>>) -> ZResult<Vec<RecordId>> { self.put_batch(recs) }
    fn remove_batch_dyn(&mut self, ids: Vec<RecordId>) -> ZResult<usize> { self.remove_batch(ids) }
    fn get_batch_dyn(&self, ids: Vec<RecordId>) -> ZResult<Vec<Option<Vec<u8>>>> { self.get_batch(ids) }
    fn can_reopen(&self) -> bool { true }
    fn reopen(self: Box<Self>) -> Result<Box<dyn DynStore>, String> {
        let dir = self.base_dir().to_path_buf();
        drop(self);
        PlainBlobStore::new(&dir).map(|s| Box::new(s) as Box<dyn DynStore>).map_err(|e| format!("reopen: {}", e))
    }
    /// the serde image of the handle (directory + id counter): a second handle that must answer identically
    fn rewrap(self: Box<Self>, _k: u64) -> Result<(Box<dyn DynStore>, &'static str), String> {
        let bytes = serde_json::to_vec(&*self).map_err(|e| format!("serialize: {}", e))?;
        let s: PlainBlobStore = serde_json::from_slice(&bytes).map_err(|e| format!("deserialize: {}", e))?;
        drop(self);
        Ok((Box::new(s), "plain.serde"))
    }
    extra_fwd!();
}

impl Extra for ZeroLengthBlobStore {
    fn x_iter_ids(&self) -> Option<Vec<RecordId>> { Some(ids_of(self)) }
    fn x_iter_blobs(&self) -> Option<Result<Vec<(RecordId, Vec<u8>)>, String>> { Some(blobs_of(self)) }
    fn x_housekeeping(&mut self, k: u64, _dir: &str) -> (&'static str, bool) {
        match k % 3 {
            0 => { let _ = self.mem_size(); ("zero.mem_size", true) }
            1 => { let _ = self.flush(); ("zero.flush", true) }
            _ => { let _ = self.stats(); ("zero.stats", true) }
        }
    }
}
impl DynStore for ZeroLengthBlobStore {
    fn bs(&mut self) -> &mut dyn BlobStore { self }
    fn bs_ref(&self) -> &dyn BlobStore { self }
    fn has_batch(&self) -> bool { true }
    fn put_batch_dyn(&mut self, recs: Vec<Vec<u8>>) -> ZResult<Vec<RecordId>> { self.put_batch(recs) }
    fn remove_batch_dyn(&mut self, ids: Vec<RecordId>) -> ZResult<usize> { self.remove_batch(ids) }
    fn get_batch_dyn(&self, ids: Vec<RecordId>) -> ZResult<Vec<Option<Vec<u8>>>> { self.get_batch(ids) }
    fn can_reopen(&self) -> bool { true }
    fn reopen(self: Box<Self>) -> Result<Box<dyn DynStore>, String> {
        let bytes = serde_json::to_vec(&*self).map_err(|e| format!("serialize: {}", e))?;
        let s: ZeroLengthBlobStore = serde_json::from_slice(&bytes).map_err(|e| format!("deserialize: {}", e))?;
        Ok(Box::new(s))
    }
    fn rewrap(self: Box<Self>, _k: u64) -> Result<(Box<dyn DynStore>, &'static str), String> { Ok((self, "none")) }
    fn clone_dyn(&self) -> Option<Box<dyn DynStore>> { Some(Box::new(self.clone())) }
    extra_fwd!();
}

// the id iteration of a stack exists when every layer down to the base has one
impl IterableBlobStore for B {
    type IdIter = std::vec::IntoIter<RecordId>;
    fn iter_ids(&self) -> Self::IdIter { self.0.iter_ids_dyn().unwrap_or_default().into_iter() }
}
fn zstd_housekeeping<S: BlobStore>(z: &mut ZstdBlobStore<S>, k: u64) -> &'static str {
    match k % 8 {
        0 => { let _ = z.compression_level(); "zstd.compression_level" }
        1 => { let _ = z.inner().len(); "zstd.inner" }
        2 => { let _ = z.compressed_size((k / 8 % 12) as RecordId); "zstd.compressed_size" }
        3 => { let _ = z.compression_ratio((k / 8 % 12) as RecordId); "zstd.compression_ratio" }
        4 => { let _ = z.compression_stats(); "zstd.compression_stats" }
        5 => { let _ = z.flush(); "zstd.flush" }
        6 => { let _ = z.stats(); "zstd.stats" }
        _ => { let _ = z.inner_mut().flush(); "zstd.inner_mut" }
    }
}
impl Extra for ZstdBlobStore<B> {
    fn x_iter_ids(&self) -> Option<Vec<RecordId>> { self.inner().0.iter_ids_dyn()?; Some(ids_of(self)) }
    fn x_iter_blobs(&self) -> Option<Result<Vec<(RecordId, Vec<u8>)>, String>> { self.inner().0.iter_ids_dyn()?; Some(blobs_of(self)) }
    fn x_housekeeping(&mut self, k: u64, dir: &str) -> (&'static str, bool) {
        if k % 3 == 0 { return self.inner_mut().0.housekeeping(k / 3, dir); }   // reach the layer below through inner_mut()
        (zstd_housekeeping(self, k / 3), true)
    }
}
impl DynStore for ZstdBlobStore<B> {
    fn bs(&mut self) -> &mut dyn BlobStore { self }
    fn bs_ref(&self) -> &dyn BlobStore { self }
    fn has_batch(&self) -> bool { true }
    fn put_batch_dyn(&mut self, recs: Vec<Vec<u8>>) -> ZResult<Vec<RecordId>> { self.put_batch(recs) }
    fn remove_batch_dyn(&mut self, ids: Vec<RecordId>) -> ZResult<usize> { self.remove_batch(ids) }
    fn get_batch_dyn(&self, ids: Vec<RecordId>) -> ZResult<Vec<Option<Vec<u8>>>> { self.get_batch(ids) }
    fn reopen(self: Box<Self>) -> Result<Box<dyn DynStore>, String> { Err("no reopen".into()) }
    /// into_inner, then a new wrapper (possibly with another level) on the same inner store: zstd frames describe themselves
    fn rewrap(self: Box<Self>, k: u64) -> Result<(Box<dyn DynStore>, &'static str), String> {
        let inner = (*self).into_inner();
        Ok(match k % 3 {
            0 => (Box::new(ZstdBlobStore::with_default_compression(inner)), "zstd.into_inner+with_default_compression"),
            1 => (Box::new(ZstdBlobStore::new(inner, 1)), "zstd.into_inner+new(1)"),
            _ => (Box::new(ZstdBlobStore::new(inner, 12)), "zstd.into_inner+new(12)"),
        })
    }
    extra_fwd!();
}
/// ZstdBlobStore directly over MemoryBlobStore (no adapter in between): the serde image of the whole stack
type ZMem = ZstdBlobStore<MemoryBlobStore>;
impl Extra for ZMem {
    fn x_iter_ids(&self) -> Option<Vec<RecordId>> { Some(ids_of(self)) }
    fn x_iter_blobs(&self) -> Option<Result<Vec<(RecordId, Vec<u8>)>, String>> { Some(blobs_of(self)) }
    fn x_housekeeping(&mut self, k: u64, dir: &str) -> (&'static str, bool) {
        if k % 3 == 0 { return Extra::x_housekeeping(self.inner_mut(), k / 3, dir); }
        (zstd_housekeeping(self, k / 3), true)
    }
}
impl DynStore for ZMem {
    fn bs(&mut self) -> &mut dyn BlobStore { self }
    fn bs_ref(&self) -> &dyn BlobStore { self }
    fn has_batch(&self) -> bool { true }
    fn put_batch_dyn(&mut self, recs: Vec<Vec<u8>>) -> ZResult<Vec<RecordId>> { self.put_batch(recs) }
    fn remove_batch_dyn(&mut self, ids: Vec<RecordId>) -> ZResult<usize> { self.remove_batch(ids) }
    fn get_batch_dyn(&self, ids: Vec<RecordId>) -> ZResult<Vec<Option<Vec<u8>>>> { self.get_batch(ids) }
    fn can_reopen(&self) -> bool { true }
    fn reopen(self: Box<Self>) -> Result<Box<dyn DynStore>, String> {
        let bytes = serde_json::to_vec(&*self).map_err(|e| format!("serialize: {}", e))?;
        let s: ZMem = serde_json::from_slice(&bytes).map_err(|e| format!("deserialize: {}", e))?;
        Ok(Box::new(s))
    }
    fn rewrap(self: Box<Self>, k: u64) -> Result<(Box<dyn DynStore>, &'static str), String> {
        let inner = (*self).into_inner();
        Ok((Box::new(ZstdBlobStore::new(inner, [1, 3, 9][(k % 3) as usize])), "zstd.into_inner+new"))
    }
    extra_fwd!();
}

impl Extra for HuffmanBlobStore<B> {
    fn x_housekeeping(&mut self, k: u64, _dir: &str) -> (&'static str, bool) {
        match k % 4 {
            0 => { let _ = self.compression_stats().compressions; ("huffman.compression_stats", true) }
            1 => { let _ = self.flush(); ("huffman.flush", true) }
            2 => { let _ = self.stats(); ("huffman.stats", true) }
            // more training data without a rebuild: the tree in use must not change
            _ => { self.add_training_data(EXTRA_TRAIN); ("huffman.add_training_data", true) }
        }
    }
    fn x_retrain(&mut self, k: u64) -> Option<Result<&'static str, String>> {
        if k % 2 == 0 { self.add_training_data(EXTRA_TRAIN); } else { self.add_training_data(TRAIN_TEXT); }
        Some(self.build_tree().map(|_| "huffman.add_training_data+build_tree").map_err(|e| e.to_string()))
    }
}
impl Extra for RansBlobStore<B> {
    fn x_housekeeping(&mut self, k: u64, _dir: &str) -> (&'static str, bool) {
        match k % 3 { 0 => { let _ = self.compression_stats().compressions; ("rans.compression_stats", true) } 1 => { let _ = self.flush(); ("rans.flush", true) } _ => { let _ = self.stats(); ("rans.stats", true) } }
    }
    fn x_retrain(&mut self, k: u64) -> Option<Result<&'static str, String>> {
        Some(self.train(if k % 2 == 0 { EXTRA_TRAIN } else { TRAIN_TEXT }).map(|_| "rans.train").map_err(|e| e.to_string()))
    }
}
impl Extra for DictionaryBlobStore<B> {
    fn x_housekeeping(&mut self, k: u64, _dir: &str) -> (&'static str, bool) {
        match k % 3 { 0 => { let _ = self.compression_stats().compressions; ("dict.compression_stats", true) } 1 => { let _ = self.flush(); ("dict.flush", true) } _ => { let _ = self.stats(); ("dict.stats", true) } }
    }
    fn x_retrain(&mut self, k: u64) -> Option<Result<&'static str, String>> {
        Some(self.train(if k % 2 == 0 { EXTRA_TRAIN } else { TRAIN_TEXT }).map(|_| "dict.train").map_err(|e| e.to_string()))
    }
}
impl Extra for CachedBlobStore<B> {
    fn x_housekeeping(&mut self, k: u64, dir: &str) -> (&'static str, bool) {
        let a = k / 13;
        match k % 13 {
            0 => { let _ = CachedBlobStore::flush(self); ("cached.flush", true) }
            1 => { let _ = BlobStore::flush(self); ("cached.BlobStore::flush", true) }
            2 => { let _ = self.cache_stats(); ("cached.cache_stats", true) }
            3 => { let _ = self.prefetch_range((a % 5) * 1000, (a % 7 * 900) as usize + 1); ("cached.prefetch_range", true) }
            4 => { let _ = self.invalidation_stats(); ("cached.invalidation_stats", true) }
            5 => { let _ = self.write_strategy(); ("cached.write_strategy", true) }
            6 => { let _ = self.inner().len(); ("cached.inner", true) }
            7 => self.inner_mut().0.housekeeping(a, dir),
            8 => { self.set_write_strategy([CacheWriteStrategy::WriteThrough, CacheWriteStrategy::WriteBack, CacheWriteStrategy::WriteAround][(a % 3) as usize]); ("cached.set_write_strategy", false) }
            9 => { self.disable_cache(); ("cached.disable_cache", false) }
            10 => { self.enable_cache(); ("cached.enable_cache", false) }
            11 => { let _ = self.prefetch_range(0, 1 << 16); let _ = CachedBlobStore::flush(self); ("cached.prefetch_range+flush", true) }
            _ => { let _ = self.stats(); ("cached.stats", true) }
        }
    }
}
impl Extra for Nt {
    fn x_iter_ids(&self) -> Option<Vec<RecordId>> { Some(ids_of(self)) }
    fn x_iter_blobs(&self) -> Option<Result<Vec<(RecordId, Vec<u8>)>, String>> { Some(blobs_of(self)) }
    fn x_housekeeping(&mut self, k: u64, _dir: &str) -> (&'static str, bool) {
        let id = (k / 12 % 12) as RecordId;
        match k % 12 {
            0 => { let _ = self.flush(); ("nlt.flush", true) }
            1 => { let _ = self.stats(); ("nlt.stats", true) }
            2 => { let _ = self.trie_stats().key_count; ("nlt.trie_stats", true) }
            3 => { let _ = self.config().key_cache_size; ("nlt.config", true) }
            4 => { let _ = self.keys(); ("nlt.keys", true) }
            5 => { let _ = self.key_count(); ("nlt.key_count", true) }
            6 => { let _ = self.compressed_size(id); ("nlt.compressed_size", true) }
            7 => { let _ = self.compression_ratio(id); ("nlt.compression_ratio", true) }
            8 => { let _ = self.compression_stats(); ("nlt.compression_stats", true) }
            9 => { let _ = self.contains_key(b"__blob_1"); ("nlt.contains_key", true) }
            10 => { let _ = self.is_finalized(); let _ = self.blob_store().map(|s| s.len()); ("nlt.is_finalized+blob_store", true) }
            _ => { let _ = self.keys_with_prefix(b"__blob_"); let _ = self.trie(); ("nlt.keys_with_prefix", true) }
        }
    }
    fn x_finalize(&mut self) -> Option<Result<(), String>> { Some(self.finalize().map_err(|e| e.to_string())) }
    fn x_finalized_records(&self) -> Option<Result<Vec<Vec<u8>>, String>> {
        let s = self.blob_store()?;
        Some((0..s.len()).map(|i| s.get(i as RecordId).map_err(|e| format!("blob_store().get({}) failed: {}", i, e))).collect())
    }
}
impl Extra for DictZipBlobStore {
    fn x_iter_ids(&self) -> Option<Vec<RecordId>> { Some(self.iter_ids_vec()) }
    fn x_iter_blobs(&self) -> Option<Result<Vec<(RecordId, Vec<u8>)>, String>> { Some(self.iter_blobs_vec().map_err(|e| format!("iter_blobs_vec failed: {}", e))) }
    fn x_housekeeping(&mut self, k: u64, dir: &str) -> (&'static str, bool) {
        let id = (k / 10 % 12) as RecordId;
        match k % 10 {
            0 => { let _ = self.optimize(); ("dictzip.optimize", true) }
            1 => { let _ = self.validate(); ("dictzip.validate", true) }
            2 => { let _ = self.detailed_stats().map(|s| (s.cache_hit_ratio(), s.avg_compression_ratio())); ("dictzip.detailed_stats", true) }
            3 => { let _ = self.dictionary_stats(); ("dictzip.dictionary_stats", true) }
            4 => { let _ = self.compression_stats(); ("dictzip.compression_stats", true) }
            5 => { let _ = self.compressed_size(id); ("dictzip.compressed_size", true) }
            6 => { let _ = self.compression_ratio(id); ("dictzip.compression_ratio", true) }
            7 => { let _ = self.flush(); ("dictzip.flush", true) }
            8 => { let _ = self.stats(); ("dictzip.stats", true) }
            _ => { let p = format!("{}/dz_hk.dict", dir); let _ = self.save_dictionary(&p); let _ = std::fs::remove_file(&p); ("dictzip.save_dictionary", true) }
        }
    }
    /// save_dictionary + load_dictionary: documented to drop every record (they are tied to the old dictionary object)
    fn x_clear(&mut self, _k: u64, dir: &str) -> Option<Result<&'static str, String>> {
        let p = format!("{}/dz_reload.dict", dir);
        let r = self.save_dictionary(&p).and_then(|_| self.load_dictionary(&p)).map(|_| "dictzip.save_dictionary+load_dictionary").map_err(|e| e.to_string());
        let _ = std::fs::remove_file(&p);
        Some(r)
    }
}

const TRAIN_TEXT: &[u8] = b"the quick brown fox jumps over the lazy dog; pack my box with five dozen liquor jugs. \
0123456789 abcdefghijklmnopqrstuvwxyz ABCDEFGHIJKLMNOPQRSTUVWXYZ key=value key=value error warn info debug \
the quick brown fox jumps over the lazy dog again and again and again\n";

fn dictzip_store(preset: &str, dir: &str) -> Result<DictZipBlobStore, String> {
    let small = DictionaryBuilderConfig { target_dict_size: 1024, max_dict_size: 8192, validate_result: false, ..Default::default() };
    let mut cfg = match preset {
        "text" => DictZipConfig::text_compression(),
        "binary" => DictZipConfig::binary_compression(),
        "log" => DictZipConfig::log_compression(),
        "realtime" => DictZipConfig::realtime_compression(),
        // the `with_*` helpers of the configuration
        "mcs1" => DictZipConfig::default().with_min_compression_size(1).with_cache_size_mb(1),
        _ => DictZipConfig::default(),
    };
    // the presets ask for 8..64 MB dictionaries; keep their other parameters, bound the size
    cfg.dict_builder_config.target_dict_size = small.target_dict_size;
    cfg.dict_builder_config.max_dict_size = small.max_dict_size;
    if preset != "mcs1" { cfg.cache_size_bytes = 64 * 1024; }
    let e = |x: zipora::ZiporaError| x.to_string();
    match preset {
        "small10" => { cfg.min_compression_size = 10; }
        "huff1" => { cfg.min_compression_size = 10; cfg.entropy_algorithm = EntropyAlgorithm::HuffmanO1; cfg.entropy_interleaved = 1; cfg.entropy_zip_ratio_require = 1.0; }
        "huff4" => { cfg.min_compression_size = 10; cfg.entropy_algorithm = EntropyAlgorithm::HuffmanO1; cfg.entropy_interleaved = 4; cfg.entropy_zip_ratio_require = 1.0; }
        "fse" => { cfg.min_compression_size = 10; cfg.entropy_algorithm = EntropyAlgorithm::Fse; cfg.entropy_zip_ratio_require = 1.0; }
        // the remaining interleave factors, the default ratio requirement (0.8: the entropy stage is dropped for most records)
        "huff0" => { cfg.min_compression_size = 10; cfg.entropy_algorithm = EntropyAlgorithm::HuffmanO1; cfg.entropy_interleaved = 0; cfg.entropy_zip_ratio_require = 1.0; }
        "huff2" => { cfg.min_compression_size = 10; cfg.entropy_algorithm = EntropyAlgorithm::HuffmanO1; cfg.entropy_interleaved = 2; cfg.entropy_zip_ratio_require = 1.0; }
        "huff8" => { cfg.min_compression_size = 10; cfg.entropy_algorithm = EntropyAlgorithm::HuffmanO1; cfg.entropy_interleaved = 8; cfg.entropy_zip_ratio_require = 1.0; }
        "huff_r08" => { cfg.min_compression_size = 10; cfg.entropy_algorithm = EntropyAlgorithm::HuffmanO1; cfg.entropy_interleaved = 1; }
        "fse4" => { cfg.min_compression_size = 10; cfg.entropy_algorithm = EntropyAlgorithm::Fse; cfg.entropy_interleaved = 4; cfg.entropy_zip_ratio_require = 1.0; }
        "fse_r08" => { cfg.min_compression_size = 10; cfg.entropy_algorithm = EntropyAlgorithm::Fse; }
        // a read cache of one / two entries: every other read evicts
        "cache1" => { cfg.min_compression_size = 10; cfg.cache_size_bytes = 1024; }
        "cache2" => { cfg.cache_size_bytes = 2048; }
        "pool" => { cfg.memory_pool_config = Some(zipora::memory::SecurePoolConfig::small_secure()); cfg.track_stats = false; cfg.validate_dictionary = false; }
        _ => {}
    }
    match preset {
        // DictZipBlobStoreBuilder::new() (default configuration, default dictionary sizes) and the bulk / tuning calls of the builder
        "new" => {
            let mut b = DictZipBlobStoreBuilder::new().map_err(e)?;
            b.add_training_samples(TRAIN_TEXT.chunks(60).map(|c| c.to_vec())).map_err(e)?;
            let _ = b.training_stats();
            return b.finish().map_err(e);
        }
        "tuned" => {
            let mut b = DictZipBlobStoreBuilder::with_config(cfg).map_err(e)?;
            b.set_min_frequency(2).map_err(e)?;
            b.enable_advanced_caching().map_err(e)?;
            b.set_progress_callback(|_p| {});
            b.add_training_samples(TRAIN_TEXT.chunks(40).map(|c| c.to_vec())).map_err(e)?;
            return b.finish().map_err(e);
        }
        "mb1" => {
            let mut b = DictZipBlobStoreBuilder::with_config(cfg).map_err(e)?;
            b.set_dict_size_mb(1).map_err(e)?;
            for chunk in TRAIN_TEXT.chunks(60) { b.add_training_sample(chunk).map_err(e)?; }
            return b.finish().map_err(e);
        }
        "file" => {
            let p = format!("{}/dz_train_{}.txt", dir, std::process::id());
            std::fs::write(&p, TRAIN_TEXT).map_err(|x| x.to_string())?;
            let mut b = DictZipBlobStoreBuilder::with_config(cfg).map_err(e)?;
            let r = b.add_training_file(&p);
            let _ = std::fs::remove_file(&p);
            r.map_err(e)?;
            return b.finish().map_err(e);
        }
        // the dictionary written next to the store (external_dictionary), then a second store from that file
        "extdict" | "fromdict" => {
            let p = format!("{}/dz_ext_{}.dict", dir, std::process::id());
            let cfg2 = cfg.clone();
            let mut b = DictZipBlobStoreBuilder::with_config(cfg.with_external_dictionary(&p)).map_err(e)?;
            for chunk in TRAIN_TEXT.chunks(60) { b.add_training_sample(chunk).map_err(e)?; }
            let first = b.finish().map_err(e);
            let r = if preset == "extdict" { first } else { first.and_then(|_| DictZipBlobStore::from_dictionary_file(&p, cfg2).map_err(e)) };
            let _ = std::fs::remove_file(&p);
            return r;
        }
        "bfss" | "bfzo" | "bffl" => {
            use zipora::config::nest_louds_trie::NestLoudsTrieConfig;
            use zipora::containers::specialized::{FixedLenStrVec, SortableStrVec, ZoSortedStrVec};
            let nc = NestLoudsTrieConfig::default();
            let words: Vec<String> = TRAIN_TEXT.chunks(8).map(|c| String::from_utf8_lossy(c).to_string()).collect();
            return match preset {
                "bfss" => { let mut v = SortableStrVec::new(); for w in &words { v.push_str(w).map_err(e)?; } DictZipBlobStore::build_from_sortable_str_vec(&v, &nc) }
                "bfzo" => DictZipBlobStore::build_from_zo_sorted_str_vec(&ZoSortedStrVec::from_strings(words).map_err(e)?, &nc),
                _ => { let mut v = FixedLenStrVec::<8>::new(); for w in words.iter().filter(|w| w.len() == 8) { v.push(w).map_err(e)?; } DictZipBlobStore::build_from_fixed_len_str_vec(&v, &nc) }
            }.map_err(e);
        }
        // the constructors that take the trie configuration of the C++ API
        "bfts" | "bfts_fast" | "bfts_q" | "bfv8" => {
            use zipora::config::nest_louds_trie::{NestLoudsTrieConfig, OptimizationFlags};
            let mut nc = NestLoudsTrieConfig::default();
            if preset == "bfts_fast" { nc.set_optimization_flag(OptimizationFlags::ENABLE_FAST_SEARCH, true); }
            if preset == "bfts_q" { nc.enable_queue_compression = true; }
            let samples: Vec<Vec<u8>> = TRAIN_TEXT.chunks(60).map(|c| c.to_vec()).collect();
            return if preset == "bfv8" { DictZipBlobStore::build_from_vec_u8(TRAIN_TEXT, &nc) } else { DictZipBlobStore::build_from_training_samples(&samples, &nc) }.map_err(e);
        }
        _ => {}
    }
    let mut b = DictZipBlobStoreBuilder::with_config(cfg).map_err(|e| e.to_string())?;
    for chunk in TRAIN_TEXT.chunks(60) { b.add_training_sample(chunk).map_err(|e| e.to_string())?; }
    b.finish().map_err(|e| e.to_string())
}

/// `initial`: what the base store holds before the first operation (stores built from existing data)
struct Env { dir: String, n: u64, initial: Vec<(RecordId, Vec<u8>)> }

/// Build a store stack from its spec "outer/inner/.../base".
fn make_store(spec: &str, env: &mut Env) -> Result<Box<dyn DynStore>, String> { make_store_at(spec, env, 0) }
fn make_store_at(spec: &str, env: &mut Env, depth: usize) -> Result<Box<dyn DynStore>, String> {
    let (head, rest) = match spec.find('/') { Some(i) => (&spec[..i], Some(&spec[i + 1..])), None => (spec, None) };
    let e = |x: zipora::ZiporaError| x.to_string();
    if let Some(rest) = rest {
        let inner = B(make_store_at(rest, env, depth + 1)?, depth + 1);
        return Ok(match head {
            "zstd1" => Box::new(ZstdBlobStore::new(inner, 1)),
            "zstd3" => Box::new(ZstdBlobStore::with_default_compression(inner)),
            "zstd19" => Box::new(ZstdBlobStore::new(inner, 19)),
            // levels outside 1..=22 are clamped by the constructor
            "zstd0" => Box::new(ZstdBlobStore::new(inner, 0)),
            "zstdneg" => Box::new(ZstdBlobStore::new(inner, -7)),
            "zstd22" => Box::new(ZstdBlobStore::new(inner, 22)),
            "zstd99" => Box::new(ZstdBlobStore::new(inner, 99)),
            "huffman" => Box::new(HuffmanBlobStore::new(inner)),
            "huffman_t" => { let mut h = HuffmanBlobStore::new(inner); h.add_training_data(TRAIN_TEXT); h.build_tree().map_err(e)?; Box::new(h) }
            "rans" => Box::new(RansBlobStore::new(inner)),
            "rans_t" => { let mut h = RansBlobStore::new(inner); h.train(TRAIN_TEXT).map_err(e)?; Box::new(h) }
            "dict" => Box::new(DictionaryBlobStore::new(inner)),
            "dict_t" => { let mut h = DictionaryBlobStore::new(inner); h.train(TRAIN_TEXT).map_err(e)?; Box::new(h) }
            "cached_wt" | "cached_wb" | "cached_wa" | "cached_mem" | "cached_sec" | "cached_off" => {
                let strat = match head { "cached_wb" => CacheWriteStrategy::WriteBack, "cached_wa" => CacheWriteStrategy::WriteAround, _ => CacheWriteStrategy::WriteThrough };
                let cfg = match head {
                    "cached_mem" => PageCacheConfig::memory_optimized(),
                    "cached_sec" => PageCacheConfig::security_optimized(),
                    _ => PageCacheConfig::balanced(),
                }.with_capacity(256 * 1024);
                let mut c = CachedBlobStore::with_write_strategy(inner, cfg, strat).map_err(e)?;
                if head == "cached_off" { c.disable_cache(); }
                Box::new(c)
            }
            // the other constructors: new (write-through), the performance preset, a page cache shared with a sibling store
            "cached_new" => Box::new(CachedBlobStore::new(inner, PageCacheConfig::balanced().with_capacity(256 * 1024)).map_err(e)?),
            "cached_perf" => Box::new(CachedBlobStore::with_write_strategy(inner, PageCacheConfig::performance_optimized().with_capacity(512 * 1024).with_huge_pages(false), CacheWriteStrategy::WriteBack).map_err(e)?),
            "cached_default" => Box::new(CachedBlobStore::new(inner, PageCacheConfig::default().with_capacity(128 * 1024).with_prefetch(false).with_statistics(false)).map_err(e)?),
            "cached_shared" | "cached_shared_wb" | "cached_shared_wa" => {
                let cache = std::sync::Arc::new(zipora::cache::LruPageCache::new(PageCacheConfig::balanced().with_capacity(256 * 1024)).map_err(e)?);
                // a sibling store on the same cache that has written to the same offsets
                let mut sib = CachedBlobStore::with_cache_and_strategy(MemoryBlobStore::new(), cache.clone(), CacheWriteStrategy::WriteBack).map_err(e)?;
                for k in 0..3u8 { let _ = sib.put(&vec![0xA0 | k; 700 * (k as usize + 1)]); }
                let _ = sib.get(1);
                std::mem::forget(sib);
                match head {
                    "cached_shared" => Box::new(CachedBlobStore::with_cache(inner, cache).map_err(e)?),
                    "cached_shared_wb" => Box::new(CachedBlobStore::with_cache_and_strategy(inner, cache, CacheWriteStrategy::WriteBack).map_err(e)?),
                    _ => Box::new(CachedBlobStore::with_cache_and_strategy(inner, cache, CacheWriteStrategy::WriteAround).map_err(e)?),
                }
            }
            _ => return Err(format!("unknown wrapper {}", head)),
        });
    }
    Ok(match head {
        "memory" => Box::new(MemoryBlobStore::new()),
        "memory_cap" => Box::new(MemoryBlobStore::with_capacity(4)),
        "plain" | "plain_b" => {
            env.n += 1;
            let d = format!("{}/plain_{}", env.dir, env.n);
            Box::new(PlainBlobStore::create_new(&d).map_err(e)?)
        }
        "memory_default" => Box::new(MemoryBlobStore::default()),
        "memory_fd" | "memory_fd0" => {
            // from_data: the store starts with records under ids of the caller's choosing
            let mut m: HashMap<RecordId, Vec<u8>> = HashMap::new();
            if head == "memory_fd" { for (id, d) in [(2u32, b"two".to_vec()), (7, vec![]), (40, vec![7u8; 300])] { m.insert(id, d); } }
            env.initial = m.iter().map(|(k, v)| (*k, v.clone())).collect();
            Box::new(MemoryBlobStore::from_data(m))
        }
        "zstd3_typed" => Box::new(ZstdBlobStore::with_default_compression(MemoryBlobStore::new())),
        "plain_new" => {
            // new() on a directory that does not exist yet
            env.n += 1;
            let d = format!("{}/plain_{}", env.dir, env.n);
            let _ = std::fs::remove_dir_all(&d);
            Box::new(PlainBlobStore::new(format!("{}/sub/dir", d)).map_err(e)?)
        }
        "plain_over" => {
            // create_new() on a directory that holds records of an earlier store: they must be gone
            env.n += 1;
            let d = format!("{}/plain_{}", env.dir, env.n);
            { let mut old = PlainBlobStore::create_new(&d).map_err(e)?; for k in 0..4u8 { let _ = old.put(&[k; 5]); } }
            Box::new(PlainBlobStore::create_new(&d).map_err(e)?)
        }
        "zero" => Box::new(ZeroLengthBlobStore::new()),
        "zero_default" => Box::new(ZeroLengthBlobStore::default()),
        "zero_finish" => { env.initial = (0..3).map(|i| (i as RecordId, vec![])).collect(); Box::new(ZeroLengthBlobStore::finish(3)) }
        "nlt_default" => Box::new(Nt::default().map_err(e)?),
        "nlt_cfgb" => {
            // TrieBlobStoreConfig::builder(): a two-entry key cache (evicts on every third key), statistics off, every switch flipped
            let cfg = TrieBlobStoreConfig::builder().trie_config(zipora::fsa::ZiporaTrieConfig::default()).blob_config(ZipOffsetBlobStoreConfig::performance_optimized())
                .memory_config(zipora::memory::SecurePoolConfig::small_secure()).key_compression(false).batch_optimization(false).key_cache_size(2).statistics(false).build().map_err(e)?;
            Box::new(Nt::new(cfg).map_err(e)?)
        }
        "nlt_nocache" => Box::new(Nt::new(TrieBlobStoreConfig::builder().key_cache_size(0).blob_config(ZipOffsetBlobStoreConfig { compress_level: 0, checksum_level: 0, offset_config: SortedUintVecConfig::performance_optimized(), ..Default::default() }).build().map_err(e)?).map_err(e)?),
        "nlt_new" => Box::new(Nt::new(TrieBlobStoreConfig::new()).map_err(e)?),
        "nlt" => Box::new(Nt::new(TrieBlobStoreConfig::default()).map_err(e)?),
        "nlt_perf" => Box::new(Nt::new(TrieBlobStoreConfig::performance_optimized()).map_err(e)?),
        "nlt_mem" => Box::new(Nt::new(TrieBlobStoreConfig::memory_optimized()).map_err(e)?),
        "nlt_sec" => Box::new(Nt::new(TrieBlobStoreConfig::security_optimized()).map_err(e)?),
        s if s.starts_with("dictzip") => { let d = env.dir.clone(); Box::new(dictzip_store(s.strip_prefix("dictzip_").unwrap_or("default"), &d)?) }
        _ => return Err(format!("unknown store {}", head)),
    })
}

fn base_of(spec: &str) -> &str { spec.rsplit('/').next().unwrap_or(spec) }
fn supports_remove(spec: &str) -> bool { !base_of(spec).starts_with("zero") }
/// May `put(data)` be refused (Err) by this stack without violating the property?
fn put_may_refuse(spec: &str, data: &[u8]) -> bool {
    let b = base_of(spec);
    (b.starts_with("zero") && !data.is_empty()) || (b.starts_with("dictzip") && spec == b && data.is_empty())
}

// ---------------------------------------------------------------------------------------------
// records
// ---------------------------------------------------------------------------------------------
const WORDS: [&str; 12] = ["the ", "quick ", "brown ", "fox ", "key=", "value ", "error ", "0123 ", "lazy ", "dog\n", "jumps ", "over "];
/// A record is written in cases as [kind, len, seed]; this expands it deterministically.
fn rec_bytes(v: &Value) -> Vec<u8> {
    if let Some(b) = v.get("b") { return b.as_array().map(|a| a.iter().map(|x| x.as_u64().unwrap_or(0) as u8).collect()).unwrap_or_default(); }
    let kind = v[0].as_u64().unwrap_or(0);
    let len = v[1].as_u64().unwrap_or(0) as usize;
    let seed = v[2].as_u64().unwrap_or(0);
    let mut r = Rng::new(seed ^ 0xC03);
    match kind {
        0 => vec![seed as u8; len],
        1 => r.bytes(len),
        2 => { let mut out = Vec::with_capacity(len + 8); while out.len() < len { out.extend_from_slice(WORDS[r.below(12) as usize].as_bytes()); } out.truncate(len); out }
        3 => (0..len).map(|i| (i as u64 + seed) as u8).collect(),
        // a piece of the text the DictZip dictionaries / Huffman stores are trained on (wraps around): matches the dictionary well
        5 => (0..len).map(|i| TRAIN_TEXT[(seed as usize + i) % TRAIN_TEXT.len()]).collect(),
        _ => (0..len).map(|_| if r.chance(7, 8) { b'a' } else { b'b' }).collect(),
    }
}
/// n records of 0..max_len bytes (every 5th one empty, every 7th one of the full length), contents from `seed`
fn gen_many(n: u64, max_len: u64, seed: u64) -> Vec<Vec<u8>> {
    let mut r = Rng::new(seed ^ 0x6E6);
    (0..n).map(|i| { let len = if i % 5 == 4 { 0 } else if i % 7 == 6 { max_len } else { r.below(max_len + 1) }; let b = (i as u8).wrapping_mul(31).wrapping_add(seed as u8); (0..len).map(|j| b.wrapping_add(j as u8)).collect() }).collect()
}
fn gen_rec(r: &mut Rng, common_len: u64) -> Value {
    let len = match r.below(16) {
        0 | 1 => 0,
        2 => 1,
        3..=6 => common_len,
        7 => *r.pick(&[63u64, 64, 65, 127, 128, 129, 255, 256, 257]),
        8 => *r.pick(&[4095u64, 4096, 4097, 8192]),
        9 => r.range(1000, 5000),
        _ => r.below(80),
    };
    let kind = match r.below(9) { 0 => 0, 1 | 2 => 1, 3 | 4 => 2, 5 => 3, 6 => 5, _ => 4 };
    json!([kind, len, r.below(1000)])
}

// ---------------------------------------------------------------------------------------------
// histories
// ---------------------------------------------------------------------------------------------
struct Ctx { sum: Summary, shards: CoqShards, budget: usize, n_hist: usize, n_xhist: usize, n_xmem: usize, env: Env }

fn resolve(idref: &Value, issued: &[RecordId]) -> RecordId {
    // {"i": k}: k-th id issued in this history (ids past the end fall back to a never-issued id); {"raw": id}
    if let Some(k) = idref.get("i").and_then(|x| x.as_u64()) {
        if (k as usize) < issued.len() { return issued[k as usize]; }
        let mx = issued.iter().copied().max().unwrap_or(0);
        return mx.wrapping_add(1 + (k as u32 - issued.len() as u32) % 3);
    }
    idref.get("raw").and_then(|x| x.as_u64()).unwrap_or(0) as RecordId
}

fn hex(b: &[u8]) -> String {
    let n = b.len().min(24);
    let mut s: String = b[..n].iter().map(|x| format!("{:02x}", x)).collect();
    if b.len() > n { s.push_str(&format!("..({} bytes)", b.len())); }
    s
}

/// Compare the store with the shadow on one id.
fn probe(st: &dyn BlobStore, id: RecordId, shadow: &HashMap<RecordId, Vec<u8>>) -> Option<String> {
    let want = shadow.get(&id);
    let g = guarded(|| st.get(id));
    match (&g, want) {
        (Err(p), _) => return Some(format!("get({}) panicked: {}", id, p)),
        (Ok(Ok(d)), Some(w)) => if d != w { return Some(format!("get({}) returned {} but the record stored under that id is {}", id, hex(d), hex(w))); },
        (Ok(Err(e)), Some(w)) => return Some(format!("get({}) failed ({}) but the id holds a live {}-byte record", id, e, w.len())),
        (Ok(Ok(d)), None) => return Some(format!("get({}) returned {} bytes for an id that is not live", id, d.len())),
        (Ok(Err(_)), None) => {}
    }
    match guarded(|| st.contains(id)) {
        Err(p) => return Some(format!("contains({}) panicked: {}", id, p)),
        Ok(c) => if c != want.is_some() { return Some(format!("contains({}) = {} but live = {}", id, c, want.is_some())); }
    }
    match (guarded(|| st.size(id)), want) {
        (Err(p), _) => return Some(format!("size({}) panicked: {}", id, p)),
        (Ok(Ok(Some(n))), Some(w)) => if n != w.len() { return Some(format!("size({}) = {} but the record has {} bytes", id, n, w.len())); },
        (Ok(Ok(None)), Some(_)) | (Ok(Err(_)), Some(_)) => return Some(format!("size({}) reports absence for a live record", id)),
        (Ok(Ok(Some(n))), None) => return Some(format!("size({}) = Some({}) for an id that is not live", id, n)),
        _ => {}
    }
    None
}

/// Compare the store with the shadow on every id ever issued and on len().
fn sweep(st: &dyn BlobStore, ever: &HashSet<RecordId>, shadow: &HashMap<RecordId, Vec<u8>>) -> Option<String> {
    let mut ids: Vec<RecordId> = ever.iter().copied().collect(); ids.sort();
    for id in ids { if let Some(m) = probe(st, id, shadow) { return Some(m); } }
    match guarded(|| st.len()) { Ok(n) if n == shadow.len() => None, Ok(n) => Some(format!("len() = {} but {} records are live", n, shadow.len())), Err(p) => Some(format!("len panicked: {}", p)) }
}

/// The comparison made right after a refused operation (the shadow is unchanged by it): all ids ever issued (at most the 120
/// oldest and 120 newest of them), the ids the operation named and their neighbours, ids never issued, len(), iter_ids.
fn after_refusal(st: &dyn DynStore, named: &[RecordId], ever: &HashSet<RecordId>, shadow: &HashMap<RecordId, Vec<u8>>) -> Option<String> {
    let mut ids: Vec<RecordId> = ever.iter().copied().collect(); ids.sort();
    let mx = ids.last().copied().unwrap_or(0);
    if ids.len() > 240 { let tail = ids.split_off(ids.len() - 120); ids.truncate(120); ids.extend(tail); }
    for &n in named { ids.push(n); ids.push(n.wrapping_add(1)); ids.push(n.wrapping_sub(1)); }
    ids.extend([0u32, mx.wrapping_add(1), u32::MAX]);
    ids.sort(); ids.dedup();
    for id in ids { if let Some(m) = probe(st.bs_ref(), id, shadow) { return Some(m); } }
    match guarded(|| st.bs_ref().len()) { Ok(n) if n == shadow.len() => {}, Ok(n) => return Some(format!("len() = {} but {} records are live", n, shadow.len())), Err(p) => return Some(format!("len panicked: {}", p)) }
    match guarded(|| st.iter_ids_dyn()) {
        Err(p) => return Some(format!("iter_ids panicked: {}", p)),
        Ok(None) => {}
        Ok(Some(mut got)) => { got.sort(); let mut want: Vec<RecordId> = shadow.keys().copied().collect(); want.sort();
            if got != want { return Some(format!("iter_ids lists {} ids but {} records are live (first difference at {:?})", got.len(), want.len(), got.iter().zip(want.iter()).find(|(a, b)| a != b))); } }
    }
    None
}

/// Finding classes of the unchanged tree (decidable predicates on the case, see findings/C03.txt).
fn history_class(_spec: &str, _detail: &str) -> Option<&'static str> { None }


// ---------------------------------------------------------------------------------------------
// the stack as a term of ModelCases.skind
// ---------------------------------------------------------------------------------------------
#[derive(Clone, Copy, PartialEq)]
enum WKind { Zstd, Huff(bool), Pass, Cached(u8, bool) }
fn wrapper_kind(head: &str) -> Option<WKind> {
    Some(match head {
        "zstd1" | "zstd3" | "zstd19" => WKind::Zstd,
        "huffman" => WKind::Huff(false),
        "huffman_t" => WKind::Huff(true),
        "rans" | "rans_t" | "dict" | "dict_t" => WKind::Pass,
        "cached_wt" | "cached_mem" | "cached_sec" => WKind::Cached(0, true),
        "cached_wb" => WKind::Cached(1, true),
        "cached_wa" => WKind::Cached(2, true),
        "cached_off" => WKind::Cached(0, false),
        _ => return None,
    })
}
/// The wrappers of a stack (outermost first) and the model term of its base store; None: a layer has no mechanism model.
fn xmodel_of(spec: &str) -> Option<(Vec<WKind>, String)> {
    let parts: Vec<&str> = spec.split('/').collect();
    let (base, heads) = parts.split_last()?;
    let mut ws = vec![];
    for h in heads { ws.push(wrapper_kind(h)?); }
    let b = match *base {
        "memory" | "memory_cap" => "KMem".to_string(),
        "plain" => "KPlain".to_string(),
        "zero" => "KZero".to_string(),
        s if s.starts_with("dictzip") => {
            // the two parameters the bookkeeping model reads; the observations do not depend on them
            // (the constructors and options added for oracle breadth are judged by the oracle only)
            let (min, ent) = match s.strip_prefix("dictzip_").unwrap_or("default") { "small10" => (10, false), "huff1" | "huff4" | "fse" => (10, true), "text" => (32, false), "binary" => (128, false), "log" => (16, false), "realtime" => (256, false), "default" => (64, false), _ => return None };
            format!("(KDictZip {{| dz_min := {}; dz_entropy := {} |}} false)", min, ent)
        }
        _ => return None,
    };
    Some((ws, b))
}
fn coq_table(t: &[(Vec<u8>, Vec<u8>)]) -> String {
    format!("[{}]", t.iter().map(|(a, b)| format!("({}, {})", coq_bytes(a), coq_bytes(b))).collect::<Vec<_>>().join("; "))
}
fn kind_term(ws: &[WKind], base: &str, tables: &[Vec<(Vec<u8>, Vec<u8>)>]) -> String {
    match ws.split_first() {
        None => base.to_string(),
        Some((w, rest)) => {
            let inner = kind_term(rest, base, &tables[1..]);
            match w {
                WKind::Zstd => format!("(KZstd {} {})", coq_table(&tables[0]), inner),
                WKind::Huff(t) => format!("(KHuff {} {} {})", coq_bool(*t), coq_table(&tables[0]), inner),
                WKind::Pass => format!("(KPass {})", inner),
                WKind::Cached(st, en) => format!("(KCachedNo {} {} {})", st, coq_bool(*en), inner),
            }
        }
    }
}
/// obs_query of the model: what get + contains + size answered, as one list
fn obs_of(r: Option<&Vec<u8>>) -> String {
    match r { Some(d) => { let mut v = vec![1u128, d.len() as u128]; v.extend(d.iter().map(|&b| b as u128)); coq_n_list(v) } None => "[0]%N".into() }
}
/// Bookkeeping of one history for the Coq case of the whole stack.
struct XTrace {
    ws: Vec<WKind>, base: String, ok: bool, spec_too: bool,
    ops: Vec<String>, obs: Vec<String>,
    tables: Vec<Vec<(Vec<u8>, Vec<u8>)>>,
    base_map: std::collections::BTreeMap<RecordId, Vec<u8>>,
}
impl XTrace {
    fn new(spec: &str) -> Option<XTrace> {
        let (ws, base) = xmodel_of(spec)?;
        let n = ws.len();
        Some(XTrace { ws, base, ok: true, spec_too: true, ops: vec![], obs: vec![], tables: vec![vec![]; n], base_map: Default::default() })
    }
    fn push(&mut self, op: String, obs: String) { self.ops.push(op); self.obs.push(obs); }
    /// Digest what the layers logged during one outer operation whose records (if it stored any) were `recs`.
    fn absorb(&mut self, recs: &[Vec<u8>], stored: bool) {
        let evs = xlog_take();
        let nw = self.ws.len();
        for e in &evs {
            match e {
                XEv::Put { level, data, id: Some(id) } if *level == nw => { self.base_map.insert(*id, data.clone()); }
                XEv::Remove { level, id } if *level == nw => { self.base_map.remove(id); }
                _ => {}
            }
        }
        if !stored || nw == 0 { return; }
        let mut lv: Vec<Vec<&Vec<u8>>> = vec![recs.iter().collect()];
        for l in 1..=nw { lv.push(evs.iter().filter_map(|e| match e { XEv::Put { level, data, .. } if *level == l => Some(data), _ => None }).collect()); }
        if lv.iter().any(|x| x.len() != recs.len()) { self.ok = false; return; }
        for l in 0..nw {
            for i in 0..recs.len() {
                let (a, b) = (lv[l][i], lv[l + 1][i]);
                let entry = match self.ws[l] {
                    WKind::Zstd => Some((a.clone(), b.clone())),
                    WKind::Huff(_) => if b.first() == Some(&1) && b.len() >= 9 { Some((a.clone(), b[9..].to_vec())) } else { None },
                    _ => None,
                };
                if let Some(e) = entry { if !self.tables[l].iter().any(|x| x.0 == e.0) { self.tables[l].push(e); } }
            }
        }
    }
    fn term(&self, spec: &str, dir: Option<Vec<(Vec<u8>, Vec<u8>)>>) -> Option<String> {
        if !self.ok || self.ops.is_empty() { return None; }
        let has_reopen = self.ops.iter().any(|o| o == "PReopen");
        if spec == "plain" {
            let d = dir?;
            let ops: Vec<String> = self.ops.iter().map(|o| if o == "PReopen" { o.clone() } else { format!("PX ({})", o) }).collect();
            return Some(format!("XPlain [{}] [{}] {}", ops.join("; "), self.obs.join("; "), coq_table(&d)));
        }
        if has_reopen { return None; }
        let has_base = self.base == "KMem" && !self.ws.is_empty();
        let dump = if has_base { format!("[{}]", self.base_map.iter().map(|(id, d)| format!("({}, {})", id, coq_bytes(d))).collect::<Vec<_>>().join("; ")) } else { "[]".to_string() };
        Some(format!("XHist {} [{}] [{}] {} {} {}", kind_term(&self.ws, &self.base, &self.tables), self.ops.join("; "), self.obs.join("; "),
            coq_bool(self.spec_too), coq_bool(has_base), dump))
    }
}

fn run_history(cx: &mut Ctx, case: &Value, force_coq: bool) {
    let spec = case["cell"].as_str().unwrap_or("memory").to_string();
    let cell = format!("history/{}", spec);
    let ops: Vec<Value> = case["ops"].as_array().cloned().unwrap_or_default();
    cx.sum.eval(&cell, &case.to_string(), ops.len() >= 3);
    let mut st = match guarded(|| make_store(&spec, &mut cx.env)) {
        Ok(Ok(s)) => s,
        Ok(Err(e)) => { cx.sum.fail(&cell, None, case.clone(), &format!("store construction failed: {}", e)); return; }
        Err(p) => { cx.sum.fail(&cell, None, case.clone(), &format!("store construction panicked: {}", p)); return; }
    };
    let plain_dir = if base_of(&spec).starts_with("plain") { Some(format!("{}/plain_{}", cx.env.dir, cx.env.n)) } else { None };
    let mut shadow: HashMap<RecordId, Vec<u8>> = HashMap::new();
    let mut issued: Vec<RecordId> = vec![];
    let mut ever: HashSet<RecordId> = HashSet::new();
    // stores built from existing data start with content
    let mut initial = std::mem::take(&mut cx.env.initial);
    initial.sort();
    let seeded = !initial.is_empty();
    for (id, d) in initial { shadow.insert(id, d); issued.push(id); ever.insert(id); }
    let hk_dir = cx.env.dir.clone();
    let mut finalized = false;          // after finalize(): writes may be refused
    let mut removed_any = false;
    let mut all_put: Vec<Vec<u8>> = vec![];
    // a copy taken by Clone and the content it must keep, whatever happens to the other copy afterwards
    let mut snap: Option<(Box<dyn DynStore>, HashMap<RecordId, Vec<u8>>)> = None;
    let mut failure: Option<String> = None;
    let mut obs: Vec<String> = vec![];   // observations for the Coq model (memory cell only)
    let mut coq_ops: Vec<String> = vec![];
    let mut coq_ok = spec == "memory";
    let mut xt = XTrace::new(&spec);
    let _ = xlog_take();
    macro_rules! xt { ($f:expr) => { if let Some(x) = xt.as_mut() { ($f)(x); } } }
    'ops: for (k, op) in ops.iter().enumerate() {
        let name = op[0].as_str().unwrap_or("");
        let mut fail = |m: String| { Some(format!("op #{} {}: {}", k, op, m)) };
        // Some(what): the operation was refused (Err); the store is then compared with the unchanged shadow in full
        let mut refused: Option<(&'static str, Vec<RecordId>)> = None;
        match name {
            "put" => {
                let data = rec_bytes(&op[1]);
                if data.len() > 64 { coq_ok = false; xt!(|x: &mut XTrace| x.ok = false); }
                if data.len() >= 1000 { cx.sum.dist(if op[1][0] == 1 { "put_records_ge_1000_bytes_incompressible" } else { "put_records_ge_1000_bytes_compressible" }); }
                if data.is_empty() { cx.sum.dist("put_empty_records"); }
                match guarded(|| st.bs().put(&data)) {
                    Err(p) => { failure = fail(format!("put panicked: {}", p)); break 'ops; }
                    Ok(Err(e)) => { if !put_may_refuse(&spec, &data) && !finalized { failure = fail(format!("put of a {}-byte record refused: {}", data.len(), e)); break 'ops; }
                                    xt!(|x: &mut XTrace| { x.absorb(&[], false); x.spec_too = false; x.push(format!("XO (MPut {})", coq_bytes(&data)), "[]%N".into()); });
                                    cx.sum.dist("put_refused_allowed"); refused = Some(("put", vec![])); }
                    Ok(Ok(id)) => {
                        if shadow.contains_key(&id) { failure = fail(format!("put returned id {} which is the id of another live record", id)); break 'ops; }
                        coq_ops.push(format!("MPut {}", coq_bytes(&data)));
                        obs.push(format!("[{}]%N", id));
                        xt!(|x: &mut XTrace| { x.absorb(std::slice::from_ref(&data), true); x.push(format!("XO (MPut {})", coq_bytes(&data)), format!("[{}]%N", id)); });
                        all_put.push(data.clone());
                        shadow.insert(id, data); issued.push(id); ever.insert(id);
                    }
                }
            }
            "batch" => {
                let recs: Vec<Vec<u8>> = op[1].as_array().map(|a| a.iter().map(rec_bytes).collect()).unwrap_or_default();
                if !st.has_batch() || recs.iter().any(|d| put_may_refuse(&spec, d)) { continue; }
                if recs.iter().any(|d| d.len() > 64) { coq_ok = false; xt!(|x: &mut XTrace| x.ok = false); }
                let rc = recs.clone();
                match guarded(|| st.put_batch_dyn(rc)) {
                    Err(p) => { failure = fail(format!("put_batch panicked: {}", p)); break 'ops; }
                    // put_batch need not be atomic (see design): only ids the shadow knows are judged after the refusal
                    Ok(Err(_)) if finalized => { xt!(|x: &mut XTrace| x.ok = false); refused = Some(("put_batch", vec![])); }
                    Ok(Err(e)) => { failure = fail(format!("put_batch refused: {}", e)); break 'ops; }
                    Ok(Ok(ids)) => {
                        if ids.len() != recs.len() { failure = fail(format!("put_batch of {} records returned {} ids", recs.len(), ids.len())); break 'ops; }
                        coq_ops.push(format!("MBatch [{}]", recs.iter().map(|d| coq_bytes(d)).collect::<Vec<_>>().join("; ")));
                        obs.push(coq_n_list(ids.iter().map(|&i| i as u128)));
                        xt!(|x: &mut XTrace| { x.absorb(&recs, true); x.push(format!("XO (MBatch [{}])", recs.iter().map(|d| coq_bytes(d)).collect::<Vec<_>>().join("; ")), coq_n_list(ids.iter().map(|&i| i as u128))); });
                        for (id, d) in ids.iter().zip(recs.into_iter()) {
                            if shadow.contains_key(id) { failure = fail(format!("put_batch returned id {} which is the id of another live record", id)); break 'ops; }
                            all_put.push(d.clone());
                            shadow.insert(*id, d); issued.push(*id); ever.insert(*id);
                        }
                    }
                }
            }
            "bulk" => {
                // many records at once (described by [n, max_len, seed]): through put_batch where there is one, else put by put
                let mut recs = gen_many(op[1].as_u64().unwrap_or(0), op[2].as_u64().unwrap_or(1), op[3].as_u64().unwrap_or(0));
                recs.retain(|d| !put_may_refuse(&spec, d));
                coq_ok = false; xt!(|x: &mut XTrace| x.ok = false);
                let ids: Vec<RecordId> = if st.has_batch() {
                    let rc = recs.clone();
                    match guarded(|| st.put_batch_dyn(rc)) {
                        Err(p) => { failure = fail(format!("put_batch of {} records panicked: {}", recs.len(), p)); break 'ops; }
                        Ok(Err(_)) if finalized => continue,
                        Ok(Err(e)) => { failure = fail(format!("put_batch of {} records refused: {}", recs.len(), e)); break 'ops; }
                        Ok(Ok(ids)) => ids,
                    }
                } else {
                    let mut ids = vec![];
                    for d in &recs { match guarded(|| st.bs().put(d)) { Ok(Ok(id)) => ids.push(id), Ok(Err(_)) if finalized => {} , r => { failure = fail(format!("put #{} of the bulk refused: {:?}", ids.len(), r.map(|x| x.map_err(|e| e.to_string())))); break 'ops; } } }
                    ids
                };
                let _ = xlog_take();
                if ids.len() != recs.len() { if finalized { continue; } failure = fail(format!("{} records stored, {} ids returned", recs.len(), ids.len())); break 'ops; }
                cx.sum.dist("bulk_ops");
                for (id, d) in ids.iter().zip(recs.into_iter()) {
                    if shadow.contains_key(id) { failure = fail(format!("bulk put returned id {} which is the id of another live record", id)); break 'ops; }
                    all_put.push(d.clone()); shadow.insert(*id, d); issued.push(*id); ever.insert(*id);
                }
            }
            "rm" => {
                let id = resolve(&op[1], &issued);
                let live = shadow.contains_key(&id);
                match guarded(|| st.bs().remove(id)) {
                    Err(p) => { failure = fail(format!("remove({}) panicked: {}", id, p)); break 'ops; }
                    Ok(Ok(())) => { shadow.remove(&id); removed_any = true; obs.push("[1]%N".into()); xt!(|x: &mut XTrace| { x.absorb(&[], false); x.push(format!("XO (MRemove {})", id), "[1]%N".into()); }); }
                    Ok(Err(e)) => { if live && supports_remove(&spec) && !finalized { failure = fail(format!("remove({}) of a live record failed: {}", id, e)); break 'ops; } obs.push("[0]%N".into());
                                    refused = Some(("remove", vec![id]));
                                    xt!(|x: &mut XTrace| { x.absorb(&[], false); if live { x.spec_too = false; } x.push(format!("XO (MRemove {})", id), "[0]%N".into()); }); }
                }
                coq_ops.push(format!("MRemove {}", id));
            }
            "rmb" => {
                // remove_batch: every listed live id is gone afterwards and the count says how many were removed
                let ids: Vec<RecordId> = op[1].as_array().map(|a| a.iter().map(|x| resolve(x, &issued)).collect()).unwrap_or_default();
                if finalized { continue; }
                removed_any = true;
                if !st.has_batch() || !supports_remove(&spec) {
                    for &id in &ids {
                        let live = shadow.contains_key(&id);
                        let okr = st.bs().remove(id).is_ok();
                        if okr { shadow.remove(&id); }
                        xt!(|x: &mut XTrace| { x.absorb(&[], false); if live && !okr { x.spec_too = false; } x.push(format!("XO (MRemove {})", id), if okr { "[1]%N".into() } else { "[0]%N".into() }); });
                    }
                    coq_ok = false;
                } else {
                    let mut distinct_live: Vec<RecordId> = ids.iter().copied().filter(|i| shadow.contains_key(i)).collect();
                    distinct_live.sort(); distinct_live.dedup();
                    let idc = ids.clone();
                    match guarded(|| st.remove_batch_dyn(idc)) {
                        Err(p) => { failure = fail(format!("remove_batch panicked: {}", p)); break 'ops; }
                        Ok(Ok(n)) => {
                            if n != distinct_live.len() { failure = fail(format!("remove_batch({:?}) reported {} removed records but {} of the ids were live", ids, n, distinct_live.len())); break 'ops; }
                            for id in &ids { obs.push(if shadow.remove(id).is_some() { "[1]%N".into() } else { "[0]%N".into() }); coq_ops.push(format!("MRemove {}", id)); }
                            xt!(|x: &mut XTrace| { x.absorb(&[], false); x.push(format!("XRmBatch {}", coq_n_list(ids.iter().map(|&i| i as u128))), format!("[{}]%N", n)); });
                        }
                        Ok(Err(e)) => {
                            if distinct_live.len() == ids.len() { failure = fail(format!("remove_batch({:?}) of live records failed: {}", ids, e)); break 'ops; }
                            // an error because some id was absent: whatever was removed must be consistently gone
                            coq_ok = false; xt!(|x: &mut XTrace| x.ok = false);
                            for id in &distinct_live { if !st.bs_ref().contains(*id) { shadow.remove(id); } }
                        }
                    }
                    cx.sum.dist("remove_batch_ops");
                    for &id in &ids { if let Some(m) = probe(st.bs_ref(), id, &shadow) { failure = fail(format!("after remove_batch: {}", m)); break 'ops; } }
                }
            }
            "getb" => {
                let ids: Vec<RecordId> = op[1].as_array().map(|a| a.iter().map(|x| resolve(x, &issued)).collect()).unwrap_or_default();
                if st.has_batch() {
                    let idc = ids.clone();
                    match guarded(|| st.get_batch_dyn(idc)) {
                        Err(p) => { failure = fail(format!("get_batch panicked: {}", p)); break 'ops; }
                        Ok(Err(e)) => { if ids.iter().all(|i| shadow.contains_key(i)) { failure = fail(format!("get_batch({:?}) of live records failed: {}", ids, e)); break 'ops; } xt!(|x: &mut XTrace| x.ok = false);
                                        refused = Some(("get_batch", ids.clone())); }
                        Ok(Ok(v)) => {
                            xt!(|x: &mut XTrace| { x.absorb(&[], false); x.push(format!("XGetBatch {}", coq_n_list(ids.iter().map(|&i| i as u128))),
                                coq_n_list(v.iter().flat_map(|g| match g { Some(d) => { let mut o = vec![1u128, d.len() as u128]; o.extend(d.iter().map(|&b| b as u128)); o } None => vec![0u128] }))); });
                            if v.len() != ids.len() { failure = fail(format!("get_batch of {} ids returned {} answers", ids.len(), v.len())); break 'ops; }
                            for (id, g) in ids.iter().zip(v.iter()) {
                                if g.as_ref() != shadow.get(id) { failure = fail(format!("get_batch: id {} answered {:?} but the shadow holds {:?}", id, g.as_ref().map(|d| hex(d)), shadow.get(id).map(|d| hex(d)))); break 'ops; }
                            }
                        }
                    }
                    cx.sum.dist("get_batch_ops");
                }
                for &id in &ids {
                    if let Some(m) = probe(st.bs_ref(), id, &shadow) { failure = fail(m); break 'ops; }
                    coq_ops.push(format!("MQuery {}", id));
                    obs.push(obs_of(shadow.get(&id)));
                    xt!(|x: &mut XTrace| { x.absorb(&[], false); x.push(format!("XO (MQuery {})", id), obs_of(shadow.get(&id))); });
                }
            }
            "get" | "has" | "size" => {
                let id = resolve(&op[1], &issued);
                if let Some(m) = probe(st.bs_ref(), id, &shadow) { failure = fail(m); break 'ops; }
                if !shadow.contains_key(&id) { refused = Some(("get", vec![id])); }
                // the model is asked the same three questions
                coq_ops.push(format!("MQuery {}", id));
                obs.push(obs_of(shadow.get(&id)));
                xt!(|x: &mut XTrace| { x.absorb(&[], false); x.push(format!("XO (MQuery {})", id), obs_of(shadow.get(&id))); });
            }
            "len" => {
                match guarded(|| st.bs_ref().len()) {
                    Err(p) => { failure = fail(format!("len panicked: {}", p)); break 'ops; }
                    Ok(n) => { if n != shadow.len() { failure = fail(format!("len() = {} but {} records are live", n, shadow.len())); break 'ops; }
                               coq_ops.push("MLen".into()); obs.push(format!("[{}]%N", n));
                               xt!(|x: &mut XTrace| x.push("XO MLen".into(), format!("[{}]%N", n))); }
                }
                match guarded(|| st.bs_ref().is_empty()) {
                    Ok(e) if e == shadow.is_empty() => {}
                    r => { failure = fail(format!("is_empty() = {:?} but {} records are live", r, shadow.len())); break 'ops; }
                }
            }
            "reopen" => {
                if !st.can_reopen() { continue; }
                coq_ok = false;
                match guarded(move || st.reopen()) {
                    Err(p) => { failure = fail(format!("save/load panicked: {}", p)); st = Box::new(MemoryBlobStore::new()); break 'ops; }
                    Ok(Err(e)) => { failure = fail(format!("save/load failed: {}", e)); st = Box::new(MemoryBlobStore::new()); break 'ops; }
                    Ok(Ok(s2)) => { st = s2; cx.sum.dist("reopen_ops"); xt!(|x: &mut XTrace| { if spec == "plain" { x.push("PReopen".into(), "[1]%N".into()); } else { x.ok = false; } }); }
                }
                // a re-loaded store answers identically: sweep now
                let mut ids: Vec<RecordId> = ever.iter().copied().collect(); ids.sort();
                for id in ids { if let Some(m) = probe(st.bs_ref(), id, &shadow) { failure = fail(format!("after save/load: {}", m)); break 'ops; } }
                if st.bs_ref().len() != shadow.len() { failure = fail(format!("after save/load: len() = {} but {} records are live", st.bs_ref().len(), shadow.len())); break 'ops; }
            }
            // ---- secondary entry points: iteration, housekeeping, Clone, clear, retraining, re-wrapping, finalize ----
            "iter" => {
                // the store's own iteration lists exactly the live ids (each once, in any order) with their records
                match guarded(|| st.iter_ids_dyn()) {
                    Err(p) => { failure = fail(format!("iter_ids panicked: {}", p)); break 'ops; }
                    Ok(None) => continue,
                    Ok(Some(mut ids)) => {
                        cx.sum.dist("iter_ops");
                        ids.sort();
                        if ids.windows(2).any(|w| w[0] == w[1]) { failure = fail(format!("iter_ids lists an id twice: {:?}", ids)); break 'ops; }
                        let mut want: Vec<RecordId> = shadow.keys().copied().collect(); want.sort();
                        if ids != want { failure = fail(format!("iter_ids lists {:?} but the live ids are {:?}", ids, want)); break 'ops; }
                    }
                }
                match guarded(|| st.iter_blobs_dyn()) {
                    Err(p) => { failure = fail(format!("iter_blobs panicked: {}", p)); break 'ops; }
                    Ok(None) => {}
                    Ok(Some(Err(e))) => { failure = fail(e); break 'ops; }
                    Ok(Some(Ok(v))) => {
                        if v.len() != shadow.len() { failure = fail(format!("iter_blobs yields {} records but {} are live", v.len(), shadow.len())); break 'ops; }
                        let mut seen: HashSet<RecordId> = HashSet::new();
                        for (id, d) in &v {
                            if !seen.insert(*id) { failure = fail(format!("iter_blobs yields id {} twice", id)); break 'ops; }
                            if shadow.get(id) != Some(d) { failure = fail(format!("iter_blobs yields ({}, {}) but the shadow holds {:?}", id, hex(d), shadow.get(id).map(|x| hex(x)))); break 'ops; }
                        }
                    }
                }
                xt!(|x: &mut XTrace| x.absorb(&[], false));
            }
            "hk" => {
                let k = op[1].as_u64().unwrap_or(0);
                match guarded(|| st.housekeeping(k, &hk_dir)) {
                    Ok((name, neutral)) => { if name != "none" { cx.sum.dist(&format!("hk:{}", name)); } if !neutral { coq_ok = false; xt!(|x: &mut XTrace| x.ok = false); } }
                    // not a question the property asks; what it leaves behind is judged by the operations that follow
                    Err(_) => { cx.sum.dist("hk_panicked"); coq_ok = false; xt!(|x: &mut XTrace| x.ok = false); }
                }
                xt!(|x: &mut XTrace| x.absorb(&[], false));
            }
            "clone" => {
                let c = match guarded(|| st.clone_dyn()) { Err(p) => { failure = fail(format!("clone panicked: {}", p)); break 'ops; } Ok(None) => continue, Ok(Some(c)) => c };
                cx.sum.dist("clone_ops");
                if let Some((old, osh)) = snap.take() { if let Some(m) = sweep(old.bs_ref(), &ever, &osh) { failure = fail(format!("an earlier copy changed while the other copy was used: {}", m)); break 'ops; } }
                if let Some(m) = sweep(c.bs_ref(), &ever, &shadow) { failure = fail(format!("the copy made by clone() differs from the original: {}", m)); break 'ops; }
                // continue on the copy or on the original; the other one must keep today's content
                if op[1].as_u64().unwrap_or(0) % 2 == 1 { let orig = std::mem::replace(&mut st, c); snap = Some((orig, shadow.clone())); } else { snap = Some((c, shadow.clone())); }
                coq_ok = false;
            }
            "clear" => {
                let k = op[1].as_u64().unwrap_or(0);
                match guarded(|| st.clear_dyn(k, &hk_dir)) {
                    Err(p) => { failure = fail(format!("clear panicked: {}", p)); break 'ops; }
                    Ok(None) => continue,
                    Ok(Some(Err(e))) => { failure = fail(format!("the store's clearing operation failed: {}", e)); break 'ops; }
                    Ok(Some(Ok(name))) => { cx.sum.dist(&format!("clear:{}", name)); shadow.clear(); removed_any = true; coq_ok = false; xt!(|x: &mut XTrace| x.ok = false); }
                }
                let mut ids: Vec<RecordId> = ever.iter().copied().collect(); ids.sort();
                for id in ids { if let Some(m) = probe(st.bs_ref(), id, &shadow) { failure = fail(format!("after clearing: {}", m)); break 'ops; } }
            }
            "retrain" => {
                let k = op[1].as_u64().unwrap_or(0);
                match guarded(|| st.retrain_dyn(k)) {
                    Err(p) => { failure = fail(format!("retraining panicked: {}", p)); break 'ops; }
                    Ok(None) => continue,
                    Ok(Some(r)) => { cx.sum.dist(&format!("retrain:{}", r.unwrap_or("failed"))); coq_ok = false; xt!(|x: &mut XTrace| x.ok = false); }
                }
                // whatever was stored before must read back unchanged under the new codec state
                if let Some(m) = sweep(st.bs_ref(), &ever, &shadow) { failure = fail(format!("after retraining: {}", m)); break 'ops; }
            }
            "rewrap" => {
                let k = op[1].as_u64().unwrap_or(0);
                match guarded(move || st.rewrap(k)) {
                    Err(p) => { failure = fail(format!("into_inner / re-wrapping panicked: {}", p)); st = Box::new(MemoryBlobStore::new()); break 'ops; }
                    Ok(Err(e)) => { failure = fail(format!("re-wrapping failed: {}", e)); st = Box::new(MemoryBlobStore::new()); break 'ops; }
                    Ok(Ok((s2, name))) => { st = s2; if name != "none" { cx.sum.dist(&format!("rewrap:{}", name)); coq_ok = false; xt!(|x: &mut XTrace| x.ok = false);
                        if let Some(m) = sweep(st.bs_ref(), &ever, &shadow) { failure = fail(format!("after {}: {}", name, m)); break 'ops; } } }
                }
            }
            "finalize" => {
                match guarded(|| st.finalize_dyn()) {
                    Err(p) => { failure = fail(format!("finalize panicked: {}", p)); break 'ops; }
                    Ok(None) => continue,
                    // the bulk store behind it has the capacity limits of its offset index: a refusal is allowed, the store must go on working
                    Ok(Some(Err(_))) => { cx.sum.dist("finalize_refused"); coq_ok = false; xt!(|x: &mut XTrace| x.ok = false); }
                    Ok(Some(Ok(()))) => {
                        cx.sum.dist("finalize_ops"); finalized = true; coq_ok = false; xt!(|x: &mut XTrace| x.ok = false);
                        if !removed_any && !seeded {
                            match guarded(|| st.finalized_records()) {
                                Err(p) => { failure = fail(format!("reading the finalized bulk store panicked: {}", p)); break 'ops; }
                                Ok(Some(Err(e))) => { failure = fail(format!("the bulk store built by finalize(): {}", e)); break 'ops; }
                                Ok(Some(Ok(v))) => if v != all_put { failure = fail(format!("the bulk store built by finalize() holds {} records that are not the {} records put, in order", v.len(), all_put.len())); break 'ops; },
                                Ok(None) => {}
                            }
                        }
                    }
                }
                if let Some(m) = sweep(st.bs_ref(), &ever, &shadow) { failure = fail(format!("after finalize: {}", m)); break 'ops; }
            }
            _ => {}
        }
        // a refused operation changes nothing: every id ever issued (a window of them in the many-record histories), the id the
        // operation named, ids never issued, len() and the store's own iteration answer as the unchanged shadow says
        if let Some((what, named)) = refused {
            cx.sum.dist(&format!("refused_then_compared:{}", what));
            if k + 1 < ops.len() { cx.sum.dist("refused_mid_history"); }
            if let Some(m) = after_refusal(st.as_ref(), &named, &ever, &shadow) { failure = fail(format!("after the refused {}: {}", what, m)); break 'ops; }
        }
        // cheap global invariant after every operation
        match guarded(|| st.bs_ref().len()) {
            Ok(n) if n == shadow.len() => {}
            Ok(n) => { failure = fail(format!("afterwards len() = {} but {} records are live", n, shadow.len())); break 'ops; }
            Err(p) => { failure = fail(format!("len panicked: {}", p)); break 'ops; }
        }
    }
    if failure.is_none() {
        // final sweep: every id ever issued, plus ids never issued
        let mut ids: Vec<RecordId> = ever.iter().copied().collect();
        ids.sort();
        let mx = ids.last().copied().unwrap_or(0);
        for extra in [0u32, mx.wrapping_add(1), mx.wrapping_add(2), u32::MAX, u32::MAX - 1] { if !ever.contains(&extra) { ids.push(extra); } }
        for id in ids {
            if let Some(m) = probe(st.bs_ref(), id, &shadow) { failure = Some(format!("final sweep: {}", m)); break; }
        }
    }
    if failure.is_none() {
        if let Some((old, osh)) = snap.take() { if let Some(m) = sweep(old.bs_ref(), &ever, &osh) { failure = Some(format!("a copy made by clone() changed while the other copy was used: {}", m)); } }
    }
    cx.sum.dist(&format!("history_len_bucket={}", (ops.len() / 10) * 10));
    cx.sum.dist_max("max_live_records", shadow.len() as u64);
    if let Some(m) = &failure {
        let class = history_class(&spec, m);
        cx.sum.fail(&cell, class, case.clone(), m);
    } else if coq_ok && !coq_ops.is_empty() && (force_coq || cx.n_hist < cx.budget * 2 / 5) {
        cx.n_hist += 1;
        let term = format!("XOld (CMem [{}] [{}])", coq_ops.join("; "), obs.join("; "));
        cx.shards.push(term, case.clone());
    }
    if failure.is_none() {
        if let Some(x) = xt.as_ref() {
            if force_coq || (cx.n_xhist < cx.budget / 2 && (spec != "memory" || cx.n_xmem < cx.budget / 30)) {
                // the real directory of a PlainBlobStore at the end of the history
                let dir = if spec == "plain" { plain_dir.as_ref().and_then(|d| std::fs::read_dir(d).ok()).map(|rd| {
                    let mut v: Vec<(Vec<u8>, Vec<u8>)> = rd.filter_map(|e| e.ok()).map(|e| (e.file_name().to_string_lossy().as_bytes().to_vec(), std::fs::read(e.path()).unwrap_or_default())).collect();
                    v.sort(); v }) } else { None };
                if let Some(t) = x.term(&spec, dir) {
                    if t.len() < 60_000 { cx.n_xhist += 1; if spec == "memory" { cx.n_xmem += 1; } cx.sum.dist("coq_stack_history_cases"); cx.shards.push(t, case.clone()); }
                }
            }
        }
    }
    drop(st);
    if let Some(d) = plain_dir { let _ = std::fs::remove_dir_all(d); }
}

fn gen_idref(r: &mut Rng, n_issued: usize) -> Value {
    match r.below(12) {
        0 => json!({"raw": 0}),
        1 => json!({"raw": u32::MAX}),
        2 => json!({"i": n_issued + r.below(3) as usize}),          // never issued (just past the newest)
        3 => json!({"raw": r.below(40)}),
        _ => if n_issued == 0 { json!({"i": 0}) } else if r.chance(1, 3) { json!({"i": n_issued - 1 - r.below(n_issued.min(3) as u64) as usize}) } else { json!({"i": r.below(n_issued as u64)}) },
    }
}

fn gen_history(r: &mut Rng, spec: &str, max_ops: u64) -> Value { gen_history_sized(r, spec, max_ops, false) }
fn gen_history_sized(r: &mut Rng, spec: &str, max_ops: u64, small: bool) -> Value {
    let n = r.range(3, max_ops);
    let common = *r.pick(&[0u64, 1, 5, 16, 64, 100]);
    let gen_rec = |r: &mut Rng, common: u64| -> Value { if small { json!([r.below(6), *r.pick(&[0u64, 0, 1, 2, 3, 5, 5, 8, 13, 40]), r.below(100)]) } else { gen_rec(r, common) } };
    let zero = base_of(spec).starts_with("zero");
    let mut ops: Vec<Value> = vec![];
    let mut issued = 0usize;
    for _ in 0..n {
        match r.below(123) {
            0..=34 => { let rec = if zero && r.chance(5, 6) { json!([0, 0, 0]) } else { gen_rec(r, common) }; ops.push(json!(["put", rec])); issued += 1; }
            35..=42 => { let k = r.range(0, 5); let recs: Vec<Value> = (0..k).map(|_| if zero { json!([0, 0, 0]) } else { gen_rec(r, common) }).collect(); issued += k as usize; ops.push(json!(["batch", recs])); }
            43..=55 => ops.push(json!(["rm", gen_idref(r, issued)])),
            56..=59 => { let k = r.range(0, 4); let ids: Vec<Value> = (0..k).map(|_| gen_idref(r, issued)).collect();
                         // a record that was read (and so may sit in a cache) just before it is removed in a batch
                         if k > 0 && r.chance(1, 2) { ops.push(json!(["get", ids[0].clone()])); }
                         ops.push(json!(["rmb", ids])); }
            60..=75 => ops.push(json!(["get", gen_idref(r, issued)])),
            76..=79 => { let k = r.range(0, 4); let ids: Vec<Value> = (0..k).map(|_| gen_idref(r, issued)).collect(); ops.push(json!(["getb", ids])); }
            80..=85 => ops.push(json!(["has", gen_idref(r, issued)])),
            86..=91 => ops.push(json!(["size", gen_idref(r, issued)])),
            92..=96 => ops.push(json!(["len"])),
            97..=99 => ops.push(json!(["reopen"])),
            // secondary entry points, mixed into the history so that later operations read what they leave behind
            100..=105 => ops.push(json!(["iter"])),
            106..=113 => ops.push(json!(["hk", r.below(5000)])),
            _ if small => ops.push(json!(["get", gen_idref(r, issued)])),
            114 | 115 => ops.push(json!(["clone", r.below(2)])),
            116 => if r.chance(1, 2) { ops.push(json!(["clear", r.below(4)])) } else { ops.push(json!(["iter"])) },
            117 | 118 => ops.push(json!(["retrain", r.below(4)])),
            119 | 120 => ops.push(json!(["rewrap", r.below(6)])),
            _ => if r.chance(1, 2) { ops.push(json!(["finalize"])) } else { ops.push(json!(["hk", r.below(5000)])) },
        }
    }
    json!({"cell": spec, "kind": "history", "ops": ops})
}

/// Deterministic history with thousands of records: caches evict, maps grow, counters leave the small range; then the usual
/// operations on ids from the beginning, the middle and the end.
fn gen_bulk_history(spec: &str, n: u64, max_len: u64, salt: u64) -> Value {
    let n1 = n as usize;
    let mut ops: Vec<Value> = vec![json!(["put", [2, 30, salt]]), json!(["bulk", n, max_len, salt]), json!(["len"])];
    for k in [0usize, 1, n1 / 2, n1 - 1, n1, n1 + 1] { ops.push(json!(["get", {"i": k}])); }
    ops.push(json!(["rmb", [{"i": 1}, {"i": n1 / 2}, {"i": n1}]]));
    ops.push(json!(["hk", salt + 11]));
    ops.push(json!(["bulk", 70, max_len, salt + 1]));
    ops.push(json!(["iter"]));
    for k in [0usize, 1, 2, n1 / 2, n1 / 2 + 1, n1, n1 + 3, n1 + 70] { ops.push(json!(["get", {"i": k}])); }
    ops.push(json!(["rm", {"i": 0}]));
    ops.push(json!(["finalize"]));
    ops.push(json!(["getb", [{"i": 0}, {"i": 2}, {"i": n1 + 5}]]));
    ops.push(json!(["reopen"]));
    ops.push(json!(["len"]));
    json!({"cell": spec, "kind": "history", "ops": ops})
}

/// One scripted history per stack that goes through every secondary entry point the stack has, each followed by ordinary
/// operations that read what it left behind (operations a stack does not have are skipped by the runner).
fn gen_entry_history(r: &mut Rng, spec: &str, salt: u64) -> Value {
    let zero = base_of(spec).starts_with("zero");
    let mut rec = |r: &mut Rng| if zero { json!([0, 0, 0]) } else { json!([r.below(6), *r.pick(&[1u64, 3, 9, 17, 40, 64, 70, 200, 700]), r.below(1000)]) };
    let all = |ops: &mut Vec<Value>, n: usize| for k in 0..n { ops.push(json!(["get", {"i": k}])); };
    let mut ops: Vec<Value> = vec![];
    ops.push(json!(["put", rec(r)])); ops.push(json!(["put", rec(r)])); ops.push(json!(["batch", [rec(r), rec(r)]]));
    ops.push(json!(["get", {"i": 0}])); ops.push(json!(["hk", salt * 17 + 1])); ops.push(json!(["iter"]));
    ops.push(json!(["clone", 0])); ops.push(json!(["put", rec(r)])); ops.push(json!(["rm", {"i": 1}])); ops.push(json!(["hk", salt * 29 + 2])); all(&mut ops, 5);
    ops.push(json!(["clone", 1])); ops.push(json!(["put", rec(r)])); ops.push(json!(["retrain", salt])); all(&mut ops, 6);
    ops.push(json!(["put", rec(r)])); ops.push(json!(["rewrap", salt])); ops.push(json!(["put", rec(r)])); ops.push(json!(["getb", [{"i": 7}, {"i": 1}, {"i": 0}]]));
    ops.push(json!(["hk", salt * 31 + 8])); ops.push(json!(["hk", salt * 37 + 9])); ops.push(json!(["rmb", [{"i": 2}, {"i": 0}]])); ops.push(json!(["iter"])); all(&mut ops, 8);
    ops.push(json!(["hk", salt * 41 + 10])); ops.push(json!(["put", rec(r)])); ops.push(json!(["reopen"])); ops.push(json!(["retrain", salt + 1])); ops.push(json!(["put", rec(r)])); all(&mut ops, 10);
    ops.push(json!(["finalize"])); ops.push(json!(["put", rec(r)])); ops.push(json!(["rm", {"i": 3}])); all(&mut ops, 11); ops.push(json!(["iter"])); ops.push(json!(["len"]));
    ops.push(json!(["clear", salt])); ops.push(json!(["put", rec(r)])); ops.push(json!(["hk", salt * 43 + 5])); all(&mut ops, 12); ops.push(json!(["iter"])); ops.push(json!(["len"]));
    json!({"cell": spec, "kind": "history", "ops": ops})
}

/// Deterministic history of refused operations in the middle of ordinary ones: reads and removals of ids never issued / already
/// removed / 0 / MAX, a record the stack may refuse (non-empty over ZeroLength, empty over DictZip), writes after `finalize`;
/// the runner compares the store with the unchanged shadow after each refusal and the history goes on.
fn gen_refusal_history(spec: &str, salt: u64) -> Value {
    let zero = base_of(spec).starts_with("zero");
    let rec = |k: u64| if zero { json!([0, 0, 0]) } else { { let l = [1u64, 9, 30, 64, 200][((salt + k) % 5) as usize]; json!([(salt + k) % 6, l, salt * 7 + k]) } };
    let odd = if zero { json!([2, 5, salt]) } else { json!([0, 0, 0]) };
    let mut ops: Vec<Value> = vec![];
    ops.push(json!(["rm", {"i": 0}])); ops.push(json!(["get", {"raw": 0}]));
    ops.push(json!(["put", rec(0)])); ops.push(json!(["put", rec(1)])); ops.push(json!(["put", odd.clone()]));
    ops.push(json!(["get", {"i": 5}])); ops.push(json!(["rm", {"i": 7}])); ops.push(json!(["rm", {"raw": u32::MAX}])); ops.push(json!(["get", {"i": 1}]));
    ops.push(json!(["put", rec(2)])); ops.push(json!(["rm", {"i": 1}])); ops.push(json!(["rm", {"i": 1}])); ops.push(json!(["get", {"i": 1}])); ops.push(json!(["size", {"i": 1}]));
    ops.push(json!(["getb", [{"i": 0}, {"i": 9}, {"i": 1}]])); ops.push(json!(["rmb", [{"i": 9}]])); ops.push(json!(["get", {"i": 0}]));
    ops.push(json!(["batch", [rec(3), rec(4)]])); ops.push(json!(["put", odd.clone()])); ops.push(json!(["rm", {"raw": u32::MAX - 1}])); ops.push(json!(["hk", salt * 13 + 3])); ops.push(json!(["iter"]));
    ops.push(json!(["reopen"])); ops.push(json!(["rm", {"i": 1}])); ops.push(json!(["has", {"i": 12}])); ops.push(json!(["put", rec(5)])); ops.push(json!(["get", {"i": 2}]));
    ops.push(json!(["finalize"])); ops.push(json!(["put", rec(6)])); ops.push(json!(["rm", {"i": 0}])); ops.push(json!(["batch", [rec(7)]])); ops.push(json!(["put", odd])); ops.push(json!(["rm", {"i": 40}]));
    ops.push(json!(["get", {"i": 3}])); ops.push(json!(["put", rec(8)])); ops.push(json!(["iter"])); ops.push(json!(["len"]));
    json!({"cell": spec, "kind": "history", "ops": ops})
}
/// The keyed counterpart: keys beyond the 255-byte limit of the LOUDS strategy, removals of absent ids, writes after finalize.
fn gen_keyed_refusal(spec: &str, salt: u64) -> Value {
    let rec = |k: u64| { let l = [1u64, 5, 9, 30][((salt + k) % 4) as usize]; json!([(salt + k) % 6, l, salt * 5 + k]) };
    let long = |n: usize, b: u8| json!(vec![b; n]);
    let ops = vec![json!(["putk", long(256, 107), rec(0)]), json!(["rm", {"i": 0}]), json!(["putk", "ab", rec(1)]), json!(["putk", "abc", rec(2)]), json!(["putk", long(300, 97), rec(3)]),
        json!(["getk", "ab"]), json!(["putk", long(255, 107), rec(4)]), json!(["putk", long(256, 107), rec(5)]), json!(["prefix", "a"]), json!(["rm", {"i": 9}]), json!(["rm", {"raw": u32::MAX}]),
        json!(["putk", "ab", rec(6)]), json!(["rm", {"i": 0}]), json!(["rm", {"i": 0}]), json!(["getk", "ab"]), json!(["putk", long(1000, 98), rec(7)]), json!(["keys"]), json!(["put", rec(8)]),
        json!(["hask", long(256, 107)]), json!(["iter"]), json!(["finalize"]), json!(["putk", "zz", rec(9)]), json!(["putk", long(256, 107), rec(10)]), json!(["rm", {"i": 1}]), json!(["getk", "abc"]),
        json!(["putkb", [["k1", rec(11)]]]), json!(["kprefix", "a"]), json!(["len"])];
    json!({"cell": spec, "kind": "keyed", "ops": ops})
}

/// Deterministic history around the sizes at which something switches inside a store (2^12, 2^16, 2^20, the compression
/// threshold of the DictZip presets ...): records of exactly those lengths, compressible and not, mixed with the other operations.
fn gen_threshold_history(spec: &str, sizes: &[u64], salt: u64) -> Value {
    let mut ops: Vec<Value> = vec![];
    let mut n = 0usize;
    for (i, &sz) in sizes.iter().enumerate() {
        let kind = [4u64, 1, 2, 0, 3][(i + salt as usize) % 5];
        ops.push(json!(["put", [kind, sz, salt + i as u64]])); n += 1;
        if i % 3 == 1 { ops.push(json!(["batch", [[1, sz, salt + 50 + i as u64], [2, sz.saturating_sub(1), salt + 60 + i as u64]]])); n += 2; }
        if i % 4 == 2 { ops.push(json!(["hk", salt * 7 + i as u64])); ops.push(json!(["get", {"i": n - 1}])); }
    }
    ops.push(json!(["iter"]));
    for k in 0..n { ops.push(json!(["get", {"i": k}])); }
    ops.push(json!(["rm", {"i": n / 2}]));
    ops.push(json!(["hk", salt + 3]));
    ops.push(json!(["rmb", [{"i": 0}, {"i": n / 2}]]));
    ops.push(json!(["retrain", salt]));
    ops.push(json!(["rewrap", salt]));
    ops.push(json!(["put", [1, sizes[0], salt + 99]]));
    ops.push(json!(["getb", [{"i": 1}, {"i": n}, {"i": 0}]]));
    // (a bulk store behind the stack may refuse records of this size at finalize: the stack must go on working)
    ops.push(json!(["finalize"]));
    ops.push(json!(["put", [2, sizes[0] / 2, salt + 98]]));
    ops.push(json!(["get", {"i": n + 1}]));
    ops.push(json!(["reopen"]));
    ops.push(json!(["iter"]));
    ops.push(json!(["len"]));
    json!({"cell": spec, "kind": "history", "ops": ops})
}

// ---------------------------------------------------------------------------------------------
// bulk builders
// ---------------------------------------------------------------------------------------------
fn zo_config(name: &str) -> ZipOffsetBlobStoreConfig {
    // "preset" or "c<level>k<checksum>o<d|p|m>"
    match name {
        "default" => ZipOffsetBlobStoreConfig::default(),
        "perf" => ZipOffsetBlobStoreConfig::performance_optimized(),
        "comp" => ZipOffsetBlobStoreConfig::compression_optimized(),
        "sec" => ZipOffsetBlobStoreConfig::security_optimized(),
        s => {
            let b = s.as_bytes();
            let level = (b.get(1).copied().unwrap_or(b'0') - b'0') as u8;
            let ck = (b.get(3).copied().unwrap_or(b'0') - b'0') as u8;
            // the custom index configurations are written `c<l>k<k>x<log2>,<offset_width>,<sample_width>[,simd]` (the 'x' takes the place of the 'o')
            let oc = if b.get(4) == Some(&b'x') { b::suv_config(&s[5..]) } else { match b.get(5) { Some(b'p') => SortedUintVecConfig::performance_optimized(), Some(b'm') => SortedUintVecConfig::memory_optimized(), Some(b'x') => b::suv_config(&s[6..]), _ => SortedUintVecConfig::default() } };
            // 'x' configurations also flip the two switches no preset but security_optimized touches
            let plainer = b.get(4) == Some(&b'x') || b.get(5) == Some(&b'x');
            ZipOffsetBlobStoreConfig { compress_level: level, checksum_level: ck, offset_config: oc, use_secure_memory: !plainer, enable_simd: !plainer }
        }
    }
}

/// Is the builder entitled to refuse these records?  The offset index stores, per block of 2^log2 offsets,
/// the distance to the block's first offset in `offset_width` bits; a block spanning more cannot be represented
/// (a documented capacity limit of the configuration, reported as an error by finish()).
fn zo_capacity_exceeded(cfg: &ZipOffsetBlobStoreConfig, stored_lens: &[usize]) -> bool {
    let bs = 1usize << cfg.offset_config.log2_block_units;
    let mut offs = vec![0u64];
    for l in stored_lens { let last = *offs.last().unwrap(); offs.push(last + *l as u64); }
    for (i, o) in offs.iter().enumerate() {
        let base = offs[(i / bs) * bs];
        if o - base >= (1u64 << cfg.offset_config.offset_width) { return true; }
    }
    offs.last().copied().unwrap_or(0) >= (1u64 << cfg.offset_config.sample_width.min(63))
}

fn check_built(st: &dyn BlobStore, want: &[Vec<u8>], what: &str) -> Option<String> {
    let mut shadow: HashMap<RecordId, Vec<u8>> = HashMap::new();
    for (i, w) in want.iter().enumerate() { shadow.insert(i as RecordId, w.clone()); }
    match guarded(|| st.len()) {
        Ok(n) if n == want.len() => {}
        Ok(n) => return Some(format!("{}: len() = {} but {} records were added", what, n, want.len())),
        Err(p) => return Some(format!("{}: len panicked: {}", what, p)),
    }
    if guarded(|| st.is_empty()).ok() != Some(want.is_empty()) { return Some(format!("{}: is_empty disagrees with {} records", what, want.len())); }
    let n = want.len() as u32;
    let mut ids: Vec<u32> = (0..n).collect();
    ids.extend_from_slice(&[n, n.wrapping_add(1), n.wrapping_add(64), u32::MAX]);
    for id in ids {
        if let Some(m) = probe(st, id, &shadow) { return Some(format!("{}: {}", what, m)); }
    }
    None
}

/// memory_id_wraparound: the store was seeded (from_data) with an id so close to u32::MAX that the 32-bit id counter
/// reaches 2^32 within the puts of the case.
fn seeded_wraps(case: &Value) -> bool {
    let mx = case["ids"].as_array().map(|a| a.iter().map(|x| x.as_u64().unwrap_or(0)).max().unwrap_or(0)).unwrap_or(0);
    mx + 1 + case["puts"].as_u64().unwrap_or(3) > u32::MAX as u64
}

fn run_build(cx: &mut Ctx, case: &Value, _force_coq: bool) {
    let spec = case["cell"].as_str().unwrap_or("").to_string();
    let mut recs: Vec<Vec<u8>> = case["recs"].as_array().map(|a| a.iter().map(rec_bytes).collect()).unwrap_or_default();
    // many records are described, not spelled out: [n, max_len, seed]
    if let Some(g) = case.get("recs_gen") { recs = gen_many(g[0].as_u64().unwrap_or(0), g[1].as_u64().unwrap_or(1), g[2].as_u64().unwrap_or(0)); }
    let cell = format!("build/{}", spec);
    cx.sum.eval(&cell, &case.to_string(), recs.len() >= 2);
    cx.sum.dist(&format!("build_records_bucket={}", match recs.len() { 0 => "0", 1..=9 => "1-9", 10..=63 => "10-63", 64..=129 => "64-129", _ => "130+" }));
    let (kind, cfgname) = match spec.find(':') { Some(i) => (&spec[..i], &spec[i + 1..]), None => (&spec[..], "") };
    let mut failure: Option<String> = None;
    let mut coq_term: Option<String> = None;
    let small = recs.len() <= 140 && recs.iter().map(|d| d.len()).sum::<usize>() <= 1600;
    let recs_coq = format!("[{}]", recs.iter().map(|d| coq_bytes(d)).collect::<Vec<_>>().join("; "));
    let plain_env_dir = cx.env.dir.clone();
    let mut refused = false;
    b::COQ_OUT.with(|c| *c.borrow_mut() = None);
    let r = guarded(|| -> Option<String> {
        match kind {
            "zipoffset" | "zipoffset_batch" => {
                let cfg = zo_config(cfgname);
                let plan = case["plan"].as_u64().unwrap_or(0);
                // what each record occupies in the content section (record, compressed if configured, + 4 checksum bytes):
                // measured on a scratch builder, only to decide whether the capacity of the offset index may be exceeded
                let mut stored_lens = vec![];
                if cfg.compress_level == 0 { for d in &recs { stored_lens.push(d.len() + if cfg.checksum_level >= 2 { 4 } else { 0 }); } }
                else if kind == "zipoffset" {
                    for d in &recs { match ZipOffsetBlobStoreBuilder::with_config(cfg.clone()) { Ok(mut sb) => { let _ = sb.add_record(d); stored_lens.push(sb.content_size()); } Err(e) => return Some(format!("builder construction failed: {}", e)) } }
                }
                let store = if kind == "zipoffset" { b::build_zipoffset(&cfg, cfgname, &recs, plan) } else { b::build_zipoffset_batch(&cfg, cfgname, case["batch"].as_u64().unwrap_or(4) as usize, &recs, plan) };
                let store = match store { Ok(r) => r, Err(m) => return Some(m) };
                let store = match store {
                    Ok(s) => s,
                    Err(e) => {
                        refused = true;
                        if kind == "zipoffset" && zo_capacity_exceeded(&cfg, &stored_lens) {
                            if cfg.compress_level == 0 && small { coq_term = Some(format!("CZip {} {} false []", zcfg_coq(&cfg), recs_coq)); }
                            return None;
                        }
                        if kind == "zipoffset_batch" && cfg.compress_level == 0 && zo_capacity_exceeded(&cfg, &stored_lens) {
                            if small { coq_term = Some(format!("XBatch {} {} {} false []", zcfg_coq(&cfg), case["batch"].as_u64().unwrap_or(4), batch_ops_coq(&recs))); }
                            return None;
                        }
                        if kind == "zipoffset_batch" && cfg.compress_level > 0 && e.contains("too large") { return None; }
                        return Some(format!("finish() failed: {}", e));
                    }
                };
                if let Some(m) = check_built(&store, &recs, "built store") { return Some(m); }
                // save -> load -> identical answers
                let mut bytes: Vec<u8> = vec![];
                if let Err(e) = store.save_to_writer(&mut bytes) { return Some(format!("save_to_writer failed: {}", e)); }
                let loaded = match ZipOffsetBlobStore::load_from_reader(&mut &bytes[..]) { Ok(s) => s, Err(e) => return Some(format!("load_from_reader of the saved image failed: {}", e)) };
                if let Some(m) = check_built(&loaded, &recs, "after save->load") { return Some(m); }
                if kind == "zipoffset" && cfg.compress_level == 0 && small && bytes.len() <= 2600 {
                    coq_term = Some(format!("CZip {} {} true {}", zcfg_coq(&cfg), recs_coq, coq_bytes(&bytes)));
                }
                if kind == "zipoffset_batch" && cfg.compress_level == 0 && small && bytes.len() <= 2600 {
                    coq_term = Some(format!("XBatch {} {} {} true {}", zcfg_coq(&cfg), case["batch"].as_u64().unwrap_or(4), batch_ops_coq(&recs), coq_bytes(&bytes)));
                }
                // the loaded store goes through the secondary entry points as well (its configuration was rebuilt from the header)
                if plan % 2 == 1 { if let Some(m) = b::zipoffset_extras(loaded, &recs, plan / 2, &plain_env_dir) { return Some(format!("loaded store: {}", m)); } }
                b::zipoffset_extras(store, &recs, plan, &plain_env_dir)
            }
            "zipoffset_empty" => b::zipoffset_empty(&zo_config(cfgname), case["plan"].as_u64().unwrap_or(0)),
            "suv" => b::check_suv(b::suv_config(cfgname), &b::values_of(case, &recs), case["plan"].as_u64().unwrap_or(0)),
            "nlt_builder2" => b::nlt_builder_variant(cfgname, &recs, case["plan"].as_u64().unwrap_or(0)),
            "nlt_from" => b::nlt_build_from(cfgname, &recs, case["plan"].as_u64().unwrap_or(0)),
            "mixed" => {
                if recs.is_empty() && case["plan"].as_u64().unwrap_or(0) % 2 == 1 { let mut s = MixedLenBlobStore::default(); if let Some(m) = check_built(&s, &recs, "default()") { return Some(m); } return b::readonly_api(&mut s, &recs, "mixed default()"); }
                let store = if cfgname.is_empty() { MixedLenBlobStore::build_from(&recs) } else { MixedLenBlobStore::build_from_with_fixed_len(&recs, cfgname.parse().unwrap_or(0)) };
                match store {
                    Ok(mut s) => {
                        if let Some(m) = check_built(&s, &recs, "built store") { return Some(m); }
                        // the split the store reports: fixed + variable = n, is_fixed_length(i) exactly when record i has the fixed length
                        if s.fixed_count() + s.variable_count() != recs.len() { return Some(format!("fixed_count {} + variable_count {} != {} records", s.fixed_count(), s.variable_count(), recs.len())); }
                        for (i, d) in recs.iter().enumerate() { if s.is_fixed_length(i as RecordId) != (d.len() == s.fixed_len()) { return Some(format!("is_fixed_length({}) = {} but the record has {} bytes and the fixed length is {}", i, s.is_fixed_length(i as RecordId), d.len(), s.fixed_len())); } }
                        if s.is_fixed_length(recs.len() as RecordId) || s.is_fixed_length(u32::MAX) { return Some("is_fixed_length answers true past the end".into()); }
                        if let Some(m) = b::readonly_api(&mut s, &recs, "mixed") { return Some(m); }
                        let ms = s.memory_stats();
                        let _ = (ms.fixed_percentage(), ms.metadata_overhead_percent());
                        if small { coq_term = Some(format!("CMixed {} {} {} {} {}", s.fixed_len(), recs_coq, s.fixed_count(), ms.fixed_values_size, ms.var_values_size)); }
                        None
                    }
                    Err(e) => Some(format!("build_from failed: {}", e)),
                }
            }
            "zeroputs" => {
                let mut z = ZeroLengthBlobStore::new();
                let mut obs: Vec<String> = vec![];
                let mut n = 0usize;
                for d in &recs {
                    match z.put(d) {
                        Ok(id) => { if !d.is_empty() { return Some("a non-empty record was accepted".into()); } if id as usize != n { return Some(format!("put returned id {} want {}", id, n)); } n += 1; obs.push(format!("[1; {}]%N", id)); }
                        Err(_) => { if d.is_empty() { return Some("an empty record was refused".into()); } obs.push("[0]%N".into()); }
                    }
                }
                obs.push(format!("[{}]%N", z.len()));
                let empties: Vec<Vec<u8>> = vec![vec![]; n];
                if let Some(m) = check_built(&z, &empties, "after puts") { return Some(m); }
                if small { coq_term = Some(format!("CZero {} [{}]", recs_coq, obs.join("; "))); }
                None
            }
            "simplezip" => {
                let p: Vec<usize> = cfgname.split(',').filter_map(|x| x.parse().ok()).collect();
                let mut cfg = if p.len() >= 2 { SimpleZipConfig { min_frag_len: p[0], max_frag_len: p[1], delimiters: if p.len() > 2 { p[2..].iter().map(|&x| x as u8).collect() } else { vec![b'\n', b'\r', b'\t', b' '] } } } else { SimpleZipConfig::default() };
                let plan = case["plan"].as_u64().unwrap_or(0);
                if plan % 2 == 1 { match b::simplezip_config_via_builder(cfg.min_frag_len, cfg.max_frag_len, &cfg.delimiters) { Ok(c) => cfg = c, Err(e) => return if cfg.validate().is_err() { None } else { Some(format!("SimpleZipConfig::builder(): {}", e)) } } }
                if recs.is_empty() && plan % 4 >= 2 { let mut s = SimpleZipBlobStore::default(); if let Some(m) = check_built(&s, &recs, "default()") { return Some(m); } return b::readonly_api(&mut s, &recs, "simplezip default()"); }
                match SimpleZipBlobStore::build_from(&recs, &cfg) {
                    Err(_) if cfg.validate().is_err() => None,
                    Ok(_) if cfg.validate().is_err() => Some("build_from accepted a configuration that validate() rejects".into()),
                    Ok(mut s) => {
                        if let Some(m) = check_built(&s, &recs, "built store") { return Some(m); }
                        if let Some(m) = b::readonly_api(&mut s, &recs, "simplezip") { return Some(m); }
                        let _ = (s.memory_stats().space_saved_percent(), s.memory_stats().metadata_overhead_percent());
                        if small {
                            coq_term = Some(format!("CSimple {{| q_min := {}; q_max := {}; q_delims := {} |}} {} {} {}", cfg.min_frag_len, cfg.max_frag_len,
                                coq_bytes(&cfg.delimiters), recs_coq, s.memory_stats().strpool_size, s.num_unique_fragments()));
                        }
                        None
                    }
                    Err(e) => Some(format!("build_from failed: {}", e)),
                }
            }
            "zerofinish" => {
                let n = recs.len();
                let mut s = ZeroLengthBlobStore::finish(n);
                let empties: Vec<Vec<u8>> = vec![vec![]; n];
                if let Some(m) = check_built(&s, &empties, "finish(n)") { return Some(m); }
                // the finished store through a short history, also as a Coq case (ModelZeroFinish.v): reads around n, len, two puts
                // of the empty record (ids n and n + 1), the refused removal of an absent id
                let mut shadow: HashMap<RecordId, Vec<u8>> = (0..n as u32).map(|i| (i, vec![])).collect();
                let (mut cops, mut cobs): (Vec<String>, Vec<String>) = (vec![], vec![]);
                let mut reads = |s: &ZeroLengthBlobStore, shadow: &HashMap<RecordId, Vec<u8>>, cops: &mut Vec<String>, cobs: &mut Vec<String>, ids: &[u32]| -> Option<String> {
                    for &id in ids { if let Some(m) = probe(s, id, shadow) { return Some(format!("finish({}) then history: {}", n, m)); } cops.push(format!("XO (MQuery {})", id)); cobs.push(obs_of(shadow.get(&id))); }
                    None
                };
                let around = [0u32, (n as u32).wrapping_sub(1), n as u32, n as u32 + 1, u32::MAX];
                if let Some(m) = reads(&s, &shadow, &mut cops, &mut cobs, &around) { return Some(m); }
                cops.push("XO MLen".into()); cobs.push(format!("[{}]%N", s.len()));
                for k in 0..2u32 {
                    match s.put(&[]) { Ok(id) => { if id != n as u32 + k { return Some(format!("put after finish({}) returned id {}", n, id)); } shadow.insert(id, vec![]); cops.push("XO (MPut [])".into()); cobs.push(format!("[{}]%N", id)); }
                                       Err(e) => return Some(format!("put of an empty record after finish({}) failed: {}", n, e)) }
                }
                let absent = n as u32 + 7;
                let removed = s.remove(absent).is_ok();
                cops.push(format!("XO (MRemove {})", absent)); cobs.push(format!("[{}]%N", removed as u8));
                if let Some(m) = reads(&s, &shadow, &mut cops, &mut cobs, &[n as u32, n as u32 + 1, n as u32 + 2, absent]) { return Some(m); }
                cops.push("XO MLen".into()); cobs.push(format!("[{}]%N", s.len()));
                if s.len() != n + 2 { return Some(format!("len() = {} after finish({}) and two puts", s.len(), n)); }
                coq_term = Some(format!("XZeroFinish {} [{}] [{}]", n, cops.join("; "), cobs.join("; ")));
                None
            }
            "memory_from_data" => {
                let mut m: HashMap<RecordId, Vec<u8>> = HashMap::new();
                for (i, d) in recs.iter().enumerate() { m.insert(i as RecordId, d.clone()); }
                let mut s = MemoryBlobStore::from_data(m);
                if let Some(x) = check_built(&s, &recs, "from_data") { return Some(x); }
                // a put after bulk construction must not land on an existing id
                match s.put(b"x") { Ok(id) => if (id as usize) < recs.len() { return Some(format!("put after from_data reused live id {}", id)); }, Err(e) => return Some(format!("put failed: {}", e)) }
                // iteration of the seeded store, a copy, and clear(): empty, and ids start over without touching the copy
                let mut ids: Vec<RecordId> = s.iter_ids().collect(); ids.sort();
                if ids.len() != recs.len() + 1 || ids[..recs.len()] != (0..recs.len() as u32).collect::<Vec<_>>()[..] { return Some(format!("iter_ids of the seeded store lists {:?}", ids)); }
                let copy = s.clone();
                s.clear();
                if let Some(x) = check_built(&s, &[], "after clear()") { return Some(x); }
                match s.put(b"y") { Ok(id) => if s.get(id).ok().as_deref() != Some(&b"y"[..]) || s.len() != 1 { return Some("put after clear() does not read back".into()); }, Err(e) => return Some(format!("put after clear() failed: {}", e)) }
                let mut want2 = recs.clone(); want2.push(b"x".to_vec());
                if copy.len() != want2.len() { return Some(format!("the copy made before clear() has {} records, not {}", copy.len(), want2.len())); }
                for (i, d) in recs.iter().enumerate() { if copy.get(i as RecordId).ok().as_ref() != Some(d) { return Some(format!("the copy made before clear() lost record {}", i)); } }
                None
            }
            "memory_seeded" => {
                // from_data with explicit ids, then puts: a new id must never be the id of a live record
                let ids: Vec<u64> = case["ids"].as_array().map(|a| a.iter().map(|x| x.as_u64().unwrap_or(0)).collect()).unwrap_or_default();
                let mut m: HashMap<RecordId, Vec<u8>> = HashMap::new();
                for (id, d) in ids.iter().zip(recs.iter()) { m.insert(*id as RecordId, d.clone()); }
                let mut shadow = m.clone();
                // the same run as a Coq case (ModelFromData.v): the map in id order, the puts, a read of every id, a removal, len
                let mut seeded: Vec<(RecordId, Vec<u8>)> = m.iter().map(|(k, v)| (*k, v.clone())).collect(); seeded.sort();
                let seeded_coq = format!("[{}]", seeded.iter().map(|(k, v)| format!("({}, {})", k, coq_bytes(v))).collect::<Vec<_>>().join("; "));
                let (mut cops, mut cobs): (Vec<String>, Vec<String>) = (vec![], vec![]);
                let mut s = MemoryBlobStore::from_data(m);
                for k in 0..case["puts"].as_u64().unwrap_or(3) {
                    let d = vec![200u8, k as u8];
                    match s.put(&d) {
                        Ok(id) => { cops.push(format!("MPut {}", coq_bytes(&d))); cobs.push(format!("[{}]%N", id));
                                    if shadow.contains_key(&id) { if small { coq_term = Some(format!("XFromData {} [{}] [{}]", seeded_coq, cops.join("; "), cobs.join("; "))); } return Some(format!("put #{} returned id {} which is the id of a live record", k, id)); } shadow.insert(id, d); }
                        Err(e) => return Some(format!("put failed: {}", e)),
                    }
                }
                let mut all: Vec<RecordId> = shadow.keys().copied().collect(); all.sort();
                for id in all.iter().copied() { if let Some(x) = probe(&s, id, &shadow) { return Some(x); } }
                if s.len() != shadow.len() { return Some(format!("len() = {} but {} records are live", s.len(), shadow.len())); }
                let mut probes: Vec<RecordId> = all.clone();
                for extra in [0u32, all.last().copied().unwrap_or(0).wrapping_add(1), u32::MAX] { if !probes.contains(&extra) { probes.push(extra); } }
                for id in probes.iter().copied() { cops.push(format!("MQuery {}", id)); cobs.push(match s.get(id) { Ok(d) => { let mut v = vec!["1".to_string(), d.len().to_string()]; v.extend(d.iter().map(|x| x.to_string())); format!("[{}]%N", v.join("; ")) } Err(_) => "[0]%N".into() }); }
                cops.push("MLen".into()); cobs.push(format!("[{}]%N", s.len()));
                if let Some(first) = all.first().copied() {
                    // a seeded record can be removed like any other, and its id stays absent
                    let ok = s.remove(first).is_ok(); shadow.remove(&first);
                    cops.push(format!("MRemove {}", first)); cobs.push(format!("[{}]%N", ok as u8));
                    cops.push(format!("MQuery {}", first)); cobs.push(if s.get(first).is_ok() { "[1]%N".into() } else { "[0]%N".into() });
                    cops.push("MLen".into()); cobs.push(format!("[{}]%N", s.len()));
                    if let Some(x) = probe(&s, first, &shadow) { return Some(format!("after remove: {}", x)); }
                    if s.len() != shadow.len() { return Some(format!("after remove: len() = {} but {} records are live", s.len(), shadow.len())); }
                }
                if small && seeded.len() <= 40 { coq_term = Some(format!("XFromData {} [{}] [{}]", seeded_coq, cops.join("; "), cobs.join("; "))); }
                None
            }
            "plain_seeded" => {
                // PlainBlobStore::new on a directory that already holds record files (ids given), then puts: a new id must
                // never be the id of a live record; new() itself must not panic
                let ids: Vec<u64> = case["ids"].as_array().map(|a| a.iter().map(|x| x.as_u64().unwrap_or(0)).collect()).unwrap_or_default();
                let dir = format!("{}/plain_seeded_{}", plain_env_dir, case.to_string().len() ^ (ids.iter().sum::<u64>() as usize));
                let _ = std::fs::remove_dir_all(&dir);
                if std::fs::create_dir_all(&dir).is_err() { return Some("cannot create the directory".into()); }
                let mut shadow: HashMap<RecordId, Vec<u8>> = HashMap::new();
                let mut seeded: Vec<(Vec<u8>, Vec<u8>)> = vec![];
                for (id, d) in ids.iter().zip(recs.iter()) {
                    if std::fs::write(format!("{}/{}", dir, id), d).is_err() { return Some("cannot write a record file".into()); }
                    shadow.insert(*id as RecordId, d.clone());
                }
                for (id, d) in &shadow { seeded.push((format!("{}", id).into_bytes(), d.clone())); }
                seeded.sort();
                let res = (|| -> Option<String> {
                    let mut s = match guarded(|| PlainBlobStore::new(&dir)) {
                        Ok(Ok(s)) => s,
                        Ok(Err(e)) => return Some(format!("new() on a directory of record files failed: {}", e)),
                        Err(p) => { coq_term = Some(format!("XPlainOpen {} [] [[0]%N] []", coq_table(&seeded))); return Some(format!("new() on a directory of record files panicked: {}", p)); }
                    };
                    let mut all0: Vec<RecordId> = shadow.keys().copied().collect(); all0.sort();
                    for id in all0 { if let Some(x) = probe(&s, id, &shadow) { return Some(format!("after new(): {}", x)); } }
                    if s.len() != shadow.len() { return Some(format!("after new(): len() = {} but the directory holds {} records", s.len(), shadow.len())); }
                    let mut ops: Vec<String> = vec![]; let mut obs: Vec<String> = vec!["[1]%N".into()];
                    for k in 0..case["puts"].as_u64().unwrap_or(3) {
                        let d = vec![200u8, k as u8];
                        match s.put(&d) {
                            Ok(id) => { if shadow.contains_key(&id) { return Some(format!("put #{} returned id {} which is the id of a live record", k, id)); }
                                        ops.push(format!("PX (XO (MPut {}))", coq_bytes(&d))); obs.push(format!("[{}]%N", id)); shadow.insert(id, d); }
                            Err(e) => return Some(format!("put failed: {}", e)),
                        }
                    }
                    let mut all: Vec<RecordId> = shadow.keys().copied().collect(); all.sort();
                    for id in all { if let Some(x) = probe(&s, id, &shadow) { return Some(x); } }
                    if s.len() != shadow.len() { return Some(format!("len() = {} but {} records are live", s.len(), shadow.len())); }
                    let mut listing: Vec<(Vec<u8>, Vec<u8>)> = std::fs::read_dir(&dir).ok()?.filter_map(|e| e.ok()).map(|e| (e.file_name().to_string_lossy().as_bytes().to_vec(), std::fs::read(e.path()).unwrap_or_default())).collect();
                    listing.sort();
                    coq_term = Some(format!("XPlainOpen {} [{}] [{}] {}", coq_table(&seeded), ops.join("; "), obs.join("; "), coq_table(&listing)));
                    None
                })();
                let _ = std::fs::remove_dir_all(&dir);
                res
            }
            "nlt_builder" => {
                let cfg = match cfgname { "perf" => TrieBlobStoreConfig::performance_optimized(), "mem" => TrieBlobStoreConfig::memory_optimized(), "sec" => TrieBlobStoreConfig::security_optimized(), _ => TrieBlobStoreConfig::default() };
                let sorts = cfg.enable_batch_optimization;
                let mut b = match NestLoudsTrieBlobStoreBuilder::<RankSelectInterleaved256>::new(cfg) { Ok(b) => b, Err(e) => return Some(format!("builder construction failed: {}", e)) };
                let keys: Vec<Vec<u8>> = (0..recs.len()).map(|i| format!("k{:04}", (i * 7919) % 10007).into_bytes()).collect();
                for (k, d) in keys.iter().zip(recs.iter()) { if let Err(e) = b.add(k, d) { return Some(format!("add failed: {}", e)); } }
                let mut s = match b.finish() { Ok(s) => s, Err(e) => return Some(format!("finish failed: {}", e)) };
                for (k, d) in keys.iter().zip(recs.iter()) {
                    match s.get_by_key(k) { Ok(g) => if &g != d { return Some(format!("get_by_key({}) returned {} stored {}", String::from_utf8_lossy(k), hex(&g), hex(d))); }, Err(e) => return Some(format!("get_by_key({}) failed: {}", String::from_utf8_lossy(k), e)) }
                }
                // ids 0..n hold the records in some order: same multiset
                let mut got: Vec<Vec<u8>> = vec![];
                for i in 0..recs.len() { match s.get(i as RecordId) { Ok(g) => got.push(g), Err(e) => return Some(format!("get({}) failed: {}", i, e)) } }
                let mut want = recs.clone(); want.sort(); got.sort();
                if got != want { return Some("records under ids 0..n are not the records added".to_string()); }
                if s.len() != recs.len() { return Some(format!("len() = {} but {} records were added", s.len(), recs.len())); }
                if s.get(recs.len() as RecordId).is_ok() || s.contains(recs.len() as RecordId) { return Some("id n reported present".into()); }
                coq_term = b::nltb_coq_case(sorts, &keys, &recs, &mut s);
                None
            }
            _ => Some(format!("unknown build cell {}", kind)),
        }
    });
    match r { Ok(x) => failure = x, Err(p) => failure = Some(format!("panicked: {}", p)) }
    if coq_term.is_none() && failure.is_none() { coq_term = b::COQ_OUT.with(|c| c.borrow_mut().take()); }
    if refused { cx.sum.dist(&format!("builder_refusals:{}", kind)); }
    if let Some(m) = failure {
        let class = if kind == "memory_seeded" && seeded_wraps(case) { Some("memory_id_wraparound") } else if kind == "plain_seeded" && seeded_wraps(case) { Some("plain_id_wraparound") } else { None };
        cx.sum.fail(&cell, class, case.clone(), &m);
        // the model predicts the panic of new() as well
        if let (Some(t), true) = (coq_term, (kind == "plain_seeded" || kind == "memory_seeded") && class.is_some()) { cx.shards.push(t, case.clone()); }
    } else if let Some(t) = coq_term {
        if _force_coq || cx.shards.len() < cx.budget { cx.shards.push(if t.starts_with('X') { t } else { format!("XOld ({})", t) }, case.clone()); }
    }
}

/// the add_record / flush_batch calls the batch-builder helper made, as a `list bop`
fn batch_ops_coq(recs: &[Vec<u8>]) -> String {
    b::BATCH_OPS.with(|o| format!("[{}]", o.borrow().iter().map(|x| match x { Some(i) => format!("BAdd {}", coq_bytes(&recs[*i])), None => "BFlush".to_string() }).collect::<Vec<_>>().join("; ")))
}

fn zcfg_coq(c: &ZipOffsetBlobStoreConfig) -> String {
    format!("{{| z_cl := {}; z_ck := {}; z_log2 := {}; z_ow := {}; z_sw := {}; z_simd := {} |}}", c.compress_level, c.checksum_level,
        c.offset_config.log2_block_units, c.offset_config.offset_width, c.offset_config.sample_width, c.offset_config.use_simd as u8)
}

fn gen_records(r: &mut Rng, allow_big: bool) -> Vec<Value> {
    let n = match r.below(10) { 0 => 0, 1 => 1, 2 => *r.pick(&[63u64, 64, 65]), 3 => *r.pick(&[127u64, 128, 129, 130]), 4 => r.range(190, 260), _ => r.range(2, 40) };
    let common = *r.pick(&[0u64, 1, 4, 8, 16, 33]);
    let style = r.below(6);
    (0..n).map(|i| match style {
        0 => json!([r.below(5), common, r.below(50)]),                              // all equal length
        1 => json!([r.below(5), if r.chance(1, 2) { common } else { r.below(40) }, r.below(50)]),
        2 => json!([2, r.below(200), r.below(20)]),                                  // text with shared fragments
        3 if allow_big => json!([r.below(5), if i % 9 == 0 { r.range(900, 1300) } else { r.below(30) }, r.below(50)]),
        4 => json!([0, if r.chance(1, 3) { 0 } else { r.below(3) }, r.below(4)]),    // many empty / tiny
        _ => gen_rec(r, common),
    }).collect()
}

/// a key in a case: a string, or a list of byte values (keys that are not text)
fn key_bytes(v: &Value) -> Vec<u8> {
    match v { Value::String(s) => s.as_bytes().to_vec(), Value::Array(a) => a.iter().map(|x| x.as_u64().unwrap_or(0) as u8).collect(), _ => vec![] }
}
fn gen_key(r: &mut Rng, wide: bool, long: bool) -> Value {
    if wide && r.chance(1, 4) {
        // bytes that are no text, a zero byte inside, a key of 300 bytes, keys that are prefixes of each other
        match r.below(8) { 0 => json!([0]), 1 => json!([255]), 2 => json!([0, 0]), 3 => json!([255, 254, 0]), 4 => json!([107, 0, 49]), 5 if long => json!(vec![107u8; 300]), 6 if long => json!(vec![107u8; 256]), 5 | 6 => json!(vec![107u8; 255]), _ => json!(vec![107u8; 254]) }
    } else { json!(*r.pick(&KEYS[..])) }
}
const KEYS: [&str; 14] = ["", "a", "ab", "abc", "abd", "b", "ba", "k1", "k10", "k2", "key", "keyed", "z", "zz"];
fn gen_keyed(r: &mut Rng, spec: &str) -> Value {
    let n = r.range(4, 40);
    let mut ops: Vec<Value> = vec![];
    let mut issued = 0usize;
    for _ in 0..n {
        let key = gen_key(r, spec.ends_with('+'), true);
        match r.below(if spec.ends_with('+') { 126 } else { 100 }) {
            0..=39 => { ops.push(json!(["putk", key, gen_rec(r, 5)])); issued += 1; }
            40..=44 => { ops.push(json!(["put", gen_rec(r, 5)])); issued += 1; }
            45..=59 => ops.push(json!(["rm", gen_idref(r, issued)])),
            60..=79 => ops.push(json!(["getk", key])),
            80..=89 => ops.push(json!(["prefix", *r.pick(&["", "a", "ab", "k", "k1", "ke", "z", "q"])])),
            90..=95 => ops.push(json!(["get", gen_idref(r, issued)])),
            96..=99 => ops.push(json!(["len"])),
            // the rest of the keyed API
            100..=107 => ops.push(json!(["hask", key])),
            108..=111 => { let k = r.range(0, 4); let ents: Vec<Value> = (0..k).map(|_| json!([gen_key(r, true, false), gen_rec(r, 5)])).collect(); issued += k as usize; ops.push(json!(["putkb", ents])); }
            112..=114 => ops.push(json!(["keys"])),
            115..=117 => ops.push(json!(["kprefix", *r.pick(&["", "a", "ab", "k", "k1", "ke", "z", "q"])])),
            118..=120 => ops.push(json!(["iter"])),
            121..=123 => ops.push(json!(["hk", r.below(5000)])),
            _ => if r.chance(1, 3) { ops.push(json!(["finalize"])) } else { ops.push(json!(["hask", key])) },
        }
    }
    json!({"cell": spec, "kind": "keyed", "ops": ops})
}

/// Keyed API of NestLoudsTrieBlobStore: put_with_key / get_by_key / get_by_prefix next to the id API.
fn run_keyed(cx: &mut Ctx, case: &Value) {
    let spec = case["cell"].as_str().unwrap_or("nlt_keyed:default").to_string();
    let cell = format!("history/{}", spec);
    let ops: Vec<Value> = case["ops"].as_array().cloned().unwrap_or_default();
    cx.sum.eval(&cell, &case.to_string(), ops.len() >= 3);
    let cfg = match spec.split(':').nth(1).unwrap_or("").trim_end_matches('+') {
        "perf" => TrieBlobStoreConfig::performance_optimized(), "mem" => TrieBlobStoreConfig::memory_optimized(), "sec" => TrieBlobStoreConfig::security_optimized(),
        // a two-entry key cache (evicts on every third key), statistics and batch optimisation off
        "cache2" => match TrieBlobStoreConfig::builder().key_cache_size(2).statistics(false).batch_optimization(false).key_compression(false).build() { Ok(c) => c, Err(e) => { cx.sum.fail(&cell, None, case.clone(), &format!("config builder failed: {}", e)); return; } },
        "nocache" => match TrieBlobStoreConfig::builder().key_cache_size(0).build() { Ok(c) => c, Err(e) => { cx.sum.fail(&cell, None, case.clone(), &format!("config builder failed: {}", e)); return; } },
        _ => TrieBlobStoreConfig::default() };
    let hk_dir = cx.env.dir.clone();
    let mut hk_names: Vec<&'static str> = vec![];
    let r = guarded(|| -> Option<String> {
        let mut st = match Nt::new(cfg) { Ok(s) => s, Err(e) => return Some(format!("construction failed: {}", e)) };
        let mut finalized = false;
        let mut shadow: HashMap<RecordId, Vec<u8>> = HashMap::new();
        let mut key_of: HashMap<RecordId, Vec<u8>> = HashMap::new();
        let mut latest: HashMap<Vec<u8>, RecordId> = HashMap::new();   // key -> id of the most recent put under it
        let mut issued: Vec<RecordId> = vec![];
        for (k, op) in ops.iter().enumerate() {
            let at = |m: String| Some(format!("op #{} {}: {}", k, op, m));
            // Some(keys): the operation was refused; the store (ids, keys, len) is compared with the unchanged reference at once
            let mut refused: Option<Vec<Vec<u8>>> = None;
            match op[0].as_str().unwrap_or("") {
                "putk" | "put" => {
                    let keyed = op[0] == "putk";
                    let key: Vec<u8> = if keyed { key_bytes(&op[1]) } else { vec![] };
                    let data = rec_bytes(if keyed { &op[2] } else { &op[1] });
                    let res = if keyed { st.put_with_key(&key, &data) } else { st.put(&data) };
                    match res {
                        Ok(id) => {
                            if shadow.contains_key(&id) { return at(format!("returned id {} which is the id of another live record", id)); }
                            shadow.insert(id, data); issued.push(id);
                            if keyed { key_of.insert(id, key.clone()); latest.insert(key, id); }
                        }
                        // the LOUDS strategy documents a key limit of 255 bytes: longer keys may be refused (nothing is stored then)
                        Err(e) => { if !finalized && key.len() <= 255 { return at(format!("put refused: {}", e)); } refused = Some(if keyed { vec![key.clone()] } else { vec![] }); }
                    }
                }
                "putkb" => {
                    // put_batch_with_keys: one fresh id per entry, in order
                    let ents: Vec<(Vec<u8>, Vec<u8>)> = op[1].as_array().map(|a| a.iter().map(|e| (key_bytes(&e[0]), rec_bytes(&e[1]))).collect()).unwrap_or_default();
                    match st.put_batch_with_keys(ents.clone()) {
                        Ok(ids) => {
                            if ids.len() != ents.len() { return at(format!("put_batch_with_keys of {} entries returned {} ids", ents.len(), ids.len())); }
                            for (id, (key, data)) in ids.iter().zip(ents.into_iter()) {
                                if shadow.contains_key(id) { return at(format!("returned id {} which is the id of another live record", id)); }
                                shadow.insert(*id, data); issued.push(*id); key_of.insert(*id, key.clone()); latest.insert(key, *id);
                            }
                        }
                        // (a refused batch is judged on the ids and keys the reference knows; the batch is not required to be atomic)
                        Err(e) => { if !finalized && !ents.is_empty() { return at(format!("put_batch_with_keys refused: {}", e)); } if finalized { refused = Some(vec![]); } }
                    }
                }
                "rm" => {
                    let id = resolve(&op[1], &issued);
                    let live = shadow.contains_key(&id);
                    match st.remove(id) { Ok(()) => { shadow.remove(&id); } Err(e) => { if live && !finalized { return at(format!("remove({}) of a live record failed: {}", id, e)); } refused = Some(vec![]); } }
                }
                "hask" => {
                    let key = key_bytes(&op[1]);
                    let got = st.contains_key(&key);
                    let any_live = key_of.iter().any(|(id, kk)| *kk == key && shadow.contains_key(id));
                    match latest.get(&key) {
                        Some(id) if shadow.contains_key(id) => if !got { return at(format!("contains_key is false but record {} put under the key is live", id)); },
                        _ => if got && !any_live { return at("contains_key is true but no live record was put under the key".to_string()); },
                    }
                }
                "keys" | "kprefix" => {
                    let p: Vec<u8> = if op[0] == "keys" { vec![] } else { key_bytes(&op[1]) };
                    let got = match if op[0] == "keys" { st.keys() } else { st.keys_with_prefix(&p) } { Ok(v) => v, Err(e) => return at(format!("key listing failed: {}", e)) };
                    for kk in &got { if !kk.starts_with(&p) { return at(format!("key listing returned {:?} without the prefix", String::from_utf8_lossy(kk))); } }
                    for (kk, id) in &latest {
                        if kk.starts_with(&p) && shadow.contains_key(id) && !got.contains(kk) { return at(format!("key listing misses key {:?} whose record {} is live", String::from_utf8_lossy(kk), id)); }
                    }
                }
                "iter" => {
                    let mut ids: Vec<RecordId> = st.iter_ids().collect(); ids.sort();
                    let mut want: Vec<RecordId> = shadow.keys().copied().collect(); want.sort();
                    if ids != want { return at(format!("iter_ids lists {:?} but the live ids are {:?}", ids, want)); }
                    for x in st.iter_blobs() { match x { Ok((id, d)) => if shadow.get(&id) != Some(&d) { return at(format!("iter_blobs yields ({}, {}) which is not the live record", id, hex(&d))); }, Err(e) => return at(format!("iter_blobs yielded an error: {}", e)) } }
                }
                "hk" => { let (n, _) = DynStore::housekeeping(&mut st, op[1].as_u64().unwrap_or(0), &hk_dir); hk_names.push(n); }
                "finalize" => {
                    // afterwards the store is read-only: writes may be refused, every read answers as before
                    if st.finalize().is_ok() { finalized = true; }
                    for id in issued.clone() { if let Some(m) = probe(&st, id, &shadow) { return at(format!("after finalize: {}", m)); } }
                }
                "get" => { let id = resolve(&op[1], &issued); if let Some(m) = probe(&st, id, &shadow) { return at(m); } }
                "len" => { if st.len() != shadow.len() { return at(format!("len() = {} but {} records are live", st.len(), shadow.len())); } }
                "getk" => {
                    let key = key_bytes(&op[1]);
                    let got = st.get_by_key(&key);
                    // records put under this key that are still live
                    let live_same: Vec<&Vec<u8>> = key_of.iter().filter(|(id, kk)| **kk == key && shadow.contains_key(id)).map(|(id, _)| &shadow[id]).collect();
                    match latest.get(&key) {
                        None => if let Ok(d) = got { return at(format!("get_by_key of a key never put returned {} bytes", d.len())); },
                        Some(id) if shadow.contains_key(id) => match got {
                            Ok(d) => if d != shadow[id] { return at(format!("get_by_key returned {} but the latest record put under the key is {}", hex(&d), hex(&shadow[id]))); },
                            Err(e) => return at(format!("get_by_key failed ({}) but record {} put under the key is live", e, id)),
                        },
                        Some(_) => if let Ok(d) = got { if !live_same.iter().any(|x| **x == d) { return at(format!("get_by_key returned {} which belongs to no live record put under the key", hex(&d))); } },
                    }
                }
                "prefix" => {
                    let p = key_bytes(&op[1]);
                    let got = match st.get_by_prefix(&p) { Ok(v) => v, Err(e) => return at(format!("get_by_prefix failed: {}", e)) };
                    for (kk, d) in &got {
                        if !kk.starts_with(&p) { return at(format!("get_by_prefix returned key {:?} without the prefix", String::from_utf8_lossy(kk))); }
                        let unkeyed_live = shadow.iter().any(|(id, dd)| !key_of.contains_key(id) && dd == d);
                        let ok = unkeyed_live || key_of.iter().any(|(id, k2)| k2 == kk && shadow.get(id) == Some(d));
                        if !ok { return at(format!("get_by_prefix returned ({:?}, {}) which is no live record put under that key", String::from_utf8_lossy(kk), hex(d))); }
                    }
                    for (kk, id) in &latest {
                        if kk.starts_with(&p) && shadow.contains_key(id) {
                            match got.iter().find(|(k2, _)| k2 == kk) {
                                Some((_, d)) => if *d != shadow[id] { return at(format!("get_by_prefix maps key {:?} to {} but the latest live record is {}", String::from_utf8_lossy(kk), hex(d), hex(&shadow[id]))); },
                                None => return at(format!("get_by_prefix misses key {:?} whose record {} is live", String::from_utf8_lossy(kk), id)),
                            }
                        }
                    }
                }
                _ => {}
            }
            if let Some(rkeys) = refused {
                // nothing changed: every id issued so far, ids never issued, every key with a live latest record, the refused key itself
                let mut ids = issued.clone(); ids.push(issued.len() as u32 + 5); ids.push(u32::MAX);
                for id in ids { if let Some(m) = probe(&st, id, &shadow) { return at(format!("after the refused operation: {}", m)); } }
                for (kk, id) in &latest {
                    if !shadow.contains_key(id) { continue; }
                    match st.get_by_key(kk) {
                        Ok(d) => if d != shadow[id] { return at(format!("after the refused operation: get_by_key({:?}) returned {} but the latest record put under the key is {}", String::from_utf8_lossy(kk), hex(&d), hex(&shadow[id]))); },
                        Err(e) => return at(format!("after the refused operation: get_by_key({:?}) failed ({}) but record {} put under the key is live", String::from_utf8_lossy(kk), e, id)),
                    }
                    if !st.contains_key(kk) { return at(format!("after the refused operation: contains_key({:?}) is false but record {} is live", String::from_utf8_lossy(kk), id)); }
                }
                for rk in &rkeys {
                    let any_live = key_of.iter().any(|(id, kk)| kk == rk && shadow.contains_key(id));
                    if !any_live && st.contains_key(rk) { return at(format!("after the refused put_with_key: contains_key is true for the refused {}-byte key", rk.len())); }
                    if !latest.contains_key(rk) { if let Ok(d) = st.get_by_key(rk) { return at(format!("after the refused put_with_key: get_by_key of the refused {}-byte key returned {} bytes", rk.len(), d.len())); } }
                }
                let mut got: Vec<RecordId> = st.iter_ids().collect(); got.sort();
                let mut want: Vec<RecordId> = shadow.keys().copied().collect(); want.sort();
                if got != want { return at(format!("after the refused operation: iter_ids lists {:?} but the live ids are {:?}", got, want)); }
            }
            if st.len() != shadow.len() { return at(format!("afterwards len() = {} but {} records are live", st.len(), shadow.len())); }
        }
        let mut ids = issued.clone(); ids.push(issued.len() as u32 + 5); ids.push(u32::MAX);
        for id in ids { if let Some(m) = probe(&st, id, &shadow) { return Some(format!("final sweep: {}", m)); } }
        None
    });
    let failure = match r { Ok(x) => x, Err(p) => Some(format!("panicked: {}", p)) };
    for n in hk_names { cx.sum.dist(&format!("hk:{}", n)); }
    if let Some(m) = failure {
        // nlt_trie_enumeration: the failing operation is a prefix query that misses a stored key, or a remove that
        // cannot restore the key from the trie node - both answered by ZiporaTrie (keys_with_prefix / restore_string, property C05)
        let class = if (m.contains("[\"prefix\"") && m.contains("get_by_prefix misses key")) || (m.contains("[\"rm\"") && m.contains("Could not restore key")) { Some("nlt_trie_enumeration") } else { None };
        cx.sum.fail(&cell, class, case.clone(), &m);
    }
}

fn run_case(cx: &mut Ctx, case: &Value, force: bool) {
    match case["kind"].as_str().unwrap_or("history") {
        "keyed" => run_keyed(cx, case),
        "build" => run_build(cx, case, force),
        _ => run_history(cx, case, force),
    }
}

/// PlainBlobStore histories with many close + reopen steps (small records)
fn gen_plain_reopen(r: &mut Rng) -> Value {
    let n = r.range(5, 22);
    let mut ops: Vec<Value> = vec![];
    let mut issued = 0usize;
    let rec = |r: &mut Rng| json!([r.below(5), *r.pick(&[0u64, 0, 1, 2, 3, 5, 8, 13]), r.below(100)]);
    for _ in 0..n {
        match r.below(100) {
            0..=31 => { ops.push(json!(["put", rec(r)])); issued += 1; }
            32..=38 => { let k = r.range(0, 4); let recs: Vec<Value> = (0..k).map(|_| rec(r)).collect(); issued += k as usize; ops.push(json!(["batch", recs])); }
            39..=58 => ops.push(json!(["rm", if issued > 0 && r.chance(2, 3) { json!({"i": issued - 1 - r.below(issued.min(2) as u64) as usize}) } else { gen_idref(r, issued) }])),
            59..=62 => { let k = r.range(0, 4); let ids: Vec<Value> = (0..k).map(|_| gen_idref(r, issued)).collect(); ops.push(json!(["rmb", ids])); }
            63..=78 => ops.push(json!(["reopen"])),
            79..=88 => ops.push(json!(["get", gen_idref(r, issued)])),
            89..=92 => { let k = r.range(0, 4); let ids: Vec<Value> = (0..k).map(|_| gen_idref(r, issued)).collect(); ops.push(json!(["getb", ids])); }
            _ => ops.push(json!(["len"])),
        }
    }
    json!({"cell": "plain", "kind": "history", "ops": ops})
}

const HISTORY_CELLS: [&str; 34] = [
    "memory", "memory", "memory_cap", "plain", "zstd1/memory", "zstd3/memory", "zstd19/memory", "zstd3/plain",
    "huffman/memory", "huffman_t/memory", "rans/memory", "rans_t/memory", "dict/memory", "dict_t/memory",
    "cached_wt/memory", "cached_wb/memory", "cached_wa/memory", "cached_mem/memory", "cached_sec/memory", "cached_off/memory",
    "zstd3/cached_wt/memory", "cached_wt/zstd3/memory", "huffman_t/zstd3/memory", "zstd3/huffman_t/memory", "cached_wb/huffman_t/memory",
    "zero", "nlt", "nlt_perf", "nlt_mem", "nlt_sec", "dictzip_default", "dictzip_small10", "dictzip_text", "dictzip_huff1",
];
const HISTORY_CELLS_MORE: [&str; 6] = ["dictzip_binary", "dictzip_log", "dictzip_realtime", "dictzip_huff4", "dictzip_fse", "rans_t/zstd1/plain"];
/// Oracle breadth: constructors, presets and options the first rounds never built a store with.
const HISTORY_CELLS_BREADTH: [&str; 54] = [
    "dictzip_bfss", "dictzip_bfzo", "dictzip_bffl",
    "memory_default", "memory_fd", "memory_fd0", "zstd3_typed", "plain_new", "plain_over", "zero_default", "zero_finish",
    "zstd0/memory", "zstdneg/memory", "zstd22/memory", "zstd99/memory", "rans/zero",
    "cached_new/memory", "cached_perf/memory", "cached_default/memory", "cached_shared/memory", "cached_shared_wb/memory", "cached_shared_wa/memory",
    "zstd3/cached_shared_wb/memory", "cached_new/huffman/memory", "huffman/zstd3/memory", "cached_wa/plain_b", "huffman_t/dictzip_small10", "zstd1/nlt",
    "nlt_default", "nlt_cfgb", "nlt_nocache", "nlt_new",
    "dictzip_new", "dictzip_tuned", "dictzip_mb1", "dictzip_file", "dictzip_extdict", "dictzip_fromdict", "dictzip_bfts", "dictzip_bfts_fast", "dictzip_bfts_q", "dictzip_bfv8",
    "dictzip_huff0", "dictzip_huff2", "dictzip_huff8", "dictzip_huff_r08", "dictzip_fse4", "dictzip_fse_r08", "dictzip_cache1", "dictzip_cache2", "dictzip_pool", "dictzip_mcs1",
    "cached_off/zstd3/memory", "dict_t/huffman_t/memory",
];
const PAGE: [u64; 4] = [4095, 4096, 4097, 8192];
const P16: [u64; 4] = [65535, 65536, 65537, 16384];
const P16_20: [u64; 5] = [65535, 65536, 65537, 1 << 20, (1 << 20) + 1];
/// (stack, record sizes): 2^12 (page of the page cache), 2^16, 2^20, and the compression threshold of each DictZip preset
const THRESHOLD_CELLS: [(&str, &[u64]); 37] = [
    ("plain_new", &P16_20), ("dictzip_default", &[1 << 20, 65536, 1 << 17]), ("zstd22/memory", &[(1 << 17) - 1, 1 << 17, (1 << 17) + 1]),
    ("memory", &P16_20), ("zstd1/memory", &P16_20), ("zstd3_typed", &P16_20), ("zstd19/memory", &P16), ("huffman/memory", &P16_20), ("huffman_t/memory", &P16_20),
    ("rans_t/memory", &P16_20), ("dict_t/memory", &P16), ("cached_wt/memory", &PAGE), ("cached_wb/memory", &P16_20), ("cached_wa/memory", &PAGE), ("cached_shared_wb/memory", &PAGE),
    ("cached_mem/memory", &P16), ("cached_sec/memory", &PAGE), ("cached_perf/memory", &P16), ("zstd3/cached_wt/memory", &P16), ("cached_wb/huffman_t/memory", &P16), ("plain", &P16), ("zstd3/plain", &P16),
    ("nlt", &P16), ("nlt_perf", &PAGE), ("nlt_mem", &PAGE), ("nlt_cfgb", &P16),
    ("dictzip_default", &[63, 64, 65, 4096]), ("dictzip_text", &[31, 32, 33, 4097]), ("dictzip_binary", &[127, 128, 129, 8192]), ("dictzip_log", &[15, 16, 17, 4095]),
    ("dictzip_realtime", &[255, 256, 257, 65536]), ("dictzip_small10", &[9, 10, 11, 65535]), ("dictzip_huff1", &[9, 10, 11, 4096]), ("dictzip_fse", &[9, 10, 11, 65537]),
    ("dictzip_mcs1", &[1, 2, 1024, 16384]), ("dictzip_cache1", &[9, 10, 11, 1023]), ("dictzip_bfts", &[15, 16, 17, 4096]),
];
const BUILD_CELLS_BREADTH: [&str; 38] = [
    "zipoffset:c0k0x4,8,16", "zipoffset:c0k2x5,10,20", "zipoffset:c0k0x8,32,64", "zipoffset:c1k2x4,12,24", "zipoffset:c0k3x7,9,57,0", "zipoffset_batch:perf", "zipoffset_batch:c0k0x4,8,16", "zipoffset_batch:sec",
    "zipoffset_empty:default", "zipoffset_empty:perf", "zipoffset_empty:c0k0x4,8,16",
    "suv:default", "suv:perf", "suv:mem", "suv:4,8,16", "suv:8,32,64", "suv:5,13,57,0", "suv:6,16,32,0", "suv:7,20,40,0",
    "nlt_builder2:default", "nlt_builder2:perf", "nlt_builder2:mem", "nlt_builder2:sec",
    "nlt_from:sortable", "nlt_from:zosorted", "nlt_from:fixedlen", "nlt_from:vec_u8", "nlt_from:slice_u8", "nlt_from:kv",
    "simplezip:1,1", "simplezip:8,256", "simplezip:1,1048576,10", "simplezip:0,5", "simplezip:9,8", "simplezip:1,1048577", "simplezip:2,6,0,255",
    "mixed:1000", "mixed:1",
];
/// (stack, number of records, longest record): 2^16 + 1 records where a record is cheap, thousands elsewhere - more than the read
/// cache of DictZip (64 entries), the key cache of the trie store (256 ... 4096 keys), the page cache (256 KiB) hold
const BULK_CELLS: [(&str, u64, u64); 16] = [
    ("memory", 65537, 6), ("memory_cap", 5000, 300), ("zero", 65537, 0), ("zstd1/memory", 5000, 120), ("huffman_t/memory", 5000, 120), ("rans_t/memory", 5000, 40),
    ("cached_wt/memory", 5000, 300), ("cached_wb/memory", 5000, 300), ("cached_shared_wb/memory", 3000, 500), ("zstd3/cached_wt/memory", 3000, 200),
    ("nlt", 4500, 20), ("nlt_mem", 600, 20), ("nlt_cfgb", 1200, 20), ("dictzip_small10", 1500, 90), ("dictzip_cache1", 300, 90), ("plain", 300, 50),
];
const MODELLED_STACKS: [&str; 30] = [
    "memory", "memory_cap", "plain", "zero", "zstd1/memory", "zstd3/memory", "zstd19/memory", "zstd3/plain",
    "huffman/memory", "huffman_t/memory", "rans/memory", "rans_t/memory", "dict/memory", "dict_t/memory",
    "cached_wt/memory", "cached_wb/memory", "cached_wa/memory", "cached_mem/memory", "cached_sec/memory", "cached_off/memory",
    "zstd3/cached_wt/memory", "cached_wt/zstd3/memory", "huffman_t/zstd3/memory", "zstd3/huffman_t/memory", "cached_wb/huffman_t/memory",
    "rans_t/zstd1/plain", "dictzip_default", "dictzip_small10", "dictzip_huff1", "dictzip_fse",
];
const BUILD_CELLS: [&str; 27] = [
    "zipoffset:default", "zipoffset:perf", "zipoffset:comp", "zipoffset:sec", "zipoffset:c0k0od", "zipoffset:c0k2od", "zipoffset:c0k3om",
    "zipoffset:c0k1op", "zipoffset:c1k0om", "zipoffset:c3k2op", "zipoffset:c0k0om", "zipoffset:c0k2op",
    "zipoffset_batch:default", "zipoffset_batch:c0k0od", "zipoffset_batch:c0k2od",
    "mixed", "mixed:0", "mixed:4", "mixed:16", "simplezip", "simplezip:1,20,10", "simplezip:4,8,32", "simplezip:3,3",
    "zerofinish", "memory_from_data", "nlt_builder", "zeroputs",
];

pub fn run(args: &Args) {
    let mut cx = Ctx {
        sum: Summary::new("C03", "operation histories (put/put_batch/remove/remove_batch/get/get_batch/contains/size/len/save-load and the secondary entry points of each store: iteration, housekeeping calls, Clone, clear, retraining, re-wrapping, finalize; 3..60 ops, scripted entry-point, threshold-size and many-record histories, ids drawn from issued/removed/never-issued/0/MAX; records empty, 1 byte, equal-length, 4 KiB compressible, incompressible, lengths around 64/128/256/4096) over every store type and wrapper stack, judged against a shadow map; bulk builders (record counts around the offset-index block sizes 64/128) read back in full, then saved, loaded and read back again; a case is non-trivial when it has >=3 operations or >=2 records; distinct = distinct canonical case text"),
        shards: CoqShards::new(HEADER, 300),
        budget: if args.thorough { 6000 } else { 1200 },
        n_hist: 0,
        n_xhist: 0,
        n_xmem: 0,
        env: Env { dir: args.out.clone(), n: 0, initial: vec![] },
    };
    cx.sum.max_failures = 300;
    if let Some(f) = &args.replay {
        let txt = std::fs::read_to_string(f).expect("replay file");
        let v: Value = serde_json::from_str(&txt).expect("replay json");
        let c = if v.get("case").is_some() { v["case"].clone() } else { v };
        run_case(&mut cx, &c, true);
        let sh = cx.shards.write(&args.out);
        cx.sum.write(&args.out, sh);
        return;
    }
    // 1. corpus
    if let Ok(rd) = std::fs::read_dir("corpus/C03") {
        let mut files: Vec<_> = rd.filter_map(|e| e.ok()).map(|e| e.path()).filter(|p| p.extension().map(|x| x == "json").unwrap_or(false)).collect();
        files.sort();
        for p in files {
            if let Ok(txt) = std::fs::read_to_string(&p) {
                if let Ok(v) = serde_json::from_str::<Value>(&txt) {
                    let c = if v.get("case").is_some() { v["case"].clone() } else { v };
                    run_case(&mut cx, &c, true);
                    cx.sum.dist("corpus_cases");
                }
            }
        }
    }
    let mut rng = Rng::new(args.seed);
    // 2. histories over every stack
    let rounds = if args.thorough { 60 } else { 7 };
    let mut cells: Vec<&str> = HISTORY_CELLS.to_vec();
    cells.extend_from_slice(&HISTORY_CELLS_MORE);
    for round in 0..rounds {
        for spec in &cells {
            let slow = spec.contains("plain") || spec.starts_with("dictzip") || spec.starts_with("nlt");
            if slow && !args.thorough && round >= 3 { continue; }
            let max_ops = if spec.contains("plain") { 25 } else { 60 };
            let c = gen_history(&mut rng, spec, max_ops);
            if round == 0 && cx.sum.samples.len() < 3 { cx.sum.sample(json!({"cell": spec, "ops": c["ops"].as_array().map(|a| a.iter().take(6).cloned().collect::<Vec<_>>())})); }
            run_case(&mut cx, &c, false);
        }
    }
    // 2b. the other constructors, presets and options of every store type (oracle breadth): same histories
    for round in 0..(if args.thorough { 24 } else { 2 }) {
        for spec in HISTORY_CELLS_BREADTH.iter() {
            let slow = spec.contains("plain") || spec.starts_with("dictzip") || spec.starts_with("nlt");
            let c = gen_history(&mut rng, spec, if slow { 30 } else { 50 });
            run_case(&mut cx, &c, false);
            let _ = round;
        }
    }
    // 2b'. one scripted pass through every secondary entry point, per stack
    for salt in 0..(if args.thorough { 12u64 } else { 2 }) {
        let mut all_cells: Vec<&str> = cells.clone();
        all_cells.extend_from_slice(&HISTORY_CELLS_BREADTH);
        for spec in all_cells { let c = gen_entry_history(&mut rng, spec, salt + args.seed % 13); run_case(&mut cx, &c, false); cx.sum.dist("entry_point_histories"); }
    }
    // 2b''. refused operations in the middle of a history, per stack: the store is compared with the unchanged shadow after each
    for salt in 0..(if args.thorough { 6u64 } else { 1 }) {
        let mut all_cells: Vec<&str> = cells.clone();
        all_cells.extend_from_slice(&HISTORY_CELLS_BREADTH);
        for spec in all_cells {
            let c = if spec.starts_with("nlt_keyed") { gen_keyed_refusal(spec, salt + args.seed % 11) } else { gen_refusal_history(spec, salt + args.seed % 11) };
            run_case(&mut cx, &c, false); cx.sum.dist("refusal_histories");
        }
    }
    // 2c. deterministic histories with records of exactly the sizes at which something switches
    for (i, (spec, sizes)) in THRESHOLD_CELLS.iter().enumerate() {
        let c = gen_threshold_history(spec, sizes, (args.seed % 7) + i as u64);
        run_case(&mut cx, &c, false);
        cx.sum.dist("threshold_histories");
    }
    // 2c'. the entropy stage of DictZip under every algorithm / interleave factor: many short compressible records (the stage is
    //      kept only when it shrinks the PA-Zip output, which short text does now and then), each read back at once and at the end
    for (i, spec) in ["dictzip_huff0", "dictzip_huff1", "dictzip_huff2", "dictzip_huff4", "dictzip_huff8", "dictzip_huff_r08", "dictzip_fse", "dictzip_fse4", "dictzip_fse_r08"].iter().enumerate() {
        let mut ops: Vec<Value> = vec![];
        for k in 0..(if args.thorough { 160u64 } else { 48 }) {
            let len = 10 + (k * 7 + args.seed) % 53;
            let kind = [5u64, 2, 5, 4, 5, 0][(k % 6) as usize];
            // every 8th record is long and literal-heavy (two-symbol / counting bytes the dictionary does not know): the stage pays off there too
            let (kind, len) = if k % 8 == 5 { ([4u64, 3, 4, 0][(k / 8 % 4) as usize], 300 + (k * 131 + args.seed * 7) % 4000) } else { (kind, len) };
            ops.push(json!(["put", [kind, len, 600 + k * 13 + i as u64 + args.seed % 97]]));
            if k % 4 == 3 { ops.push(json!(["get", {"i": k as usize}])); }
        }
        ops.push(json!(["iter"]));
        run_case(&mut cx, &json!({"cell": spec, "kind": "history", "ops": ops}), false);
        cx.sum.dist("entropy_stage_histories");
    }
    // 2d. histories with thousands of records
    for (i, (spec, n, max_len)) in BULK_CELLS.iter().enumerate() {
        let c = gen_bulk_history(spec, *n, *max_len, (args.seed % 5) + i as u64);
        run_case(&mut cx, &c, false);
        cx.sum.dist("bulk_histories");
    }
    // extra volume on the modelled cell
    for _ in 0..(if args.thorough { 3000 } else { 450 }) {
        let c = gen_history_sized(&mut rng, "memory", 40, true);
        run_case(&mut cx, &c, false);
    }
    // 3. bulk builders
    let rounds = if args.thorough { 120 } else { 24 };
    for round in 0..rounds {
        for spec in BUILD_CELLS.iter() {
            let big = spec.starts_with("zipoffset");
            let recs = gen_records(&mut rng, big);
            let mut c = json!({"cell": spec, "kind": "build", "recs": recs});
            if spec.starts_with("zipoffset_batch") { c["batch"] = json!(*rng.pick(&[1u64, 2, 3, 4, 7])); }
            // every other round drives the builder / the built store through its secondary entry points as well
            if round % 2 == 1 { c["plan"] = json!(rng.range(1, 1000)); }
            run_case(&mut cx, &c, false);
        }
    }
    // 3a'. oracle breadth: custom offset-index configurations, empty stores, SortedUintVec used directly, the other builders and
    //      constructors of the trie store, invalid and extreme SimpleZip configurations
    for round in 0..(if args.thorough { 60 } else { 6 }) {
        for spec in BUILD_CELLS_BREADTH.iter() {
            let recs = if spec.starts_with("nlt") { let mut v = gen_records(&mut rng, false); v.truncate(48); v } else { gen_records(&mut rng, spec.starts_with("zipoffset")) };
            let mut c = json!({"cell": spec, "kind": "build", "recs": recs, "plan": rng.below(1000)});
            if spec.starts_with("zipoffset_batch") { c["batch"] = json!(*rng.pick(&[0u64, 1, 2, 5, 64])); }
            if spec.starts_with("suv") { c["base"] = json!(*rng.pick(&[0u64, 0, 1, 65533, (1 << 16) + 1, (1 << 24) - 40, (1u64 << 32) - 7, 1u64 << 40, (1u64 << 57) - 100, u64::MAX - 100000])); c["drop_first"] = json!(rng.chance(1, 4)); }
            run_case(&mut cx, &c, false);
            let _ = round;
        }
    }
    // 3a''. sizes at which an internal width switches: 256-bit rank blocks and 8/16-bit offset widths of MixedLenBlobStore,
    //       fragment counts 2^8 / 2^16 of SimpleZipBlobStore (one-byte fragments), the sample width of a custom offset index
    for n in [255u64, 256, 257, 511, 513, 1025] {
        let recs: Vec<Value> = (0..n).map(|i| json!([3, if i % 3 == 0 { 2 } else { i % 5 }, i])).collect();
        for spec in ["mixed", "mixed:2", "simplezip:1,1"] { run_case(&mut cx, &json!({"cell": spec, "kind": "build", "recs": recs, "plan": n}), false); cx.sum.dist("width_switch_cases"); }
    }
    for total in [255u64, 256, 257, 65535, 65536, 65537] {
        // variable-length bytes (MixedLen, fixed length 3) / fragments (SimpleZip, one byte each) adding up to exactly `total`
        let recs = vec![json!([3, 3, 1]), json!([1, total - 9, total]), json!([3, 3, 2]), json!([4, 9, 5]), json!([0, 0, 0]), json!([3, 3, 3])];
        for spec in ["mixed:3", "mixed", "simplezip:1,1", "simplezip:1,2,97"] { run_case(&mut cx, &json!({"cell": spec, "kind": "build", "recs": recs, "plan": total}), false); cx.sum.dist("width_switch_cases"); }
    }
    // 3e. record counts of 2^12 .. 2^16 + 1 (thousands of index blocks, multi-level rank directories, 17-bit boundaries)
    for (spec, n, max_len) in [("zipoffset:c0k0od", 65537u64, 3u64), ("zipoffset:default", 4097, 40), ("zipoffset:perf", 16385, 9), ("zipoffset:c0k2om", 8193, 5), ("zipoffset_batch:c0k0od", 8191, 7),
                               ("mixed", 65537, 3), ("mixed:2", 20001, 4), ("simplezip", 65537, 12), ("simplezip:1,1", 20000, 5), ("suv:default", 65537, 200), ("suv:perf", 40000, 3000), ("suv:4,8,16", 4000, 15),
                               ("zerofinish", 65537, 0), ("zeroputs", 5000, 0), ("memory_from_data", 65537, 5), ("nlt_builder2:perf", 3000, 12), ("nlt_builder", 1500, 12)] {
        let mut c = json!({"cell": spec, "kind": "build", "recs_gen": [n, max_len, (args.seed % 11) + n], "plan": n + args.seed % 3});
        if spec.starts_with("zipoffset_batch") { c["batch"] = json!(100); }
        run_case(&mut cx, &c, false);
        cx.sum.dist("many_record_builds");
    }
    // 3e'. the trie store's builder with every key added three times: 48 .. 600 entries (beyond the sizes a sort handles by insertion)
    for (spec, n) in [("nlt_builder2:default", 48u64), ("nlt_builder2:perf", 96), ("nlt_builder2:sec", 200), ("nlt_builder2:mem", 64), ("nlt_builder2:default", 600)] {
        for plan in [8u64, 9, 12] {
            run_case(&mut cx, &json!({"cell": spec, "kind": "build", "recs_gen": [n, 9, (args.seed % 11) + n], "plan": plan}), false);
            cx.sum.dist("nlt_builder_duplicate_keys");
        }
    }
    // 3e''. the two builders with a mechanism model (ModelBatch.v, ModelNltb.v), always evaluated inside Coq: the batch builder
    //       under batch sizes 0 / 1 / 2 / 3 / 64 / 100 with and without explicit flush_batch calls (empty records included), a
    //       refusal of finish() reached through the batch path, and the trie store's builder with every key added three times
    //       under all four presets through finish / finish_with_progress / sort_entries
    for (ci, cfgname) in ["c0k0om", "c0k2od", "c0k0x4,8,16", "default"].iter().enumerate() {
        for (bi, bsz) in [0u64, 1, 2, 3, 64, 100].iter().enumerate() {
            let n = 5 + 3 * bi as u64 + ci as u64;
            let recs: Vec<Value> = (0..n).map(|i| json!([if i % 4 == 1 { 0 } else { 3 }, (i * 5 + ci as u64) % 11, i + 40 * bi as u64])).collect();
            for plan in [0u64, 2 + 4 * (bi as u64 + 7 * ci as u64)] {
                run_case(&mut cx, &json!({"cell": format!("zipoffset_batch:{}", cfgname), "kind": "build", "recs": recs, "batch": bsz, "plan": plan}), true);
                cx.sum.dist("modelled_batch_builder_cases");
            }
        }
    }
    for bsz in [0u64, 2, 4, 64] {
        // 16-unit blocks with 8-bit deltas: the span of the first block exceeds 255 -> finish() refuses, also through the batch path
        let recs: Vec<Value> = (0..7u64).map(|i| json!([3, 50 + i, i])).collect();
        run_case(&mut cx, &json!({"cell": "zipoffset_batch:c0k0x4,8,16", "kind": "build", "recs": recs, "batch": bsz, "plan": 6 * bsz}), true);
        cx.sum.dist("modelled_batch_builder_cases");
    }
    for (spec, n) in [("nlt_builder2:default", 30u64), ("nlt_builder2:perf", 45), ("nlt_builder2:sec", 60), ("nlt_builder2:mem", 64), ("nlt_builder2:mem", 27)] {
        for plan in [8u64, 13, 24, 3] {
            run_case(&mut cx, &json!({"cell": spec, "kind": "build", "recs_gen": [n, 7, (args.seed % 11) + n + plan], "plan": plan}), true);
            cx.sum.dist("modelled_nlt_builder_cases");
        }
    }
    for (cfgname, sw, bsz) in [("c0k0x4,32,16", 16u32, 16usize), ("c0k2x4,32,16", 16, 16), ("c0k0x5,24,20", 20, 32)] {
        let extra = if cfgname.as_bytes()[3] == b'2' { 4usize } else { 0 };
        for target in [(1usize << sw) - 1, 1 << sw, (1 << sw) + 1] {
            // `bsz` records whose stored lengths add up to `target`: the first offset of the second block is `target`
            let each = target / bsz;
            let mut recs: Vec<Value> = (0..bsz - 1).map(|k| json!([1, each - extra, k])).collect();
            recs.push(json!([4, target - each * (bsz - 1) - extra, 77]));
            recs.push(json!([3, 2, 7])); recs.push(json!([0, 0, 0]));
            run_case(&mut cx, &json!({"cell": format!("zipoffset:{}", cfgname), "kind": "build", "recs": recs, "plan": target as u64}), false);
            let vals: Vec<Value> = (0..bsz).map(|k| json!([0, each, k])).collect();
            run_case(&mut cx, &json!({"cell": format!("suv:{}", &cfgname[5..]), "kind": "build", "recs": vals, "base": target - each * bsz, "plan": target as u64}), false);
            cx.sum.dist("sample_width_boundary_cases");
        }
    }
    // 3b. enumerated boundary family of the offset index: a block whose span is 2^offset_width - 1, exactly 2^offset_width,
    //     and one more, reached at the 2nd / 3rd / last offset of a block, at the first offset of the next block, and by the
    //     end offset; with and without the 4-byte record checksum
    for (cfgname, w, b) in [("c0k0om", 12u32, 64usize), ("c0k2om", 12, 64), ("c0k0od", 16, 64), ("c0k2od", 16, 64), ("c0k0op", 20, 128), ("c3k0om", 12, 64)] {
        let extra = if cfgname.as_bytes()[3] == b'2' { 4usize } else { 0 };
        for target in [(1usize << w) - 1, 1 << w, (1 << w) + 1] {
            for pos in [1usize, 2, b - 1, b, b + 1] {
                if w == 20 && !args.thorough && pos > 2 { continue; }
                // `pos` records whose stored lengths add up to `target`, then two small ones
                let small = 3usize;
                let mut recs: Vec<Value> = vec![];
                let small_stored = small + extra;
                if (pos - 1) * small_stored + extra > target { continue; }
                for k in 0..pos - 1 { recs.push(json!([3, small, k])); }
                recs.push(json!([1, target - (pos - 1) * small_stored - extra, pos]));
                recs.push(json!([3, 2, 7]));
                recs.push(json!([0, 0, 0]));
                let c = json!({"cell": format!("zipoffset:{}", cfgname), "kind": "build", "recs": recs});
                run_case(&mut cx, &c, false);
                cx.sum.dist("offset_index_boundary_cases");
            }
        }
    }
    // 3c. SimpleZipBlobStore with fragment lengths beyond 16 bits (max_frag_len may be configured up to 1 MiB): records made of
    //     delimiter-free runs of 65535 / 65536 / 65537 / 70000 / 131073 bytes ('a'/'b' only; the delimiter is '\n'),
    //     alone, repeated (pool de-duplication) and between small records
    for spec in ["simplezip:1,70000,10", "simplezip:1,1048576,10", "simplezip:65536,131072,10"] {
        for (k, &n) in [65535usize, 65536, 65537, 70000, 131073].iter().enumerate() {
            if !args.thorough && spec.ends_with("131072,10") && k % 2 == 1 { continue; }
            let recs = vec![json!([2, 40, k]), json!([4, n, k + 1]), json!([0, 0, 0]), json!([4, n, k + 1]), json!([4, n / 2, k + 2]), json!([3, 5, 9])];
            let c = json!({"cell": spec, "kind": "build", "recs": recs});
            run_case(&mut cx, &c, false);
            cx.sum.dist("simplezip_long_fragment_cases");
        }
    }
    // 4. stores seeded with explicit ids (from_data), incl. ids next to u32::MAX
    for _ in 0..(if args.thorough { 400 } else { 40 }) {
        let n = rng.range(1, 5);
        let base: u64 = match rng.below(6) { 0 => 0, 1 => 1, 2 => rng.below(100000), 3 => 1 << 31, 4 => u32::MAX as u64 - n - rng.below(6), _ => rng.below(u32::MAX as u64 - 10) };
        let mut ids: Vec<u64> = (0..n).map(|i| (base + i * rng.range(1, 3)).min(u32::MAX as u64)).collect();
        ids.dedup();
        if rng.chance(1, 3) { ids.insert(0, 1); ids.dedup(); }
        let recs: Vec<Value> = ids.iter().map(|_| json!([1, rng.below(6), rng.below(100)])).collect();
        let c = json!({"cell": "memory_seeded", "kind": "build", "ids": ids, "recs": recs, "puts": rng.range(1, 4)});
        run_case(&mut cx, &c, false);
    }
    // 4b. PlainBlobStore opened on a directory that already holds record files, incl. names next to u32::MAX
    for _ in 0..(if args.thorough { 200 } else { 24 }) {
        let n = rng.range(1, 5);
        let base: u64 = match rng.below(6) { 0 => 0, 1 => 1, 2 => rng.below(100000), 3 => 1 << 31, 4 => u32::MAX as u64 - n - rng.below(6), _ => rng.below(u32::MAX as u64 - 10) };
        let mut ids: Vec<u64> = (0..n).map(|i| (base + i * rng.range(1, 3)).min(u32::MAX as u64)).collect();
        ids.dedup();
        if rng.chance(1, 3) { ids.insert(0, 1); ids.dedup(); }
        let recs: Vec<Value> = ids.iter().map(|_| json!([1, rng.below(6), rng.below(100)])).collect();
        let c = json!({"cell": "plain_seeded", "kind": "build", "ids": ids, "recs": recs, "puts": rng.range(1, 4)});
        run_case(&mut cx, &c, false);
    }
    // 5. keyed histories on the trie store
    for round in 0..(if args.thorough { 400 } else { 80 }) {
        let spec = ["nlt_keyed:default", "nlt_keyed:perf", "nlt_keyed:mem", "nlt_keyed:sec"][round % 4];
        let c = gen_keyed(&mut rng, spec);
        run_case(&mut cx, &c, false);
    }
    // 5b. the rest of the keyed API (contains_key, put_batch_with_keys, keys, keys_with_prefix, iteration, finalize), also with a
    //     two-entry key cache and without one ('+' = the wider operation mix)
    for round in 0..(if args.thorough { 600 } else { 60 }) {
        let spec = ["nlt_keyed:default+", "nlt_keyed:perf+", "nlt_keyed:mem+", "nlt_keyed:sec+", "nlt_keyed:cache2+", "nlt_keyed:nocache+"][round % 6];
        let c = gen_keyed(&mut rng, spec);
        run_case(&mut cx, &c, false);
    }
    // 5c. refused keyed operations (over-long keys, absent ids, writes after finalize) in the middle of a keyed history
    for (i, spec) in ["nlt_keyed:default+", "nlt_keyed:perf+", "nlt_keyed:mem+", "nlt_keyed:sec+", "nlt_keyed:cache2+", "nlt_keyed:nocache+"].iter().enumerate() {
        let c = gen_keyed_refusal(spec, i as u64 + args.seed % 11);
        run_case(&mut cx, &c, false); cx.sum.dist("refusal_histories_keyed");
    }
    // 6. small-record histories on every stack that has a mechanism model: each becomes a Coq case of the whole stack
    //    (observations of every operation, what the innermost store ends up holding, the directory of a PlainBlobStore)
    for round in 0..(if args.thorough { 60 } else { 12 }) {
        for spec in MODELLED_STACKS.iter() {
            if (spec.contains("plain") || spec.starts_with("dictzip")) && !args.thorough && round >= 6 { continue; }
            let max_ops = if spec.contains("plain") { 20 } else { 36 };
            let c = gen_history_sized(&mut rng, spec, max_ops, true);
            run_case(&mut cx, &c, false);
        }
    }
    for _ in 0..(if args.thorough { 400 } else { 40 }) {
        let c = gen_plain_reopen(&mut rng);
        run_case(&mut cx, &c, false);
    }
    cx.sum.dist_max("coq_cases", cx.shards.len() as u64);
    for (cell, _) in cx.sum.cells.clone() {
        let modelled = cell.strip_prefix("history/").map(|sp| xmodel_of(sp).is_some()).unwrap_or(false) || cell.starts_with("build/zipoffset:c0") || cell.starts_with("build/zipoffset_batch:c0") || cell.starts_with("build/nlt_builder") || cell == "build/memory_seeded" || cell.starts_with("build/mixed") || cell.starts_with("build/simplezip") || cell == "build/zeroputs" || cell == "build/zerofinish" || cell == "build/plain_seeded";
        if !modelled { cx.sum.cell_status(&cell, "S-only"); }
    }
    let sh = cx.shards.write(&args.out);
    cx.sum.write(&args.out, sh);
}
