//! C01 oracle breadth: secondary entry points, presets / options, thresholds and object histories of the entropy codecs.
//!
//! Everything here is judged by the one oracle of C01 (an encoder that returned bytes => the matching decoder returns the
//! payload; a panic of a constructor / encoder / decoder is a violation) on the real code, with no Coq counterpart: the cells
//! `wide/...` are S-only.  What is new is *where* the oracle looks:
//!   w_h0     one HuffmanEncoder / HuffmanDecoder / SimdHuffmanEncoder (tier + every config field) / ParallelHuffmanEncoder +
//!            Decoder (every preset, explicit and automatic training) / AdaptiveParallelEncoder object over a history of
//!            different payloads, trees passed through clone and serialize/deserialize in between
//!   w_ctx    one ContextualHuffmanEncoder object (built by `new` or by `deserialize` from a crafted model) over a history of
//!            encode / encode_xN / encode_with_interleaving calls with different payloads (the cached fast symbol table is
//!            built by the first and read by the later ones), estimate calls, reloads through serialize/deserialize
//!   w_rans   one Rans64Encoder / Rans64Decoder pair reused, the public symbol-level API (encode_symbol / decode_symbol /
//!            Rans64State) against the block API, one AdaptiveRans64Encoder across its size thresholds
//!   w_fse    one FseEncoder and one FseDecoder over histories of compress / analyze_frequencies / reset / foreign streams,
//!            all presets + option combinations no preset uses
//!   w_fsetab FseTable::new + the public symbol-level API (renormalize_encode / encode_symbol[_accelerated] / decode_symbol /
//!            renormalize_decode); w_norm: EntropyNormalizer::normalize_frequencies_entropy_preserving for any table size
//!   w_lz     one DictionaryCompressor / OptimizedDictionaryCompressor object over several payloads, builder options,
//!            degenerate settings, the dictionary through serialize/deserialize
//!   w_bits   the deposit/extract pairs of entropy::bit_ops as codecs (fields packed with PDEP come back through every
//!            extraction entry point, interleave/de-interleave, reversal twice, variable-length fields at any offset)
//! Big payloads are described by (kind, n, seed) and regenerated on replay.
use super::*;
use zipora::entropy::bit_ops::{CompressionBmi2Dispatcher, EntropyBitOps};
use zipora::entropy::dictionary::{Dictionary, DictionaryBuilder, DictionaryCompressor, DictionaryEntry, OptimizedDictionaryCompressor};
use zipora::entropy::fse::{
    fse_compress, fse_compress_with_config, fse_decompress, fse_decompress_with_config, fse_unzip, fse_zip, EntropyNormalizer,
    FseConfig, FseDecoder, FseEncoder, FseTable, HardwareCapabilities,
};
use zipora::entropy::rans::{
    AdaptiveRans64Encoder, ParallelVariant as RansVariant, ParallelX1, ParallelX2, ParallelX4, ParallelX8, Rans64Decoder,
    Rans64Encoder, Rans64State,
};

pub const RULE_W: &str = "breadth: object histories (one encoder / decoder object over 3..10 operations with different payloads: \
order-0 + SIMD + parallel front end + adaptive selector; contextual encoders built by new and by deserialize; rANS block and symbol \
API; FSE encoder/decoder with analyze/reset; LZ compressors), every preset and option field (SimdHuffmanConfig, ParallelConfig, \
FseConfig incl. hardware flags, DictionaryBuilder, BitOpsConfig), thresholds (SIMD 64/1024/8192, FSE 64/100/2*block/64 blocks of \
128 KiB, parallel 32 KiB/128 KiB/512 KiB, selector 64 KiB/1 MiB, rANS selector 73/73^2/73^4, LZ window 32768 and length 258), \
alphabets of 24..34 symbols (codes of 23..33 bits around the 24- and 32-bit SIMD widths); big payloads given as (kind, n, seed)";

// ------------------------------------------------------------------------------------------------
// payload specifications: {"b": [bytes]} or {"k": kind, "n": length, "s": seed}
// ------------------------------------------------------------------------------------------------
pub fn gen(k: usize, n: usize, s: u64) -> Vec<u8> {
    let mut r = Rng::new(s.wrapping_mul(0x9e3779b97f4a7c15) ^ ((k as u64) << 32) ^ n as u64);
    match k {
        0..=13 => b::payload(&mut r, n, k),
        // m = k - 100 distinct symbols, all present when n >= m, geometric skew (Huffman chains of m - 1 bits)
        100..=356 => {
            let m = (k - 100).clamp(1, 256);
            let syms: Vec<u8> = (0..m).map(|i| (i * 167 + 13) as u8).collect();
            (0..n).map(|i| if i < m { syms[i] } else { let mut j = 0; while j + 1 < m && r.chance(1, 2) { j += 1; } syms[j] }).collect()
        }
        // m = k - 400 distinct symbols, uniform
        400..=656 => {
            let m = (k - 400).clamp(1, 256);
            let syms: Vec<u8> = (0..m).map(|i| (i * 91 + 5) as u8).collect();
            (0..n).map(|i| if i < m { syms[m - 1 - i] } else { syms[r.below(m as u64) as usize] }).collect()
        }
        // m = k - 800: the alphabet of kind 100 + m with the skew reversed (same symbols, opposite frequency ranks)
        800..=1056 => {
            let m = (k - 800).clamp(1, 256);
            let syms: Vec<u8> = (0..m).rev().map(|i| (i * 167 + 13) as u8).collect();
            (0..n).map(|i| if i < m { syms[i] } else { let mut j = 0; while j + 1 < m && r.chance(1, 2) { j += 1; } syms[j] }).collect()
        }
        // 700: random bytes; 701: two interleaved texts (order-1/2 contexts repeat); 702: long runs then noise
        700 => r.bytes(n),
        701 => { let w: [&[u8]; 4] = [b"abracadabra ", b"banana bandana ", b"\x00\xff\x00\xfe", b"zzzzzy"]; let mut d = vec![]; while d.len() < n { d.extend_from_slice(w[r.below(4) as usize]); } d.truncate(n); d }
        _ => { let mut d = vec![]; while d.len() < n { let x = r.next() as u8; let l = 1 + r.below(400) as usize; for _ in 0..l { d.push(x); } if r.chance(1, 3) { let q = r.below(30) as usize; d.extend(r.bytes(q)); } } d.truncate(n); d }
    }
}
pub fn mat(p: &Value) -> Vec<u8> {
    if let Some(a) = p.get("b") { return bytes_of(a); }
    gen(p["k"].as_u64().unwrap_or(0) as usize, (p["n"].as_u64().unwrap_or(0) as usize).min(64 << 20), p["s"].as_u64().unwrap_or(0))
}
fn ps(r: &mut Rng, k: usize, n: usize) -> Value {
    let s = r.next() % 1_000_003;
    if n <= 40 { json!({"b": gen(k, n, s)}) } else { json!({"k": k, "n": n, "s": s}) }
}
fn pb(b: &[u8]) -> Value { json!({"b": b}) }

/// One judged step of a history: like `judge`, but the failing case is the whole history.
fn hjudge(cx: &mut Cx, cell: &str, case: &Value, step: usize, what: &str, data: &[u8], enc: Rr, dec: &mut dyn FnMut(&[u8], usize) -> Rr) -> Option<Vec<u8>> {
    let key = format!("{} {} {}", cell, step, case);
    cx.eval(cell, &key, data.len() >= 2);
    let fail = |cx: &mut Cx, d: String| { let mut c = case.clone(); c["cell"] = json!(cell); cx.fail(cell, None, c, &format!("step {} ({}, {} bytes): {}", step, what, data.len(), d)); };
    match enc {
        Err(p) => { fail(cx, format!("encoder panicked: {}", p)); None }
        Ok(Err(_)) => { cx.dist("wide_encode_refused"); None }
        Ok(Ok(bytes)) => {
            match dec(&bytes, data.len()) {
                Err(p) => fail(cx, format!("decoder panicked on the encoder's output: {}", p)),
                Ok(Err(e)) => fail(cx, format!("decoder rejects the encoder's output ({} bytes): {}", bytes.len(), e)),
                Ok(Ok(out)) => if out != data { fail(cx, format!("decode(encode(x)) != x: {}", b::diff_at(data, &out))); } else { cx.dist("wide_roundtrips"); },
            }
            Some(bytes)
        }
    }
}
fn hfail(cx: &mut Cx, cell: &str, case: &Value, step: usize, detail: &str) {
    let mut c = case.clone(); c["cell"] = json!(cell);
    cx.eval(cell, &format!("{} {} {}", cell, step, case), true);
    cx.fail(cell, None, c, &format!("step {}: {}", step, detail));
}
fn ops_of(c: &Value) -> Vec<Value> { c["ops"].as_array().cloned().unwrap_or_default() }
fn us(v: &Value, d: usize) -> usize { v.as_u64().map(|x| x as usize).unwrap_or(d) }

// ------------------------------------------------------------------------------------------------
// w_h0: order-0 objects
// ------------------------------------------------------------------------------------------------
fn par_cfg(v: &Value) -> ParallelConfig {
    match v["preset"].as_str().unwrap_or("default") {
        "low_latency" => ParallelConfig::low_latency(),
        "high_throughput" => ParallelConfig::high_throughput(),
        "balanced" => ParallelConfig::balanced(),
        "custom" => ParallelConfig { num_streams: us(&v["streams"], 3), block_size: us(&v["bs"], 16), adaptive_blocks: v["adaptive"].as_bool().unwrap_or(false),
                                     min_parallel_size: us(&v["min"], 0), load_balancing: v["lb"].as_bool().unwrap_or(false) },
        _ => ParallelConfig::default(),
    }
}
fn simd_cfg(v: &Value) -> Option<SimdHuffmanConfig> {
    if v.is_null() { return None; }
    Some(SimdHuffmanConfig { preferred_tier: TIERS[us(&v["tier"], 0) % 6].0, enable_batch_processing: v["batchproc"].as_bool().unwrap_or(true),
        batch_size: us(&v["batch"], 256), enable_prefetching: v["prefetch"].as_bool().unwrap_or(true), cache_aligned_buffers: v["aligned"].as_bool().unwrap_or(true) })
}
fn adaptive_decode(data_for_selection: &[u8], bytes: &[u8], n: usize) -> Result<Vec<u8>, String> {
    fn dec<P: RansVariant>(bytes: &[u8], n: usize) -> Result<Vec<u8>, String> {
        let enc = Rans64Encoder::<P>::new(&[1u32; 256]).map_err(|e| e.to_string())?;
        Rans64Decoder::<P>::new(&enc).decode(bytes, n).map_err(|e| e.to_string())
    }
    // the selection is a function of the payload alone; asked of a fresh selector
    let (alg, var) = { let s = AdaptiveParallelEncoder::new().map_err(|e| e.to_string())?; let (a, v) = s.select_optimal_encoding(data_for_selection); (a.to_string(), v.to_string()) };
    match (alg.as_str(), var.as_str()) {
        ("rans", "x2") => dec::<ParallelX2>(bytes, n),
        ("rans", "x4") => dec::<ParallelX4>(bytes, n),
        ("rans", _) => dec::<ParallelX8>(bytes, n),
        ("fse", _) => es(fse_decompress(bytes)),
        _ => { let d = HuffmanDecoder::new(es(HuffmanTree::from_data(data_for_selection))?); es(d.decode(bytes, n)) }
    }
}
fn hist_h0<P: ParallelVariant>(cx: &mut Cx, c: &Value) {
    let cell = format!("wide/order0_hist/{}", P::NAME);
    let train = mat(&c["train"]);
    let built = guarded(|| -> Result<_, String> {
        let enc = match freqs_of(&c["freqs"]) { Some(f) => es(HuffmanEncoder::from_frequencies(&f))?, None => es(HuffmanEncoder::new(&train))? };
        let simd = match simd_cfg(&c["simd"]) { Some(cfg) => es(SimdHuffmanEncoder::with_config(&train, cfg))?, None => es(SimdHuffmanEncoder::new(&train))? };
        let pe = es(ParallelHuffmanEncoder::<P>::new(par_cfg(&c["par"])))?;
        let pd = ParallelHuffmanDecoder::<P>::new(par_cfg(&c["par"]));
        let ad = if c["ad_default"] == json!(true) { AdaptiveParallelEncoder::default() } else { es(AdaptiveParallelEncoder::new())? };
        Ok((enc, simd, pe, pd, ad))
    });
    let (enc, simd, mut pe, mut pd, mut ad) = match built {
        Err(p) => { hfail(cx, &cell, c, 0, &format!("constructor panicked: {}", p)); return; }
        Ok(Err(_)) => { cx.dist("constructor_refused"); return; }
        Ok(Ok(x)) => x,
    };
    let table = table_of(enc.tree());
    cx.dist_max("wide_max_code_len/order0", max_len(&table) as u64);
    if enc.tree().max_code_length() != max_len(&table) {
        hfail(cx, &cell, c, 0, &format!("HuffmanTree::max_code_length() = {} but the longest code has {} bits", enc.tree().max_code_length(), max_len(&table)));
    }
    let mut dec = HuffmanDecoder::new(enc.tree().clone());
    let sdec = HuffmanDecoder::new(simd.tree().clone());
    // training text in force for the parallel front end (None = not trained yet); whether the decoder has its tree
    let mut shadow: Option<Vec<u8>> = None;
    let mut pd_fresh = false;
    for (i, op) in ops_of(c).iter().enumerate() {
        let name = op[0].as_str().unwrap_or("");
        match name {
            "enc" => { let p = mat(&op[1]); let r = guarded(|| es(enc.encode(&p))); hjudge(cx, &cell, c, i, "HuffmanEncoder::encode", &p, r, &mut |b, n| guarded(|| es(dec.decode(b, n)))); }
            "simd" => { let p = mat(&op[1]); let r = guarded(|| es(simd.encode(&p))); cx.dist(&format!("wide_simd_{:?}_{}", simd.tier(), match p.len() { 0..=63 => "lt64", 64..=1023 => "lt1024", 1024..=8191 => "lt8192", _ => "ge8192" }));
                        hjudge(cx, &cell, c, i, "SimdHuffmanEncoder::encode", &p, r, &mut |b, n| guarded(|| es(sdec.decode(b, n)))); }
            "est" => { let p = mat(&op[1]); let _ = guarded(|| (enc.estimate_compression_ratio(&p), simd.estimate_compression_ratio(&p))); }
            "tree_clone" => { dec = HuffmanDecoder::new(enc.tree().clone()); }
            "tree_ser" => match guarded(|| es(HuffmanTree::deserialize(&enc.tree().serialize()))) {
                Ok(Ok(t)) => { if table_of(&t) != table { hfail(cx, &cell, c, i, "deserialize(serialize(tree)) has another code table"); }
                               if t.max_code_length() != max_len(&table) { hfail(cx, &cell, c, i, "deserialize(serialize(tree)).max_code_length() differs from the longest code"); }
                               dec = HuffmanDecoder::new(t); }
                other => hfail(cx, &cell, c, i, &format!("deserialize(serialize(tree)) failed: {:?}", other.map(|x| x.err()))),
            },
            "ptrain" => { let p = mat(&op[1]); match guarded(|| es(pe.train(&p))) { Ok(Ok(())) => { shadow = Some(p); pd_fresh = false; } Ok(Err(_)) => { shadow = None; cx.dist("wide_train_refused"); }
                          Err(e) => { hfail(cx, &cell, c, i, &format!("ParallelHuffmanEncoder::train panicked: {}", e)); return; } } }
            "penc" => {
                let p = mat(&op[1]);
                if shadow.is_none() { shadow = Some(p.clone()); pd_fresh = false; } // the encoder trains itself on the first payload it sees
                let r = guarded(|| es(pe.encode(&p)));
                if !pd_fresh {
                    // the decoder object is reused as long as the training text in force does not change
                    let tr = shadow.clone().unwrap_or_default();
                    match guarded(|| -> Result<(), String> { es(pd.set_tree(es(HuffmanTree::from_data(&tr))?)) }) {
                        Ok(Ok(())) => pd_fresh = true,
                        Ok(Err(_)) => { cx.dist("wide_set_tree_refused"); continue; }
                        Err(e) => { hfail(cx, &cell, c, i, &format!("ParallelHuffmanDecoder::set_tree panicked: {}", e)); return; }
                    }
                }
                hjudge(cx, &cell, c, i, "ParallelHuffmanEncoder::encode", &p, r, &mut |b, n| guarded(|| es(pd.decode(b, n))));
            }
            "adapt" => { let p = mat(&op[1]); let r = guarded(|| es(ad.encode_adaptive(&p))); hjudge(cx, &cell, c, i, "AdaptiveParallelEncoder::encode_adaptive", &p, r, &mut |b, n| guarded(|| adaptive_decode(&p, b, n))); }
            _ => {}
        }
    }
}

// ------------------------------------------------------------------------------------------------
// w_ctx: one contextual encoder object
// ------------------------------------------------------------------------------------------------
fn hist_ctx(cx: &mut Cx, c: &Value) {
    let crafted = !c["tables"].is_null();
    let order = c["order"].as_u64().unwrap_or(1);
    let cell = format!("wide/ctx_hist/{}{}", if crafted { "crafted" } else { "new" }, order);
    let built = if crafted {
        let v = view_from_json(order, &c["tables"], &c["ctxmap"]);
        if !view_wellformed(&v) { cx.dist("crafted_case_not_wellformed_skipped"); return; }
        let bytes = ser_view(&v);
        guarded(|| es(ContextualHuffmanEncoder::deserialize(&bytes)))
    } else {
        let t = mat(&c["train"]);
        guarded(|| es(ContextualHuffmanEncoder::new(&t, order_of(order))))
    };
    let mut enc = match built {
        Err(p) => { hfail(cx, &cell, c, 0, &format!("constructor panicked: {}", p)); return; }
        Ok(Err(_)) => { cx.dist("constructor_refused"); return; }
        Ok(Ok(e)) => e,
    };
    let reload = |e: &ContextualHuffmanEncoder| guarded(|| es(ContextualHuffmanEncoder::deserialize(&e.serialize())));
    // `twin` decodes interleaved streams on request, `dec` (which owns a third copy) decodes the plain ones
    let (mut twin, mut dec) = match (reload(&enc), reload(&enc)) {
        (Ok(Ok(a)), Ok(Ok(b))) => (a, ContextualHuffmanDecoder::new(b)),
        _ => { hfail(cx, &cell, c, 0, "deserialize(serialize(encoder)) failed"); return; }
    };
    if let Some(v) = view_of(&enc) { cx.dist_max(&format!("wide_max_code_len/ctx_{}", if crafted { "crafted" } else { "new" }), v.trees.iter().map(max_len).max().unwrap_or(0) as u64); }
    for (i, op) in ops_of(c).iter().enumerate() {
        match op[0].as_str().unwrap_or("") {
            "enc" => { let p = mat(&op[1]); let r = guarded(|| es(enc.encode(&p))); hjudge(cx, &cell, c, i, "ContextualHuffmanEncoder::encode", &p, r, &mut |b, n| guarded(|| es(dec.decode(b, n)))); }
            "xn" => {
                let n = match us(&op[1], 1) { 1 => 1, 2 => 2, 4 => 4, _ => 8 };
                let generic = op[2].as_u64().unwrap_or(0) != 0;
                let on_twin = op[3].as_u64().unwrap_or(0) != 0;
                let p = mat(&op[4]);
                let f = if n == 1 && generic { InterleavingFactor::default() } else { factor_of(n) };
                if f.streams() != n { hfail(cx, &cell, c, i, &format!("InterleavingFactor::streams() = {} for X{}", f.streams(), n)); }
                let _ = f.has_simd_support();
                let r = guarded(|| if generic { es(enc.encode_with_interleaving(&p, f)) } else { enc_x(&enc, n, &p, false) });
                let d: &ContextualHuffmanEncoder = if on_twin { &twin } else { &enc };
                hjudge(cx, &cell, c, i, &format!("encode_x{}", n), &p, r, &mut |b, len| guarded(|| dec_x(d, n, b, len, !generic)));
            }
            "est" => { let p = mat(&op[1]); let _ = guarded(|| enc.estimate_compression_ratio(&p)); }
            "ser" | "reload" => {
                match (reload(&enc), reload(&enc), reload(&enc)) {
                    (Ok(Ok(a)), Ok(Ok(b)), Ok(Ok(n))) => {
                        if a.order() != enc.order() || a.tree_count() != enc.tree_count() { hfail(cx, &cell, c, i, &format!("deserialize(serialize(e)): order {:?} / {} trees instead of {:?} / {}", a.order(), a.tree_count(), enc.order(), enc.tree_count())); }
                        twin = a; dec = ContextualHuffmanDecoder::new(b);
                        // "reload": go on encoding with the reloaded object (its cache is empty again)
                        if op[0] == "reload" { enc = n; }
                    }
                    _ => { hfail(cx, &cell, c, i, "deserialize(serialize(encoder)) failed"); return; }
                }
            }
            _ => {}
        }
    }
}

// ------------------------------------------------------------------------------------------------
// w_rans
// ------------------------------------------------------------------------------------------------
fn manual_rans_encode<P: RansVariant>(enc: &Rans64Encoder<P>, p: &[u8]) -> Result<Vec<u8>, String> {
    let mut st = Rans64State::new();
    let mut out = Vec::new();
    for &s in p.iter().rev() { es(enc.encode_symbol(&mut st, s, &mut out))?; }
    let copy = st; // Copy + PartialEq
    assert!(copy == st && Rans64State::from_state(st.state()) == st, "Rans64State: a copy / from_state(state()) differs from the original");
    out.extend_from_slice(&st.state().to_le_bytes());
    Ok(out)
}
fn manual_rans_decode<P: RansVariant>(dec: &Rans64Decoder<P>, bytes: &[u8], n: usize) -> Result<Vec<u8>, String> {
    if bytes.len() < 8 { return Err("too short".into()); }
    let mut s8 = [0u8; 8];
    s8.copy_from_slice(&bytes[bytes.len() - 8..]);
    let mut st = Rans64State::default();
    st.set_state(u64::from_le_bytes(s8));
    let mut pos = bytes.len() - 8;
    let mut out = Vec::with_capacity(n.min(1 << 16));
    for _ in 0..n { out.push(es(dec.decode_symbol(&mut st, bytes, &mut pos))?); }
    Ok(out)
}
fn hist_rans<P: RansVariant>(cx: &mut Cx, c: &Value) {
    let cell = format!("wide/rans_hist/{}", P::NAME);
    let mut f = [0u32; 256];
    if let Some(a) = c["freq"].as_array() { for (i, x) in a.iter().take(256).enumerate() { f[i] = x.as_u64().unwrap_or(0) as u32; } } else { f = b::counts(&mat(&c["train"])); }
    let enc = match guarded(|| es(Rans64Encoder::<P>::new(&f))) {
        Err(p) => { hfail(cx, &cell, c, 0, &format!("Rans64Encoder::new panicked: {}", p)); return; }
        Ok(Err(_)) => { cx.dist("constructor_refused"); return; }
        Ok(Ok(e)) => e,
    };
    if enc.variant_name() != P::NAME { hfail(cx, &cell, c, 0, "variant_name() differs from the variant"); }
    // the state the property names: every present symbol owns a slot, the slots fill the table exactly
    let slots: u64 = (0..=255u8).map(|s| enc.get_symbol(s).freq as u64).sum();
    if slots != enc.total_freq() as u64 { hfail(cx, &cell, c, 0, &format!("slots sum to {} but total_freq() = {}", slots, enc.total_freq())); }
    if enc.total_freq() != 0 { if let Some(s) = (0..256usize).find(|&s| (f[s] > 0) != (enc.get_symbol(s as u8).freq > 0)) { hfail(cx, &cell, c, 0, &format!("symbol {}: count {} but {} slots", s, f[s], enc.get_symbol(s as u8).freq)); } }
    let mut dec = match guarded(|| Rans64Decoder::<P>::new(&enc)) { Ok(d) => d, Err(p) => { hfail(cx, &cell, c, 0, &format!("Rans64Decoder::new panicked: {}", p)); return; } };
    let ad = AdaptiveRans64Encoder::default();
    for (i, op) in ops_of(c).iter().enumerate() {
        let p = mat(&op[1]);
        match op[0].as_str().unwrap_or("") {
            "enc" => { let r = guarded(|| es(enc.encode(&p))); hjudge(cx, &cell, c, i, "Rans64Encoder::encode", &p, r, &mut |b, n| guarded(|| es(dec.decode(b, n)))); }
            // symbol-level encoder, block decoder (one stream: the layouts coincide) or symbol-level decoder
            "menc" => { let r = guarded(|| manual_rans_encode(&enc, &p));
                        hjudge(cx, &cell, c, i, "encode_symbol loop", &p, r, &mut |b, n| guarded(|| if P::N == 1 && n > 0 { es(dec.decode(b, n)) } else { manual_rans_decode(&dec, b, n) })); }
            // block encoder, symbol-level decoder (one stream only)
            "mdec" => { if P::N == 1 || p.len() < P::N { let r = guarded(|| es(enc.encode(&p))); hjudge(cx, &cell, c, i, "decode_symbol loop", &p, r, &mut |b, n| guarded(|| manual_rans_decode(&dec, b, n))); } }
            "redec" => { match guarded(|| Rans64Decoder::<P>::new(&enc)) { Ok(d) => dec = d, Err(e) => { hfail(cx, &cell, c, i, &format!("Rans64Decoder::new panicked: {}", e)); return; } } }
            "adapt" => {
                let r = guarded(|| es(ad.encode_adaptive(&p)));
                let variant = ad.select_variant(p.len());
                cx.dist(&format!("wide_rans_adaptive_{}", variant));
                fn d<Q: RansVariant>(f: &[u32; 256], bytes: &[u8], n: usize) -> Result<Vec<u8>, String> { let e = es(Rans64Encoder::<Q>::new(f))?; es(Rans64Decoder::<Q>::new(&e).decode(bytes, n)) }
                let fp = b::counts(&p);
                hjudge(cx, &cell, c, i, "AdaptiveRans64Encoder::encode_adaptive", &p, r, &mut |b, n| guarded(|| match variant { "x1" => d::<ParallelX1>(&fp, b, n), "x2" => d::<ParallelX2>(&fp, b, n), "x4" => d::<ParallelX4>(&fp, b, n), _ => d::<ParallelX8>(&fp, b, n) }));
            }
            _ => {}
        }
    }
}

// ------------------------------------------------------------------------------------------------
// w_fse, w_fsetab, w_norm
// ------------------------------------------------------------------------------------------------
pub const FSE_EXTRA: [&str; 11] = ["hw_off", "tl5", "nonadaptive", "adv_states", "fast_minfreq", "par1_bs100", "par0_bs100", "par8_bs1", "level22_sym127", "tl15_par2_bs128", "nonadaptive_simple"];
fn fse_cfg(name: &str) -> FseConfig {
    let hw_off = HardwareCapabilities { bmi2: false, avx2: false, prefetch: false, popcnt: false };
    match name {
        "hw_off" => FseConfig { hardware: hw_off, ..FseConfig::default() },
        "tl5" => FseConfig { table_log: 5, max_table_size: 32, ..FseConfig::default() },
        "nonadaptive" => FseConfig { adaptive: false, ..FseConfig::default() },
        "nonadaptive_simple" => FseConfig { adaptive: false, entropy_optimization: false, hardware: hw_off, ..FseConfig::fast_compression() },
        "adv_states" => FseConfig { advanced_states: true, compression_level: 12, ..FseConfig::default() },
        "fast_minfreq" => FseConfig { fast_decode: true, min_frequency: 3, dict_size: 1024, ..FseConfig::default() },
        "par0_bs100" => FseConfig { parallel_blocks: Some(0), block_size: 100, ..FseConfig::default() },
        "par8_bs1" => FseConfig { parallel_blocks: Some(8), block_size: 1, ..FseConfig::default() },
        "level22_sym127" => FseConfig { compression_level: 22, max_symbol: 127, ..FseConfig::default() },
        "tl15_par2_bs128" => FseConfig { parallel_blocks: Some(2), block_size: 128, table_log: 15, max_table_size: 1 << 15, entropy_optimization: false, ..FseConfig::default() },
        other => b::fse_config(other),
    }
}
fn hist_fse(cx: &mut Cx, c: &Value) {
    let name = c["cfg"].as_str().unwrap_or("default");
    let cell = format!("wide/fse_hist/{}", name);
    let cfg = fse_cfg(name);
    if cfg != cfg.clone() { hfail(cx, &cell, c, 0, "FseConfig != its clone"); }
    let built = guarded(|| -> Result<_, String> {
        let e = if c["dict"].is_null() { es(FseEncoder::new(cfg.clone()))? } else { es(FseEncoder::with_dictionary(cfg.clone(), mat(&c["dict"])))? };
        let d = if name == "default" && c["plain_decoder"] == json!(true) { FseDecoder::new() } else { es(FseDecoder::with_config(cfg.clone()))? };
        Ok((e, d))
    });
    let (mut enc, mut dec) = match built {
        Err(p) => { hfail(cx, &cell, c, 0, &format!("constructor panicked: {}", p)); return; }
        Ok(Err(_)) => { cx.dist("constructor_refused"); return; }
        Ok(Ok(x)) => x,
    };
    for (i, op) in ops_of(c).iter().enumerate() {
        match op[0].as_str().unwrap_or("") {
            "c" => { let p = mat(&op[1]); let r = guarded(|| es(enc.compress(&p))); hjudge(cx, &cell, c, i, "FseEncoder::compress", &p, r, &mut |b, _| guarded(|| es(dec.decompress(b)))); }
            // this encoder, a fresh decoder
            "cfresh" => { let p = mat(&op[1]); let r = guarded(|| es(enc.compress(&p))); let cf = cfg.clone(); hjudge(cx, &cell, c, i, "FseEncoder::compress / fresh decoder", &p, r, &mut |b, _| guarded(|| es(fse_decompress_with_config(b, cf.clone())))); }
            // a fresh encoder, this decoder
            "foreign" => { let p = mat(&op[1]); let cf = cfg.clone(); let r = guarded(|| es(fse_compress_with_config(&p, cf))); hjudge(cx, &cell, c, i, "fresh encoder / FseDecoder::decompress", &p, r, &mut |b, _| guarded(|| es(dec.decompress(b)))); }
            "analyze" => { let p = mat(&op[1]); match guarded(|| enc.analyze_frequencies(&p)) { Err(e) => { hfail(cx, &cell, c, i, &format!("analyze_frequencies panicked: {}", e)); return; } Ok(Err(_)) => cx.dist("wide_analyze_refused"), Ok(Ok(())) => {} } }
            "ereset" => enc.reset(),
            "dreset" => dec.reset(),
            "fn" => { let p = mat(&op[2]); let api = op[1].as_u64().unwrap_or(0);
                      let r = guarded(|| es(if api == 0 { fse_compress(&p) } else { fse_zip(&p) }));
                      hjudge(cx, &cell, c, i, "fse_compress / fse_zip", &p, r, &mut |b, _| guarded(|| es(if api == 0 { fse_unzip(b) } else { fse_decompress(b) }))); }
            _ => {}
        }
    }
}
/// FseTable built from counts + the public symbol-level API, framed the way the block coder frames it.
fn case_fsetab(cx: &mut Cx, c: &Value) {
    let name = c["cfg"].as_str().unwrap_or("default");
    let cell = "wide/fse_table";
    let cfg = fse_cfg(name);
    let mut f = [0u32; 256];
    if let Some(a) = c["freq"].as_array() { for (i, x) in a.iter().take(256).enumerate() { f[i] = x.as_u64().unwrap_or(0) as u32; } } else { f = b::counts(&mat(&c["train"])); }
    let data = mat(&c["data"]);
    let table = match guarded(|| es(FseTable::new(&f, &cfg))) {
        Err(p) => { hfail(cx, cell, c, 0, &format!("FseTable::new panicked: {}", p)); return; }
        Ok(Err(_)) => { cx.dist("constructor_refused"); return; }
        Ok(Ok(t)) => t,
    };
    // the state the property names: slots of the normalised table
    let slots: u64 = (0..256).map(|i| table.dec_symbols[i].freq as u64).sum();
    if slots > table.table_size() as u64 { hfail(cx, cell, c, 0, &format!("normalised slots sum to {} > table size {}", slots, table.table_size())); return; }
    for s in 0..256usize {
        let (e, d) = (table.enc_symbols[s].freq, table.dec_symbols[s].freq);
        if e != d { hfail(cx, cell, c, 0, &format!("symbol {}: encoder slots {} != decoder slots {}", s, e, d)); return; }
    }
    let t2 = table.clone();
    let accel = c["accel"] == json!(true);
    let r = guarded(|| -> Result<Vec<u8>, String> {
        let mut out = Vec::new();
        let mut x = 1u64;
        for &s in data.iter().rev() {
            let fr = table.enc_symbols[s as usize].freq as u32;
            x = table.renormalize_encode(x, &mut out, fr);
            let step = if accel { table.encode_symbol_accelerated(s, x) } else { table.encode_symbol(s, x) };
            match step { Some((nx, _)) => x = nx, None => return Err(format!("symbol {} has no slot", s)) }
        }
        out.extend_from_slice(&x.to_le_bytes());
        Ok(out)
    });
    hjudge(cx, cell, c, 0, "FseTable symbol API", &data, r, &mut |b, n| guarded(|| {
        if b.len() < 8 { return Err("short".to_string()); }
        let mut s8 = [0u8; 8]; s8.copy_from_slice(&b[b.len() - 8..]);
        let mut x = u64::from_le_bytes(s8);
        let body = &b[..b.len() - 8];
        let mut pos = body.len();
        let mut out = Vec::with_capacity(n);
        for _ in 0..n { let (s, nx) = t2.decode_symbol(x); out.push(s); x = t2.renormalize_decode(nx, body, &mut pos).ok_or("renormalize_decode failed")?; }
        Ok(out)
    }));
}
fn case_norm(cx: &mut Cx, c: &Value) {
    let cell = "wide/fse_normalizer";
    let freq: Vec<u32> = c["freq"].as_array().map(|a| a.iter().map(|x| x.as_u64().unwrap_or(0) as u32).collect()).unwrap_or_default();
    let target = c["target"].as_u64().unwrap_or(4096) as u32;
    cx.eval(cell, &c.to_string(), freq.iter().filter(|&&x| x > 0).count() >= 2);
    let fail = |cx: &mut Cx, d: String| { let mut cc = c.clone(); cc["cell"] = json!(cell); cx.fail(cell, None, cc, &d); };
    if freq.iter().map(|&x| x as u64).sum::<u64>() > u32::MAX as u64 { return; } // the function sums in u32: outside its domain
    match guarded(|| EntropyNormalizer::new().normalize_frequencies_entropy_preserving(&freq, target)) {
        Err(p) => fail(cx, format!("normalize_frequencies_entropy_preserving panicked: {}", p)),
        Ok(Err(_)) => cx.dist("wide_norm_refused"),
        Ok(Ok(n)) => {
            if n.len() != freq.len() { fail(cx, format!("{} entries for {} symbols", n.len(), freq.len())); return; }
            let sum: u64 = n.iter().map(|&x| x as u64).sum();
            if sum > target as u64 { fail(cx, format!("slots sum to {} > table size {}", sum, target)); return; }
            for (i, (&a, &b)) in freq.iter().zip(n.iter()).enumerate() {
                if a > 0 && b == 0 { fail(cx, format!("present symbol {} (count {}) got no slot", i, a)); return; }
                if a == 0 && b != 0 { fail(cx, format!("absent symbol {} got {} slots", i, b)); return; }
            }
        }
    }
}

// ------------------------------------------------------------------------------------------------
// w_lz
// ------------------------------------------------------------------------------------------------
fn hist_lz(cx: &mut Cx, c: &Value) {
    let which = c["which"].as_u64().unwrap_or(0);
    let cell = match which { 0 => "wide/lz_hist/dictionary", 1 => "wide/lz_hist/optimized", _ => "wide/lz_hist/optimized_new" };
    let (mn, mx, win) = (us(&c["min"], 3), us(&c["max"], 258), us(&c["window"], 32768));
    let train = mat(&c["train"]);
    enum Z { D(DictionaryCompressor), O(OptimizedDictionaryCompressor) }
    let bo = &c["builder"];
    let built = guarded(|| -> Result<Z, String> {
        Ok(match which {
            0 => {
                let mut bld = DictionaryBuilder::default();
                if !bo.is_null() { bld = bld.max_entries(us(&bo["entries"], 4096)).min_match_length(us(&bo["min"], 3)).max_match_length(us(&bo["max"], 258)).window_size(us(&bo["window"], 32768)); }
                let mut d = bld.build(&train);
                if bo["extra"] == json!(true) { d.insert(b"extra".to_vec(), DictionaryEntry::new(5, 5)); let _ = d.get(b"extra"); }
                if bo["empty"] == json!(true) { d = Dictionary::default(); }
                Z::D(DictionaryCompressor::new(d).min_match_length(mn).max_match_length(mx))
            }
            1 => Z::O(es(OptimizedDictionaryCompressor::with_config(&train, mn, mx, win))?),
            _ => Z::O(es(OptimizedDictionaryCompressor::new(&train))?),
        })
    });
    let mut z = match built {
        Err(p) => { hfail(cx, cell, c, 0, &format!("constructor panicked: {}", p)); return; }
        Ok(Err(_)) => { cx.dist("constructor_refused"); return; }
        Ok(Ok(z)) => z,
    };
    for (i, op) in ops_of(c).iter().enumerate() {
        match op[0].as_str().unwrap_or("") {
            "c" => { let p = mat(&op[1]);
                     let r = guarded(|| match &z { Z::D(d) => es(d.compress(&p)), Z::O(o) => es(o.compress(&p)) });
                     hjudge(cx, cell, c, i, "compress", &p, r, &mut |b, _| guarded(|| match &z { Z::D(d) => es(d.decompress(b)), Z::O(o) => es(o.decompress(b)) })); }
            "est" => { let p = mat(&op[1]); let _ = guarded(|| match &z { Z::D(d) => d.estimate_compression_ratio(&p), Z::O(o) => { let _ = o.stats(); o.estimate_compression_ratio(&p) } }); }
            // the dictionary as another process would load it
            "reser" => if let Z::D(d) = &z {
                let n0 = d.dictionary().len();
                match guarded(|| es(Dictionary::deserialize(&d.dictionary().serialize()))) {
                    Ok(Ok(d2)) => { if d2.len() != n0 || d2.is_empty() != (n0 == 0) { hfail(cx, cell, c, i, &format!("Dictionary::deserialize(serialize()) has {} entries instead of {}", d2.len(), n0)); }
                                    z = Z::D(DictionaryCompressor::new(d2.clone()).min_match_length(mn).max_match_length(mx)); }
                    other => hfail(cx, cell, c, i, &format!("Dictionary::deserialize(serialize()) failed: {:?}", other.map(|x| x.err()))),
                }
            },
            _ => {}
        }
    }
}

// ------------------------------------------------------------------------------------------------
// w_bits: deposit / extract pairs
// ------------------------------------------------------------------------------------------------
fn bits_cfg(m: u64) -> BitOpsConfig {
    BitOpsConfig { enable_bmi2: m & 1 != 0, enable_avx2: m & 2 != 0, enable_popcnt: m & 4 != 0, software_fallback: true,
                   enable_compression_optimizations: m & 8 != 0, enable_entropy_acceleration: m & 16 != 0, enable_variable_length_decoding: m & 32 != 0 }
}
fn dumb_pdep(x: u64, mask: u64) -> u64 { let mut r = 0u64; let mut k = 0; for i in 0..64 { if mask >> i & 1 == 1 { if x >> k & 1 == 1 { r |= 1 << i; } k += 1; } } r }
fn low(n: u32) -> u64 { if n >= 64 { u64::MAX } else { (1u64 << n) - 1 } }
fn u64s(v: &Value) -> Vec<u64> { v.as_array().map(|a| a.iter().map(|x| x.as_u64().or_else(|| x.as_str().and_then(|s| s.parse().ok())).unwrap_or(0)).collect()).unwrap_or_default() }
fn case_bits(cx: &mut Cx, c: &Value) {
    let cell = format!("wide/bit_ops/{}", c["kind"].as_str().unwrap_or(""));
    let m = c["cfg"].as_u64().unwrap_or(63);
    let ops = BitOps::with_config(bits_cfg(m));
    let disp = CompressionBmi2Dispatcher::with_config(bits_cfg(m));
    let eops = EntropyBitOps::with_config(bits_cfg(m));
    let vals = u64s(&c["vals"]);
    let masks = u64s(&c["masks"]);
    cx.eval(&cell, &c.to_string(), true);
    let fail = |cx: &mut Cx, d: String| { let mut cc = c.clone(); cc["cell"] = json!(cell); cx.fail(&cell, None, cc, &d); };
    let r = guarded(|| -> Option<String> {
        match c["kind"].as_str().unwrap_or("") {
            // values deposited into pairwise disjoint masks come back through every field extractor
            "fields" => {
                let mut packed = 0u64;
                let mut want: Vec<u64> = vec![];
                let mut used = 0u64;
                let mut ms: Vec<u64> = vec![];
                for (v, &mk) in vals.iter().zip(masks.iter()) {
                    let mk = mk & !used; used |= mk; ms.push(mk);
                    let v = v & low(mk.count_ones());
                    let dep = if m & 64 != 0 { ops.pdep_u64(v, mk) } else { ops.parallel_deposit64(v, mk) };
                    if dep != dumb_pdep(v, mk) { return Some(format!("deposit({:#x}, {:#x}) = {:#x}", v, mk, dep)); }
                    packed |= dep; want.push(v);
                }
                let w32: Vec<u32> = want.iter().map(|&x| x as u32).collect();
                let a = ops.extract_huffman_symbols_bmi2(packed, &ms);
                if a != w32 { return Some(format!("extract_huffman_symbols_bmi2 returns {:?}, deposited {:?}", a, w32)); }
                let d = disp.dispatch_variable_length_decode(packed, &ms);
                if d != w32 { return Some(format!("dispatch_variable_length_decode returns {:?}, deposited {:?}", d, w32)); }
                let e = ops.parallel_bit_extract_bmi2(packed, &ms);
                if e != want { return Some(format!("parallel_bit_extract_bmi2 returns {:?}, deposited {:?}", e, want)); }
                for (i, &mk) in ms.iter().enumerate() {
                    if ops.pext_u64(packed, mk) != want[i] || ops.parallel_extract64(packed, mk) != want[i] { return Some(format!("extract(deposit(v, m), m) != v for mask {:#x}", mk)); }
                    if ops.decode_rans_symbols_bmi2(packed, mk) != want[i] as u32 { return Some(format!("decode_rans_symbols_bmi2 != deposited value for mask {:#x}", mk)); }
                    let off = vals.get(i + 1).cloned().unwrap_or(7) as u32;
                    if ops.fse_decode_bmi2(packed, mk, off) != (want[i] as u32).wrapping_add(off) { return Some(format!("fse_decode_bmi2 != deposited value + offset for mask {:#x}", mk)); }
                    let (v32, m32) = (want[i] as u32, mk as u32);
                    let v32 = v32 & low(m32.count_ones()) as u32;
                    if ops.parallel_extract32(ops.parallel_deposit32(v32, m32), m32) != v32 { return Some(format!("parallel_extract32(parallel_deposit32(v, m), m) != v for mask {:#x}", m32)); }
                }
                None
            }
            "interleave" => {
                for pair in vals.chunks(2) { if pair.len() == 2 {
                    let (lo, hi) = (pair[0] as u32, pair[1] as u32);
                    let z = ops.bit_interleaving_bmi2(lo, hi);
                    let (l2, h2) = (ops.parallel_extract64(z, 0x5555555555555555) as u32, ops.parallel_extract64(z, 0xAAAAAAAAAAAAAAAA) as u32);
                    if (l2, h2) != (lo, hi) { return Some(format!("de-interleaving bit_interleaving_bmi2({:#x}, {:#x}) gives ({:#x}, {:#x})", lo, hi, l2, h2)); }
                } }
                None
            }
            "reverse" => {
                for &x in &vals {
                    if ops.reverse_bits64(ops.reverse_bits64(x)) != x || ops.bit_reverse_bmi2(ops.bit_reverse_bmi2(x)) != x { return Some(format!("reversing {:#x} twice does not return it", x)); }
                    let y = x as u32;
                    if ops.reverse_bits32(ops.reverse_bits32(y)) != y || eops.reverse_bits32(eops.reverse_bits32(y)) != y { return Some(format!("reversing {:#x} twice does not return it (32 bit)", y)); }
                }
                None
            }
            // a field written by encode_variable_length and moved to any offset is read back by both readers
            _ => {
                for t in vals.chunks(3) { if t.len() == 3 {
                    let (v, len, start) = (t[0] as u32, (t[1] % 33) as u32, (t[2] % 64) as u32);
                    let w = match ops.encode_variable_length_bmi2(v, len) { Ok(w) => w, Err(_) => continue };
                    if start + len > 64 { continue; }
                    let stream = (w << start) | (masks.first().cloned().unwrap_or(0) & !(low(len) << start));
                    let want = v & low(len) as u32;
                    match ops.decode_variable_length_bmi2(stream, start, len) { Ok(x) if x == want => {}, other => return Some(format!("decode_variable_length_bmi2(stream, {}, {}) = {:?}, wrote {}", start, len, other.map_err(|e| e.to_string()), want)) }
                    let y = disp.dispatch_entropy_extract(stream, start, len);
                    if y != want { return Some(format!("dispatch_entropy_extract(stream, {}, {}) = {}, wrote {}", start, len, y, want)); }
                } }
                None
            }
        }
    });
    match r { Err(p) => fail(cx, format!("panicked: {}", p)), Ok(Some(d)) => fail(cx, d), Ok(None) => {} }
}

// ------------------------------------------------------------------------------------------------
pub fn run_one(cx: &mut Cx, c: &Value) -> bool {
    match c["run"].as_str().unwrap_or("") {
        "w_h0" => match c["variant"].as_u64().unwrap_or(2) { 2 => hist_h0::<ParallelX2Variant>(cx, c), 4 => hist_h0::<ParallelX4Variant>(cx, c), _ => hist_h0::<ParallelX8Variant>(cx, c) },
        "w_ctx" => hist_ctx(cx, c),
        "w_rans" => match c["n"].as_u64().unwrap_or(1) { 1 => hist_rans::<ParallelX1>(cx, c), 2 => hist_rans::<ParallelX2>(cx, c), 4 => hist_rans::<ParallelX4>(cx, c), _ => hist_rans::<ParallelX8>(cx, c) },
        "w_fse" => hist_fse(cx, c),
        "w_fsetab" => case_fsetab(cx, c),
        "w_norm" => case_norm(cx, c),
        "w_lz" => hist_lz(cx, c),
        "w_bits" => case_bits(cx, c),
        _ => return false,
    }
    true
}

// ------------------------------------------------------------------------------------------------
// generators
// ------------------------------------------------------------------------------------------------
fn job(name: &'static str, f: impl FnOnce(&mut Cx, &mut Rng) + Send + 'static) -> JobSpec {
    (Box::new(move |cx: &mut Cx, r: &mut Rng| {
        let t = std::time::Instant::now();
        f(cx, r);
        if std::env::var("ZV_TIMING").is_ok() { eprintln!("wide job {}: {} ms, {} events", name, t.elapsed().as_millis(), cx.ev.len()); }
    }), 0, 2)
}
fn go(cx: &mut Cx, c: Value) { run_one(cx, &c); }

const SIMD_LENS: [usize; 12] = [1, 31, 32, 33, 63, 64, 65, 1023, 1024, 1025, 8191, 8192];
const CODE_ALPHABETS: [usize; 10] = [2, 17, 24, 25, 26, 27, 32, 33, 34, 40];

pub fn jobs(th: bool) -> Vec<JobSpec> {
    b::silence_stdout(); // the FSE coder and the parallel front end print progress lines
    let mut jobs: Vec<JobSpec> = vec![];
    // ---- G1: SIMD encoder: every tier x config field x size class x code lengths around the 24 / 32 bit widths ----
    for tier in 0..6usize {
        jobs.push(job("G1", move |cx, r| {
            let cfgs = [json!(null), json!({"tier": tier}), json!({"tier": tier, "batch": 1, "prefetch": false, "batchproc": false, "aligned": false}),
                        json!({"tier": tier, "batch": 7}), json!({"tier": tier, "batch": 4096, "prefetch": false}), json!({"tier": tier, "batch": 0})];
            for (ai, &m) in CODE_ALPHABETS.iter().enumerate() {
                for (ci, cfg) in cfgs.iter().enumerate() {
                    if !cx.th && (ai + ci + tier) % 3 != 0 && ci != 1 { continue; }
                    let mut ops = vec![];
                    for (li, &n) in SIMD_LENS.iter().enumerate() {
                        if !cx.th && n > 2000 && (li + ai + ci) % 2 == 0 { continue; }
                        ops.push(json!(["simd", ps(r, 100 + m, n)]));
                        if li % 4 == 0 { ops.push(json!(["enc", ps(r, 100 + m, n + 1)])); ops.push(json!(["est", ps(r, 100 + m, 9)])); }
                    }
                    ops.push(json!(["simd", ps(r, 100 + m, 8193)]));
                    go(cx, json!({"run": "w_h0", "variant": 2, "train": {"k": 100 + m, "n": 600, "s": ai}, "simd": cfg, "par": {}, "ops": ops}));
                }
            }
        }));
    }
    // ---- G2: parallel front end: presets, thresholds, explicit / automatic training, reuse of encoder and decoder ----
    for (vi, variant) in [2usize, 4, 8].into_iter().enumerate() {
        jobs.push(job("G2", move |cx, r| {
            let presets = [json!({"preset": "default"}), json!({"preset": "low_latency"}), json!({"preset": "high_throughput"}), json!({"preset": "balanced"}),
                           json!({"preset": "custom", "streams": 3, "bs": 16, "adaptive": true, "min": 0, "lb": true}),
                           json!({"preset": "custom", "streams": 0, "bs": 0, "adaptive": false, "min": 1000, "lb": false})];
            let mins = [128usize << 10, 32 << 10, 512 << 10, 128 << 10, 0, 1000];
            for (pi, par) in presets.iter().enumerate() {
                let m = mins[pi];
                let big = cx.th || (pi + vi) % 3 == 0 || m <= 1000;
                let (k1, k2) = ([3usize, 6, 11, 113][(pi + vi) % 4], [5usize, 417, 7, 2][(pi + vi) % 4]);
                // explicit training, payloads around min_parallel_size, re-training in between
                let mut ops = vec![json!(["ptrain", {"k": k1, "n": 5000, "s": pi}]), json!(["penc", ps(r, k1, 300)])];
                if big { for n in [m.saturating_sub(1), m, m + 1] { ops.push(json!(["penc", {"k": k1, "n": n, "s": pi}])); } }
                ops.push(json!(["est", ps(r, k1, 20)]));
                ops.push(json!(["ptrain", {"k": k2, "n": 3000, "s": pi}]));
                ops.push(json!(["penc", ps(r, k2, 2000)]));
                ops.push(json!(["penc", ps(r, k1, 100)])); // mostly refused: trained on other symbols
                ops.push(json!(["tree_ser"])); ops.push(json!(["enc", ps(r, k1, 50)])); ops.push(json!(["tree_clone"])); ops.push(json!(["enc", ps(r, k1, 51)]));
                go(cx, json!({"run": "w_h0", "variant": variant, "train": {"k": k1, "n": 5000, "s": pi}, "simd": null, "par": par, "ops": ops}));
                // automatic training on the first payload, later payloads over a sub-alphabet / with a new symbol
                let first = gen(416, 900, pi as u64);
                let sub: Vec<u8> = first.iter().cloned().filter(|x| x % 2 == 1).collect();
                let mut newsym = first.clone(); newsym[7] = first.iter().cloned().max().unwrap_or(0).wrapping_add(1);
                let ops = vec![json!(["penc", {"k": 416, "n": 900, "s": pi}]), json!(["penc", pb(&sub)]), json!(["penc", pb(&newsym)]), json!(["penc", pb(&[])]), json!(["penc", pb(&first[..1])]),
                               json!(["ptrain", pb(&newsym)]), json!(["penc", pb(&newsym)]), json!(["penc", {"k": 416, "n": 900, "s": pi}])];
                go(cx, json!({"run": "w_h0", "variant": variant, "train": pb(&first), "simd": null, "par": par, "ops": ops}));
                // an empty first payload trains an empty tree
                go(cx, json!({"run": "w_h0", "variant": variant, "train": pb(&[]), "simd": null, "par": par, "ops": [["penc", pb(&[])], ["penc", pb(b"ab")], ["enc", pb(b"")], ["ptrain", pb(b"aab")], ["penc", pb(b"abba")]]}));
            }
        }));
    }
    // from_frequencies-built encoders in histories
    jobs.push(job("G2", move |cx, r| {
        for k in 0..(if cx.th { 120 } else { 24 }) {
            let m = *r.pick(&[1usize, 2, 3, 17, 33, 64, 65, 66, 256]);
            let mut f = vec![0u32; 256];
            for i in 0..m { f[(i * 167 + 13) % 256] = match k % 4 { 0 => 1, 1 => u32::MAX, 2 => 1u32 << (i % 31), _ => r.next() as u32 | 1 }; }
            let mut ops: Vec<Value> = (0..5).map(|j| json!(["enc", ps(r, 100 + m, [0usize, 1, 2, 9, 300][(j + k) % 5])])).collect();
            ops.push(json!(["tree_ser"])); ops.push(json!(["enc", ps(r, 100 + m, 77)]));
            go(cx, json!({"run": "w_h0", "variant": 4, "train": ps(r, 100 + m, 300), "freqs": f, "simd": null, "par": {}, "ops": ops}));
        }
    }));
    // ---- G3: one AdaptiveParallelEncoder across the selector's thresholds (64 KiB, 1 MiB; entropy 2 / 6; 128 symbols) ----
    jobs.push(job("G3", move |cx, _r| {
        let mib = 1usize << 20;
        let ops = json!([["adapt", {"k": 5, "n": 65535, "s": 1}], ["adapt", {"k": 5, "n": 65536, "s": 2}], ["adapt", {"k": 9, "n": 70000, "s": 3}], ["adapt", {"k": 11, "n": 300, "s": 4}],
                         ["adapt", {"b": []}], ["adapt", {"b": [7]}], ["adapt", {"k": 3, "n": mib - 1, "s": 5}], ["adapt", {"k": 3, "n": mib + 1, "s": 6}], ["adapt", {"k": 5, "n": mib, "s": 7}],
                         ["adapt", {"k": 528, "n": 5000, "s": 8}], ["adapt", {"k": 529, "n": 5000, "s": 9}], ["adapt", {"k": 3, "n": 2000, "s": 10}], ["adapt", {"k": 5, "n": 300, "s": 11}],
                         // the same alphabet with other frequency ranks: a model kept from an earlier payload still encodes these
                         ["adapt", {"k": 11, "n": 500, "s": 12}], ["adapt", {"k": 108, "n": 400, "s": 13}], ["adapt", {"k": 808, "n": 400, "s": 14}], ["adapt", {"k": 108, "n": 70000, "s": 15}], ["adapt", {"k": 808, "n": 70001, "s": 16}],
                         ["adapt", {"k": 103, "n": 1100000, "s": 17}], ["adapt", {"k": 803, "n": 1100000, "s": 18}]]);
        go(cx, json!({"run": "w_h0", "variant": 8, "train": pb(b"ab"), "simd": null, "par": {}, "ops": ops}));
        // per size class (x2 / x4 / x8 front end): the first payload is the one a lazily trained model would stick to
        for (n1, n2) in [(400usize, 401usize), (70000, 70001), (1100000, 1100001)] {
            let ops = json!([["adapt", {"k": 108, "n": n1, "s": 1}], ["adapt", {"k": 808, "n": n2, "s": 2}], ["adapt", {"k": 108, "n": n2, "s": 3}], ["adapt", {"k": 103, "n": n1, "s": 4}]]);
            go(cx, json!({"run": "w_h0", "variant": 4, "train": pb(b"ab"), "simd": null, "par": {}, "ad_default": n1 == 400, "ops": ops}));
        }
        // 2^20: order-0 coder, SIMD coder, parallel front end
        go(cx, json!({"run": "w_h0", "variant": 8, "train": {"k": 11, "n": 4000, "s": 1}, "simd": {"tier": 0}, "par": {"preset": "high_throughput"},
                      "ops": [["enc", {"k": 11, "n": (1 << 20) + 1, "s": 2}], ["simd", {"k": 11, "n": (1 << 20) + 33, "s": 3}], ["ptrain", {"k": 11, "n": 3000, "s": 4}], ["penc", {"k": 11, "n": (1 << 20) + 1, "s": 5}], ["penc", {"k": 11, "n": 3, "s": 6}]]}));
    }));
    jobs.push(job("G3", move |cx, r| {
        for i in 0..(if cx.th { 40 } else { 6 }) {
            let ops: Vec<Value> = (0..6).map(|j| { let k = [5usize, 3, 9, 11, 700, 7, 500, 530, 106, 806, 11, 806][(i + j * 5) % 12]; let n = *r.pick(&[0usize, 1, 2, 100, 1000, 5000, 65535, 65537, 70000]); json!(["adapt", ps(r, k, n)]) }).collect();
            go(cx, json!({"run": "w_h0", "variant": 2, "train": pb(b"x"), "simd": null, "par": {}, "ops": ops}));
        }
    }));
    // ---- G4: contextual encoder objects ----
    for chunk in 0..(if th { 24 } else { 6 }) {
        jobs.push(job("G4", move |cx, r| {
            let lens = [0usize, 1, 2, 3, 5, 7, 8, 9, 15, 16, 17, 100, 257, 1000];
            for k in 0..(if cx.th { 12 } else { 8 }) {
                let order = ((k + chunk) % 3) as u64;
                let tk = [701usize, 5, 402, 10, 416, 11, 700][(k + chunk * 2) % 7];
                let tn = [2000usize, 300, 50, 7, 1, 0, 6000][(k * 3 + chunk) % 7];
                let nops = 4 + r.below(5) as usize;
                let mut ops = vec![];
                for j in 0..nops {
                    let pk = if r.chance(2, 3) { tk } else { *r.pick(&[5usize, 701, 402, 9]) };
                    let n = *r.pick(&lens);
                    let n = if n > 300 && !cx.th && j % 2 == 1 { 33 } else { n };
                    ops.push(match r.below(if order == 1 { 9 } else { 6 }) {
                        0 | 1 => json!(["enc", ps(r, pk, n)]),
                        2 => json!(["est", ps(r, pk, n)]),
                        3 => json!(["ser"]),
                        4 => json!(["reload"]),
                        5 => json!(["enc", ps(r, pk, n + 1)]),
                        _ => json!(["xn", ([1, 2, 4, 8][r.below(4) as usize]), r.below(2), r.below(2), ps(r, pk, n)]),
                    });
                }
                if order == 1 { ops.push(json!(["xn", ([1, 2, 4, 8][(k + chunk) % 4]), k % 2, 1, ps(r, 5, 40)])); } // a payload with symbols the earlier ones did not have
                go(cx, json!({"run": "w_ctx", "order": order, "train": {"k": tk, "n": tn, "s": chunk * 100 + k}, "ops": ops}));
            }
            // encoders loaded from crafted models: long codes, partial and single-leaf context trees
            for k in 0..(if cx.th { 30 } else { 14 }) {
                let order = ((k + chunk) % 3) as u8;
                let (v, al) = gen_view(r, order);
                let (tj, cjx) = view_json(&v);
                let nops = 3 + r.below(5) as usize;
                let mut ops = vec![];
                for _ in 0..nops {
                    let n = match r.below(4) { 0 => r.range(0, 9) as usize, 1 => *r.pick(&[15usize, 16, 17, 31, 32, 33]), _ => r.range(1, 90) as usize };
                    let fam = r.below(9);
                    let mut x = payload(r, fam, n, &al);
                    if r.chance(1, 10) && !x.is_empty() { let i = r.below(x.len() as u64) as usize; x[i] = r.next() as u8; }
                    if order >= 1 && r.chance(1, 2) { for (c, _) in &v.ctx { if order == 2 { x.push((c >> 8) as u8); } x.push(*c as u8); x.push(al[r.below(al.len() as u64) as usize]); } }
                    ops.push(match r.below(if order == 1 { 8 } else { 5 }) {
                        0 | 1 => json!(["enc", pb(&x)]),
                        2 => json!(["est", pb(&x)]),
                        3 => json!(["ser"]),
                        4 => json!(["reload"]),
                        _ => json!(["xn", ([1, 2, 4, 8][r.below(4) as usize]), r.below(2), r.below(2), pb(&x)]),
                    });
                }
                go(cx, json!({"run": "w_ctx", "order": order, "tables": tj, "ctxmap": cjx, "ops": ops}));
            }
        }));
    }
    // order-2 models with more than 1024 contexts (the constructor keeps the 1024 most frequent), order-1 with all 256
    jobs.push(job("G4", move |cx, r| {
        for (order, tk, tn) in [(2u64, 464usize, 12000usize), (2, 5, 20000), (1, 5, 20000), (1, 416, 3000), (2, 402, 5000)] {
            let ops = json!([["enc", ps(r, tk, 3000)], ["est", ps(r, tk, 100)], ["enc", ps(r, tk, 257)], ["ser"], ["enc", ps(r, 5, 1000)], ["xn", 4, 1, 1, ps(r, tk, 999)], ["xn", 8, 0, 0, ps(r, tk, if order == 1 { 65537 } else { 9 })], ["reload"], ["enc", ps(r, tk, if tk == 464 || cx.th { 65536 } else { 4097 })]]);
            go(cx, json!({"run": "w_ctx", "order": order, "train": {"k": tk, "n": tn, "s": 3}, "ops": ops}));
        }
        go(cx, json!({"run": "w_ctx", "order": 1, "train": {"k": 701, "n": 5000, "s": 1}, "ops": [["xn", 4, 1, 0, {"k": 701, "n": (1 << 20) + 3, "s": 2}], ["enc", {"k": 701, "n": (1 << 20) + 1, "s": 3}], ["xn", 2, 0, 1, {"k": 5, "n": 77, "s": 4}]]}));
    }));
    // ---- G5: rANS objects ----
    for n in [1u64, 2, 4, 8] {
        jobs.push(job("G5", move |cx, r| {
            let nn = n as usize;
            let lens = [0usize, 1, 2, nn.saturating_sub(1), nn, nn + 1, 2 * nn + 1, 100, 257, 4097];
            for k in 0..(if cx.th { 60 } else { 14 }) {
                let tk = [3usize, 5, 6, 8, 11, 1, 0, 416, 700, 13][k % 10];
                let mut ops = vec![];
                for j in 0..(4 + k % 4) {
                    let pk = if r.chance(3, 4) { tk } else { *r.pick(&[5usize, 3, 9]) };
                    let len = lens[(j * 3 + k) % lens.len()];
                    ops.push(json!([(["enc", "menc", "mdec", "enc", "redec", "menc"][(j + k) % 6]), ps(r, pk, len)]));
                }
                ops.push(json!(["enc", ps(r, tk, if k == 1 { (1 << 20) + nn - 1 } else { 65537 })]));
                let tn = [5000usize, 300, 4096, 70000][k % 4];
                go(cx, json!({"run": "w_rans", "n": n, "train": {"k": tk, "n": tn, "s": k}, "ops": ops}));
            }
            // tables that were not counted from data
            for k in 0..(if cx.th { 60 } else { 10 }) {
                let mut f = vec![0u32; 256];
                let nsym = *r.pick(&[1usize, 2, 3, 16, 255, 256]);
                for i in 0..nsym { f[(i * 91 + 5) % 256] = match r.below(5) { 0 => 1, 1 => r.range(1, 10) as u32, 2 => 1u32 << r.below(31), 3 => if nsym <= 2 { u32::MAX / 2 } else { r.range(1, 1 << 20) as u32 }, _ => r.range(1, 5000) as u32 }; }
                let ops: Vec<Value> = (0..4).map(|j| json!([(["menc", "enc", "mdec", "menc"][(j + k) % 4]), ps(r, 400 + nsym, ([1usize, 7, 100, 1000][(j + k) % 4]))])).collect();
                go(cx, json!({"run": "w_rans", "n": n, "freq": f, "ops": ops}));
            }
        }));
    }
    // one AdaptiveRans64Encoder across its thresholds 73, 73^2 (and 73^4 = 28 398 241: the x8 variant)
    jobs.push(job("G5", move |cx, _r| {
        let mut ops: Vec<Value> = [72usize, 73, 74, 0, 1, 5328, 5329, 5330, 70000, 72].iter().enumerate().map(|(i, &n)| json!(["adapt", {"k": ([3usize, 5, 7, 8, 11][i % 5]), "n": n.max(1) - (n == 0) as usize, "s": i}])).collect();
        ops.push(json!(["adapt", {"k": 3, "n": 73 * 73 * 73 * 73 - 1, "s": 1}]));
        ops.push(json!(["adapt", {"k": 6, "n": 73 * 73 * 73 * 73, "s": 2}]));
        ops.push(json!(["adapt", {"k": 11, "n": 75, "s": 3}]));
        go(cx, json!({"run": "w_rans", "n": 1, "train": pb(b"ab"), "ops": ops}));
    }));
    // ---- G6: FSE objects ----
    let all_cfgs: Vec<&'static str> = b::PRESETS.iter().cloned().chain(FSE_EXTRA.iter().cloned()).collect();
    for (ci, name) in all_cfgs.iter().cloned().enumerate() {
        jobs.push(job("G6", move |cx, r| {
            let mk = |spec: &[(u8, usize)], s: u64| -> Value { let mut v = vec![]; for &(b, n) in spec { v.extend(std::iter::repeat(b).take(n)); } let mut q = Rng::new(s + 1); for i in (1..v.len()).rev() { let j = q.below(i as u64 + 1) as usize; v.swap(i, j); } pb(&v) };
            let a = mk(&[(b'a', 400), (b'b', 300), (b'c', 200), (b'd', 100)], 1);
            let bsub = mk(&[(b'a', 400), (b'b', 300)], 2);
            let csup = mk(&[(b'a', 400), (b'b', 300), (b'c', 200), (b'd', 100), (b'e', 50)], 3);
            let short = mk(&[(b'a', 40), (b'b', 30)], 4);
            // every operation of the two objects, payloads in sub- / super-alphabet relations, both sides of the 100-byte and 64-byte thresholds
            let ops = json!([["c", a], ["c", bsub], ["analyze", csup], ["c", csup], ["c", a], ["ereset"], ["c", short], ["dreset"], ["c", {"k": 3, "n": 99, "s": 1}], ["c", {"k": 3, "n": 100, "s": 2}],
                             ["foreign", bsub], ["cfresh", a], ["c", {"b": []}], ["c", {"k": 5, "n": 63, "s": 3}], ["c", {"k": 5, "n": 64, "s": 4}], ["c", {"k": 5, "n": 65, "s": 5}], ["analyze", {"b": []}], ["c", {"k": 8, "n": 5256, "s": 6}],
                             ["analyze", {"k": 5, "n": 3000, "s": 7}], ["c", bsub], ["dreset"], ["foreign", {"k": 11, "n": 4097, "s": 8}], ["ereset"], ["c", {"k": 2, "n": 12801, "s": 9}], ["fn", ci % 2, {"k": 6, "n": 1000, "s": 10}]]);
            go(cx, json!({"run": "w_fse", "cfg": name, "plain_decoder": ci % 2 == 0, "ops": ops}));
            // the same with a dictionary-seeded encoder
            let ops = json!([["c", bsub], ["c", a], ["analyze", short], ["c", bsub], ["ereset"], ["c", {"k": 11, "n": 700, "s": 1}], ["cfresh", {"k": 3, "n": 101, "s": 2}]]);
            go(cx, json!({"run": "w_fse", "cfg": name, "dict": {"k": 11, "n": 2000, "s": ci}, "ops": ops}));
            go(cx, json!({"run": "w_fse", "cfg": name, "dict": {"b": []}, "ops": [["c", {"k": 1, "n": 150, "s": 1}], ["c", {"k": 9, "n": 150, "s": 2}], ["c", {"k": 0, "n": 150, "s": 3}]]}));
            // block-count boundaries of this configuration (2 * block_size, 64 blocks) where they are small
            let cfg = fse_cfg(name);
            if cfg.parallel_blocks.is_some() && cfg.block_size <= 4096 {
                let bs = cfg.block_size.max(1);
                let mut ops = vec![];
                for mlt in [2usize, 3, 64, 65] { for d in [0usize, 1, 63] { ops.push(json!(["c", {"k": ([3usize, 11, 6][d % 3]), "n": bs * mlt + d, "s": mlt}])); } }
                go(cx, json!({"run": "w_fse", "cfg": name, "ops": ops}));
            }
            // random histories
            for i in 0..(if cx.th { 30 } else { 3 }) {
                let base_k = r.below(14) as usize;
                let ops: Vec<Value> = (0..(3 + r.below(7))).map(|_| {
                    let k = if r.chance(2, 3) { base_k } else { r.below(14) as usize };
                    let n = *r.pick(&[0usize, 1, 63, 64, 99, 100, 101, 150, 1000, 4096, 4097]);
                    match r.below(10) { 0 => json!(["analyze", ps(r, k, n)]), 1 => json!(["ereset"]), 2 => json!(["dreset"]), 3 => json!(["foreign", ps(r, k, n)]), 4 => json!(["cfresh", ps(r, k, n)]), _ => json!(["c", ps(r, k, n)]) }
                }).collect();
                go(cx, json!({"run": "w_fse", "cfg": name, "plain_decoder": i % 2 == 1, "ops": ops}));
            }
        }));
    }
    // the presets at their own block sizes: high_compression cuts above 2 x 128 KiB and regroups above 64 x 128 KiB
    jobs.push(job("G6", move |cx, _r| {
        let kib = 1024usize;
        go(cx, json!({"run": "w_fse", "cfg": "high", "ops": [["c", {"k": 3, "n": 256 * kib, "s": 1}], ["c", {"k": 11, "n": 256 * kib + 1, "s": 2}], ["c", {"k": 6, "n": 64 * 128 * kib + 65, "s": 3}], ["c", {"k": 3, "n": 300, "s": 4}]]}));
        go(cx, json!({"run": "w_fse", "cfg": "realtime", "ops": [["c", {"k": 3, "n": 8 * kib, "s": 1}], ["c", {"k": 5, "n": 16 * kib + 1, "s": 2}], ["c", {"k": 11, "n": 64 * kib + 1, "s": 3}]]}));
        go(cx, json!({"run": "w_fse", "cfg": "par4_bs100", "ops": [["c", {"k": 11, "n": 1024 * kib + 1, "s": 1}], ["c", {"k": 3, "n": 6400, "s": 2}], ["c", {"k": 3, "n": 6401, "s": 3}]]}));
        go(cx, json!({"run": "w_lz", "which": 1, "min": 3, "max": 258, "window": 32768, "train": {"k": 700, "n": 100, "s": 1}, "ops": [["c", {"k": 13, "n": 1024 * kib + 1, "s": 1}], ["c", {"k": 11, "n": 300, "s": 2}]]}));
        go(cx, json!({"run": "w_fse", "cfg": "default", "ops": [["c", {"k": 5, "n": 1024 * kib + 1, "s": 1}], ["c", {"k": 8, "n": 64 * kib, "s": 2}], ["dreset"], ["c", {"k": 3, "n": 64 * kib - 1, "s": 3}]]}));
    }));
    // ---- G7: FseTable symbol-level API and the normaliser as a public function ----
    jobs.push(job("G7", move |cx, r| {
        for (ci, name) in ["default", "fast", "high", "realtime", "hw_off", "nonadaptive_simple", "tl5", "tl15_par2_bs128"].iter().enumerate() {
            for (ti, tk) in [3usize, 5, 8, 6, 11, 1, 2, 10, 9, 416].iter().enumerate() {
                let tn = [5256usize, 300, 4097, 100000][(ci + ti) % 4];
                let train = json!({"k": tk, "n": tn, "s": ti});
                for (di, dn) in [0usize, 1, 2, 99, 100, 1000].iter().enumerate() {
                    if !cx.th && (ci + ti + di) % 3 != 0 { continue; }
                    // the payload is a piece of the training text (covered) or foreign (refused or covered by luck)
                    let t = mat(&train);
                    let data = if (ti + di) % 4 == 3 { ps(r, 5, *dn) } else { let st = if t.len() > *dn { r.below((t.len() - dn) as u64) as usize } else { 0 }; let piece: Vec<u8> = t.iter().skip(st).take(*dn).cloned().collect(); if piece.len() <= 40 { pb(&piece) } else { json!({"k": tk, "n": dn, "s": ti + 100}) } };
                    go(cx, json!({"run": "w_fsetab", "cfg": name, "train": train, "data": data, "accel": (ti + di) % 2 == 0}));
                }
            }
        }
        // counts not taken from data
        for k in 0..(if cx.th { 200 } else { 40 }) {
            let nsym = *r.pick(&[2usize, 3, 16, 200, 256]);
            let mut f = vec![0u32; 256];
            for i in 0..nsym { f[(i * 91 + 5) % 256] = match k % 5 { 0 => 1, 1 => if i == 0 { 1 << 24 } else { 1 }, 2 => 1u32 << (i % 20), 3 => r.range(1, 100000) as u32, _ => if i < 2 { 5000 } else { 1 } }; }
            go(cx, json!({"run": "w_fsetab", "cfg": (["default", "fast"][k % 2]), "freq": f, "data": ps(r, 400 + nsym, ([1usize, 50, 400, 3000][k % 4])), "accel": k % 3 == 0}));
        }
        // EntropyNormalizer for any table size and any number of symbols
        for k in 0..(if cx.th { 1500 } else { 300 }) {
            let len = *r.pick(&[1usize, 2, 3, 16, 255, 256, 257, 1000]);
            let present = 1 + r.below(len as u64) as usize;
            let mut f = vec![0u32; len];
            for i in 0..present { let j = (i * 7919 + k) % len; f[j] = match k % 6 { 0 => 1, 1 => if i == 0 { 1_000_000 } else { 1 }, 2 => 1u32 << (i % 22), 3 => r.range(1, 1000) as u32, 4 => if i % 2 == 0 { 50000 } else { 1 }, _ => r.range(1, 3_000_000) as u32 }; }
            let np = f.iter().filter(|&&x| x > 0).count() as u64;
            let target = match (k / 6) % 9 { 0 => 4096, 1 => 256, 2 => 1024, 3 => 32, 4 => 1 << 15, 5 => np, 6 => np + 1, 7 => np.saturating_sub(1), _ => r.range(1, 70000) };
            go(cx, json!({"run": "w_norm", "freq": f, "target": target}));
        }
    }));
    // ---- G8: LZ compressor objects ----
    for which in 0..3u64 {
        jobs.push(job("G8", move |cx, r| {
            let settings: [(usize, usize, usize); 12] = [(3, 258, 32768), (10, 10, 32768), (12, 20, 100), (3, 9, 32768), (1, 1000, 10), (11, 258, 1), (0, 258, 32768), (3, 0, 32768), (3, 258, 0), (0, 0, 0), (300, 258, 32768), (4, 70000, 70000)];
            let builders = [json!(null), json!({"entries": 0}), json!({"entries": 1, "min": 1, "max": 4, "window": 3}), json!({"min": 0}), json!({"min": 5, "max": 2}), json!({"window": 0, "extra": true}), json!({"empty": true}), json!({"min": 300, "max": 1u64 << 40})];
            for (si, &(mn, mx, win)) in settings.iter().enumerate() {
                if which == 2 && si > 2 { break; }
                for ti in 0..(if cx.th { 6 } else { 2 }) {
                    let tk = [11usize, 12, 13, 702, 3, 701][(si + ti) % 6];
                    let tn = [600usize, 0, 2, 2500, 9, 40][(si * 2 + ti) % 6];
                    let mut ops = vec![];
                    for j in 0..(3 + (si + ti) % 4) {
                        let k = if j % 3 == 2 { *r.pick(&[13usize, 12, 9, 700]) } else { tk };
                        let n = [0usize, 1, 9, 10, 11, 30, 257, 258, 259, 600, 1500][(j * 5 + si + ti) % 11];
                        let n = if which != 0 && j == 1 && (si + ti) % 3 == 0 { 40000 } else { n };
                        ops.push(json!(["c", ps(r, k, n)]));
                        if j == 1 { ops.push(json!(["est", ps(r, tk, 50)])); }
                        if j == 2 { ops.push(json!(["reser"])); }
                    }
                    // the training text itself, and the training text behind a foreign prefix
                    ops.push(json!(["c", {"k": tk, "n": tn, "s": ti}]));
                    go(cx, json!({"run": "w_lz", "which": which, "min": mn, "max": mx, "window": win, "builder": builders[(si + ti) % builders.len()], "train": {"k": tk, "n": tn, "s": ti}, "ops": ops}));
                }
            }
            // matches at the window edge and at the longest length, on one object
            let marker = gen(700, 16, 5);
            let mut far = marker.clone(); far.extend(gen(700, 32768 - 16, 6)); far.extend_from_slice(&marker); far.extend_from_slice(b"tail");
            if which != 0 || cx.th {
                go(cx, json!({"run": "w_lz", "which": which, "min": 3, "max": 258, "window": 32768, "train": {"k": 700, "n": 100, "s": 1},
                              "ops": [["c", {"k": 702, "n": 3000, "s": 1}], ["c", {"k": 9, "n": 259 * 3 + 1, "s": 2}], ["c", {"k": 13, "n": 70000, "s": 3}], ["c", pb(&far)]]}));
            } else {
                go(cx, json!({"run": "w_lz", "which": 0, "min": 3, "max": 258, "window": 32768, "train": {"k": 700, "n": 100, "s": 1},
                              "ops": [["c", {"k": 702, "n": 3000, "s": 1}], ["c", {"k": 9, "n": 259 * 3 + 1, "s": 2}], ["reser"], ["c", {"k": 13, "n": 3000, "s": 3}]]}));
            }
        }));
    }
    // ---- G9: bit_ops deposit / extract pairs ----
    jobs.push(job("G9", move |cx, r| {
        let cfgs = [0u64, 1, 63, 9, 17, 33, 62, 127, 47, 31];
        let mask_sets: Vec<Vec<u64>> = vec![
            vec![0xFF, 0xFF00, 0xFFFF_0000, 0xFFFF_FFFF_0000_0000], vec![0x5555_5555_5555_5555, 0xAAAA_AAAA_AAAA_AAAA], vec![1, 2, 4, 1 << 63, 1 << 62], vec![u64::MAX], vec![],
            vec![0x7, 0x1F8, 0xFFFFFE00], vec![0xF0F0_F0F0_F0F0_F0F0, 0x0F0F_0F0F_0F0F_0F0F], vec![0x8000_0000_0000_0001, 0x7FFF_FFFF_0000_0000, 0xFFFF_FFFE], vec![0, 0xFF, 0],
        ];
        for (ci, &m) in cfgs.iter().enumerate() {
            for (mi, ms) in mask_sets.iter().enumerate() {
                for rep in 0..3u64 {
                    let vals: Vec<String> = ms.iter().map(|_| match rep { 0 => u64::MAX, 1 => r.next(), _ => r.next() & 0xFFFF }.to_string()).collect();
                    let mut vals = vals; vals.push((r.next() as u32).to_string());
                    let msj: Vec<String> = ms.iter().map(|x| x.to_string()).collect();
                    go(cx, json!({"run": "w_bits", "kind": "fields", "cfg": m, "vals": vals, "masks": msj, "tag": mi + ci}));
                }
            }
            for _ in 0..(if cx.th { 200 } else { 20 }) {
                let k = 1 + r.below(6) as usize;
                let msj: Vec<String> = (0..k).map(|_| (r.next() & r.next()).to_string()).collect();
                let vals: Vec<String> = (0..k + 1).map(|_| r.next().to_string()).collect();
                go(cx, json!({"run": "w_bits", "kind": "fields", "cfg": m, "vals": vals, "masks": msj}));
            }
            let edge = [0u64, 1, u64::MAX, 0x8000_0000_0000_0000, 0xFFFF_FFFF, 0x1_0000_0000, 0xAAAA_AAAA_5555_5555, 0x0123_4567_89AB_CDEF];
            let mut vals: Vec<String> = edge.iter().map(|x| x.to_string()).collect();
            for _ in 0..8 { vals.push(r.next().to_string()); }
            go(cx, json!({"run": "w_bits", "kind": "interleave", "cfg": m, "vals": vals}));
            go(cx, json!({"run": "w_bits", "kind": "reverse", "cfg": m, "vals": vals}));
            // (value, length, start) triples: every length at the extreme offsets, then random
            let mut t: Vec<String> = vec![];
            for len in 0..=33u64 { for start in [0u64, 1, 31, 32, 33, 63, 64 - len.min(64)] { t.push(match (len + start) % 3 { 0 => u32::MAX as u64, 1 => r.next() & 0xFFFF_FFFF, _ => 1u64 << (len.max(1) - 1).min(31) }.to_string()); t.push(len.to_string()); t.push(start.to_string()); } }
            go(cx, json!({"run": "w_bits", "kind": "varlen", "cfg": m, "vals": t, "masks": [r.next().to_string()]}));
            go(cx, json!({"run": "w_bits", "kind": "varlen", "cfg": m, "vals": t, "masks": [u64::MAX.to_string()]}));
        }
    }));
    jobs
}
