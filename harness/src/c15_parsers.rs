//! C15: the table of byte parsers of zipora that the oracle drives (one cell per entry).
//! Every `run` takes the untrusted bytes and one "expected length"-style argument and returns
//! Ok(observation) when the parser returned a value, Err(text) when it returned an error.
//! Panics are caught by the caller; aborts / signals / hangs are seen by the parent process.
use crate::util::Rng;
use std::cell::RefCell;
use std::collections::{BTreeMap, BTreeSet, HashMap, HashSet};
use std::rc::Rc;
use std::sync::Arc;

use zipora::compression::dict_zip::compression_types as pz;
use zipora::compression::{Algorithm, Compressor, CompressorFactory};
use zipora::entropy::dictionary::Dictionary;
use zipora::entropy::{
    ContextualHuffmanDecoder, ContextualHuffmanEncoder, DictionaryBuilder, DictionaryCompressor, HuffmanDecoder,
    HuffmanEncoder, HuffmanOrder, HuffmanTree, OptimizedDictionaryCompressor, ParallelX1, ParallelX2, ParallelX4,
    ParallelX8, Rans64Encoder, RansDecoder,
};
use zipora::io::var_int::{SignedVarInt, VarInt};
use zipora::io::var_int_variants::{VarIntEncoder, VarIntStrategy};
use zipora::io::{
    ComplexTypeConfig, ComplexTypeSerializer, DataInput, SerializableType, SliceDataInput,
    SmartPtrSerializer,
};

pub type R = Result<Vec<i128>, String>;

pub struct Seed {
    pub bytes: Vec<u8>,
    /// the true decoded length (the "expected length" argument a caller would pass)
    pub len: u64,
}

pub struct Parser {
    pub name: &'static str,
    /// id of the Gallina model of this parser in coq/C15/Model.v (0 = oracle only)
    pub model: u32,
    pub has_arg: bool,
    /// cheap enough for the full two-byte universe in the quick tier
    pub cheap: bool,
    pub run: fn(&[u8], u64) -> R,
    pub seeds: fn(&mut Rng) -> Vec<Seed>,
    /// auxiliary numbers the model of this cell needs (trained tables, CPU features); empty for most
    pub aux: fn() -> Vec<u64>,
    /// the auxiliary numbers are large (a trained contextual encoder): they are defined once per case file
    /// and parsed once (`cenv` in the shard header); the case carries this key (0 = inline aux)
    pub env: u32,
}
pub fn no_aux() -> Vec<u64> { vec![] }

pub const TRAIN: &[u8] = b"the quick brown fox jumps over the lazy dog. the quick brown fox jumps again and again; \
pack my box with five dozen liquor jugs! 0123456789 0123456789 AAAAAAAAAAAAAAAABBBBBBBBCCCCDDE \
sphinx of black quartz, judge my vow. the five boxing wizards jump quickly. \x00\x01\x02\x03\xff\xfe\xfd\x80\x7f \
how vexingly quick daft zebras jump; the quick brown fox jumps over the lazy dog once more.";

fn es<E: std::fmt::Display>(e: E) -> String {
    let mut s = e.to_string();
    s.truncate(80);
    s
}
fn obs_bytes(v: &[u8]) -> Vec<i128> {
    let mut o = vec![v.len() as i128];
    o.extend(v.iter().take(24).map(|&b| b as i128));
    o
}
fn usz(arg: u64) -> usize { arg as usize }

pub fn messages(r: &mut Rng) -> Vec<Vec<u8>> {
    let mut skew = vec![b'a'; 60];
    for i in 0..8 { skew[i * 7] = b'b' + (i as u8 % 3); }
    vec![
        b"a".to_vec(),
        b"abracadabra abracadabra".to_vec(),
        vec![b'z'; 40],
        TRAIN[..120].to_vec(),
        skew,
        r.bytes(24),
    ]
}
fn s0(bytes: Vec<u8>) -> Seed { Seed { bytes, len: 0 } }

// ---------------------------------------------------------------------------------------------
// varints (src/io/var_int.rs, src/io/var_int_variants.rs)
// ---------------------------------------------------------------------------------------------
pub const STRATS: [(VarIntStrategy, &str); 7] = [
    (VarIntStrategy::Leb128, "leb128"),
    (VarIntStrategy::Zigzag, "zigzag"),
    (VarIntStrategy::Delta, "delta"),
    (VarIntStrategy::GroupVarint, "group_varint"),
    (VarIntStrategy::PrefixFree, "prefix_free"),
    (VarIntStrategy::Compact, "compact"),
    (VarIntStrategy::Simd, "simd"),
];
fn p_varint(b: &[u8], _: u64) -> R { VarInt::decode(b).map(|(v, n)| vec![v as i128, n as i128]).map_err(es) }
fn p_varint_multi(b: &[u8], _: u64) -> R {
    VarInt::decode_multiple(b).map(|v| v.into_iter().map(|x| x as i128).collect()).map_err(es)
}
fn p_varint_signed(b: &[u8], _: u64) -> R {
    <VarInt as SignedVarInt>::decode_signed(b).map(|(v, n)| vec![v as i128, n as i128]).map_err(es)
}
fn p_vie_u64<const S: usize>(b: &[u8], _: u64) -> R {
    VarIntEncoder::new(STRATS[S].0).decode_u64(b).map(|(v, n)| vec![v as i128, n as i128]).map_err(es)
}
fn p_vie_i64<const S: usize>(b: &[u8], _: u64) -> R {
    VarIntEncoder::new(STRATS[S].0).decode_i64(b).map(|(v, n)| vec![v as i128, n as i128]).map_err(es)
}
fn p_vie_u64_seq<const S: usize>(b: &[u8], _: u64) -> R {
    VarIntEncoder::new(STRATS[S].0).decode_u64_sequence(b).map(|v| v.into_iter().map(|x| x as i128).collect()).map_err(es)
}
fn p_vie_i64_seq<const S: usize>(b: &[u8], _: u64) -> R {
    VarIntEncoder::new(STRATS[S].0).decode_i64_sequence(b).map(|v| v.into_iter().map(|x| x as i128).collect()).map_err(es)
}
fn u64_pool(r: &mut Rng) -> Vec<u64> {
    vec![0, 1, 127, 128, 300, 16383, 16384, (1 << 32) - 1, 1 << 32, (1 << 63) - 1, 1 << 63, u64::MAX, r.next(), r.next() >> 20]
}
fn seeds_varint(r: &mut Rng) -> Vec<Seed> { u64_pool(r).into_iter().map(|v| s0(VarInt::encode(v))).collect() }
fn seeds_varint_multi(r: &mut Rng) -> Vec<Seed> {
    let p = u64_pool(r);
    vec![s0(VarInt::encode_multiple(p.iter().cloned())), s0(VarInt::encode_multiple([5u64, 500, 50000])), s0(vec![])]
}
fn seeds_varint_signed(r: &mut Rng) -> Vec<Seed> {
    [0i64, -1, 63, -64, 64, -65, i64::MAX, i64::MIN, r.next() as i64].iter().map(|&v| s0(<VarInt as SignedVarInt>::encode_signed(v))).collect()
}
fn seeds_vie_u64<const S: usize>(r: &mut Rng) -> Vec<Seed> {
    let e = VarIntEncoder::new(STRATS[S].0);
    let mut v: Vec<Seed> = u64_pool(r).into_iter().filter_map(|x| e.encode_u64(x).ok()).map(s0).collect();
    if v.is_empty() { v.push(s0(vec![0x85, 0x01])); }
    v
}
fn seeds_vie_i64<const S: usize>(r: &mut Rng) -> Vec<Seed> {
    let e = VarIntEncoder::new(STRATS[S].0);
    let mut v: Vec<Seed> = [0i64, -1, 63, -64, 64, -65, 1 << 40, i64::MAX, i64::MIN, r.next() as i64]
        .iter().filter_map(|&x| e.encode_i64(x).ok()).map(s0).collect();
    if v.is_empty() { v.push(s0(vec![0x85, 0x01])); }
    v
}
fn seq_pool_u(r: &mut Rng) -> Vec<Vec<u64>> {
    vec![
        vec![],
        vec![7],
        vec![1, 2, 3, 4, 5],
        vec![100, 90, 1000, 5, 70000, 70001],
        vec![0, 255, 256, 65535, 65536, (1 << 24) - 1, 1 << 24, (1 << 32) - 1],
        (0..9).map(|_| r.next() >> 34).collect(),
        vec![1 << 40, (1 << 40) + 5, (1 << 40) - 9],
    ]
}
fn seeds_vie_u64_seq<const S: usize>(r: &mut Rng) -> Vec<Seed> {
    let e = VarIntEncoder::new(STRATS[S].0);
    let mut v: Vec<Seed> = seq_pool_u(r).into_iter()
        .filter_map(|xs| crate::util::guarded(|| e.encode_u64_sequence(&xs).ok()).ok().flatten()).map(s0).collect();
    if v.is_empty() { v.push(s0(vec![3, 1, 2, 3])); }
    v
}
fn seeds_vie_i64_seq<const S: usize>(r: &mut Rng) -> Vec<Seed> {
    let e = VarIntEncoder::new(STRATS[S].0);
    let pool: Vec<Vec<i64>> = vec![
        vec![], vec![-7], vec![1, -2, 3, -4, 5], vec![100, 90, -1000, 5, 70000, -70001],
        (0..9).map(|_| (r.next() as i64) >> 34).collect(), vec![i64::MIN, i64::MAX, 0],
    ];
    let mut v: Vec<Seed> = pool.into_iter()
        .filter_map(|xs| crate::util::guarded(|| e.encode_i64_sequence(&xs).ok()).ok().flatten()).map(s0).collect();
    if v.is_empty() { v.push(s0(vec![3, 1, 2, 3])); }
    v
}

// ---------------------------------------------------------------------------------------------
// DataInput over a slice, collection decoders (src/io/data_input.rs, complex_types.rs, smart_ptr.rs)
// ---------------------------------------------------------------------------------------------
fn p_sdi_lp_bytes(b: &[u8], _: u64) -> R {
    let mut i = SliceDataInput::new(b);
    i.read_length_prefixed_bytes().map(|v| { let mut o = vec![i.pos() as i128]; o.extend(obs_bytes(&v)); o }).map_err(es)
}
fn p_sdi_lp_string(b: &[u8], _: u64) -> R {
    let mut i = SliceDataInput::new(b);
    i.read_length_prefixed_string().map(|v| vec![i.pos() as i128, v.len() as i128]).map_err(es)
}
fn p_sdi_skip(b: &[u8], _: u64) -> R {
    let mut i = SliceDataInput::new(b);
    let n = i.read_var_int().map_err(es)?;
    i.skip(n as usize).map_err(es)?;
    let x = i.read_u8().map_err(es)?;
    Ok(vec![n as i128, x as i128, i.pos() as i128])
}
/// what a caller does after a skip was refused (the length came from hostile input): it keeps using the reader - to show what
/// is left, to resynchronise, to try the next field.  Every one of these calls answers or refuses; none may crash.
macro_rules! after_refused_skip { ($i:ident) => {{
    let n = $i.read_var_int().map_err(es)?;
    let refused = $i.skip(n as usize).is_err();
    let rest = $i.remaining_slice().len();
    let a = $i.read_u16().is_ok(); let c = $i.read_u32().is_ok(); let d = $i.read_u64().is_ok();
    let mut buf = [0u8; 3]; let e = $i.read_bytes(&mut buf).is_ok();
    let refused2 = $i.skip(usize::MAX).is_err();
    let rest2 = $i.remaining_slice().len();
    let f = $i.read_u16().is_ok(); let g = $i.read_u32().is_ok(); let h = $i.read_u64().is_ok();
    let mut buf2 = [0u8; 9]; let k = $i.read_bytes(&mut buf2).is_ok();
    let v = $i.read_var_int().is_ok(); let l = $i.read_length_prefixed_bytes().is_ok();
    let refused3 = $i.skip(usize::MAX - 1).is_err();
    let rest3 = $i.remaining_slice().len() + $i.remaining();
    Ok(vec![n as i128, refused as i128, rest as i128, a as i128, c as i128, d as i128, e as i128, refused2 as i128, rest2 as i128, f as i128, g as i128, h as i128, k as i128, v as i128, l as i128, refused3 as i128, rest3 as i128])
}} }
fn p_sdi_after_skip(b: &[u8], _: u64) -> R {
    let mut i = SliceDataInput::new(b);
    after_refused_skip!(i)
}
fn p_mmap_after_skip(b: &[u8], _: u64) -> R {
    let p = tmp_path("mmapskip");
    std::fs::write(&p, b).map_err(es)?;
    let r = (|| -> R { let mut i = zipora::io::MmapDataInput::open(&p).map_err(es)?; after_refused_skip!(i) })();
    let _ = std::fs::remove_file(&p);
    r
}
fn seeds_after_skip(_r: &mut Rng) -> Vec<Seed> {
    vec![s0(vec![0xFF, 0xFF, 0xFF, 0xFF, 0xFF, 0xFF, 0xFF, 0xFF, 0xFF, 0x01, 1, 2, 3, 4, 5, 6, 7, 8, 9, 10, 11, 12]), s0(vec![100, 1, 2, 3, 4, 5, 6, 7, 8]), s0(vec![2, 1, 2, 3]),
         s0(vec![9, 1, 2, 3, 4, 5, 6, 7, 8]), s0(vec![0xFF, 0xFF, 0xFF, 0xFF, 0xFF, 0xFF, 0xFF, 0xFF, 0x7F, 1, 2]), s0(vec![0])]
}
fn p_sdi_fixed(b: &[u8], _: u64) -> R {
    let mut i = SliceDataInput::new(b);
    let a = i.read_u8().map_err(es)?;
    let c = i.read_u16().map_err(es)?;
    let d = i.read_u32().map_err(es)?;
    let e = i.read_u64().map_err(es)?;
    let f = i.read_var_int().map_err(es)?;
    Ok(vec![a as i128, c as i128, d as i128, e as i128, f as i128, i.pos() as i128])
}
// the same length-prefixed / explicit-length reads through every DataInput implementation
// (K: 0 slice, 1 std::io::Read, 2 RangeReader over a cursor, 3 mmap file)
fn with_input<const K: usize, T>(b: &[u8], f: impl FnOnce(&mut dyn FnMut(&mut dyn FnMut(&mut dyn DynIn) -> R) -> R) -> T) -> T {
    let mut call = |g: &mut dyn FnMut(&mut dyn DynIn) -> R| -> R {
        match K {
            0 => g(&mut SliceDataInput::new(b)),
            1 => g(&mut zipora::io::ReaderDataInput::new(std::io::Cursor::new(b))),
            2 => g(&mut zipora::io::RangeReader::new(std::io::Cursor::new(b), 0, b.len() as u64)),
            _ => {
                let p = tmp_path("dyn_in");
                std::fs::write(&p, b).map_err(es)?;
                let r = match zipora::io::MmapDataInput::open(&p) { Ok(mut i) => g(&mut i), Err(e) => Err(es(e)) };
                let _ = std::fs::remove_file(&p);
                r
            }
        }
    };
    f(&mut call)
}
/// object-safe view of the DataInput methods the cells use
trait DynIn {
    fn lp_bytes(&mut self) -> zipora::Result<Vec<u8>>;
    fn lp_string(&mut self) -> zipora::Result<String>;
    fn string(&mut self, n: usize) -> zipora::Result<String>;
    fn vec(&mut self, n: usize) -> zipora::Result<Vec<u8>>;
    fn var(&mut self) -> zipora::Result<u64>;
    fn skip_n(&mut self, n: usize) -> zipora::Result<()>;
    fn u8_(&mut self) -> zipora::Result<u8>;
    fn de_string(&mut self) -> zipora::Result<String>;
    fn de_vec_string(&mut self) -> zipora::Result<Vec<String>>;
}
impl<I: DataInput> DynIn for I {
    fn lp_bytes(&mut self) -> zipora::Result<Vec<u8>> { self.read_length_prefixed_bytes() }
    fn lp_string(&mut self) -> zipora::Result<String> { self.read_length_prefixed_string() }
    fn string(&mut self, n: usize) -> zipora::Result<String> { self.read_string(n) }
    fn vec(&mut self, n: usize) -> zipora::Result<Vec<u8>> { self.read_vec(n) }
    fn var(&mut self) -> zipora::Result<u64> { self.read_var_int() }
    fn skip_n(&mut self, n: usize) -> zipora::Result<()> { self.skip(n) }
    fn u8_(&mut self) -> zipora::Result<u8> { self.read_u8() }
    fn de_string(&mut self) -> zipora::Result<String> { <String as SerializableType>::deserialize(self) }
    fn de_vec_string(&mut self) -> zipora::Result<Vec<String>> { <Vec<String> as SerializableType>::deserialize(self) }
}
fn p_in_lp_bytes<const K: usize>(b: &[u8], _: u64) -> R {
    with_input::<K, R>(b, |call| call(&mut |i| i.lp_bytes().map(|v| obs_bytes(&v)).map_err(es)))
}
fn p_in_lp_string<const K: usize>(b: &[u8], _: u64) -> R {
    with_input::<K, R>(b, |call| call(&mut |i| i.lp_string().map(|v| vec![v.len() as i128]).map_err(es)))
}
fn p_in_string<const K: usize>(b: &[u8], arg: u64) -> R {
    with_input::<K, R>(b, |call| call(&mut |i| i.string(usz(arg)).map(|v| vec![v.len() as i128]).map_err(es)))
}
fn p_in_vec<const K: usize>(b: &[u8], arg: u64) -> R {
    with_input::<K, R>(b, |call| call(&mut |i| i.vec(usz(arg)).map(|v| obs_bytes(&v)).map_err(es)))
}
fn p_in_skip<const K: usize>(b: &[u8], _: u64) -> R {
    with_input::<K, R>(b, |call| call(&mut |i| {
        let n = i.var().map_err(es)?;
        i.skip_n(n as usize).map_err(es)?;
        let x = i.u8_().map_err(es)?;
        Ok(vec![n as i128, x as i128])
    }))
}
fn p_in_de_string<const K: usize>(b: &[u8], _: u64) -> R {
    with_input::<K, R>(b, |call| call(&mut |i| i.de_string().map(|v| vec![v.len() as i128]).map_err(es)))
}
fn p_in_de_vec_string<const K: usize>(b: &[u8], _: u64) -> R {
    with_input::<K, R>(b, |call| call(&mut |i| i.de_vec_string().map(|v| vec![v.len() as i128]).map_err(es)))
}
fn seeds_raw(_r: &mut Rng) -> Vec<Seed> {
    vec![Seed { bytes: b"hello, world".to_vec(), len: 12 }, Seed { bytes: vec![b'x'; 300], len: 300 }, Seed { bytes: vec![], len: 0 }]
}
fn seeds_de_vec_string(_r: &mut Rng) -> Vec<Seed> { vec![s0(ser(&vec!["a".to_string(), "bcd".to_string(), String::new()])), s0(ser(&Vec::<String>::new()))] }
fn seeds_lp(_r: &mut Rng) -> Vec<Seed> {
    use zipora::io::{DataOutput, VecDataOutput};
    let mut v = vec![];
    for s in ["", "hello", "a much longer string that needs more than a few bytes to be stored .........................................................................................................."] {
        let mut o = VecDataOutput::new();
        o.write_length_prefixed_string(s).unwrap();
        v.push(s0(o.into_vec()));
    }
    v
}
fn seeds_sdi_skip(_r: &mut Rng) -> Vec<Seed> { vec![s0(vec![3, 9, 9, 9, 42]), s0(vec![0, 7]), s0(vec![0x81, 0x01].into_iter().chain(std::iter::repeat(5).take(130)).collect())] }
fn seeds_sdi_fixed(_r: &mut Rng) -> Vec<Seed> { vec![s0(vec![1, 2, 0, 3, 0, 0, 0, 4, 0, 0, 0, 0, 0, 0, 0, 0x85, 0x01])] }

type T3 = (u32, String, Vec<u32>);
fn cx(meta: bool) -> ComplexTypeSerializer {
    if meta { ComplexTypeSerializer::new(ComplexTypeConfig::new()) } else { ComplexTypeSerializer::new(ComplexTypeConfig::fast()) }
}
fn p_cx_tuple<const META: bool>(b: &[u8], _: u64) -> R {
    cx(META).deserialize_from_bytes::<T3>(b).map(|t| vec![t.0 as i128, t.1.len() as i128, t.2.len() as i128]).map_err(es)
}
fn p_cx_hashmap<const META: bool>(b: &[u8], _: u64) -> R {
    cx(META).deserialize_from_bytes::<HashMap<u32, String>>(b).map(|t| vec![t.len() as i128]).map_err(es)
}
fn p_cx_hashset(b: &[u8], _: u64) -> R { cx(false).deserialize_from_bytes::<HashSet<u32>>(b).map(|t| vec![t.len() as i128]).map_err(es) }
fn p_cx_btreemap(b: &[u8], _: u64) -> R { cx(false).deserialize_from_bytes::<BTreeMap<u32, u64>>(b).map(|t| vec![t.len() as i128]).map_err(es) }
fn p_cx_btreeset(b: &[u8], _: u64) -> R { cx(false).deserialize_from_bytes::<BTreeSet<u16>>(b).map(|t| vec![t.len() as i128]).map_err(es) }
fn p_cx_array(b: &[u8], _: u64) -> R { cx(false).deserialize_from_bytes::<[u32; 4]>(b).map(|t| t.iter().map(|&x| x as i128).collect()).map_err(es) }
fn p_cx_option(b: &[u8], _: u64) -> R { cx(true).deserialize_from_bytes::<Option<String>>(b).map(|t| vec![t.map(|s| s.len() as i128).unwrap_or(-1)]).map_err(es) }
fn p_cx_batch<const META: bool>(b: &[u8], _: u64) -> R { cx(META).deserialize_batch::<T3>(b).map(|t| vec![t.len() as i128]).map_err(es) }
fn p_ser_vec_u32(b: &[u8], _: u64) -> R {
    let mut i = SliceDataInput::new(b);
    <Vec<u32> as SerializableType>::deserialize(&mut i).map(|v| v.into_iter().map(|x| x as i128).collect()).map_err(es)
}
fn p_ser_vecvec(b: &[u8], _: u64) -> R {
    let mut i = SliceDataInput::new(b);
    <Vec<Vec<String>> as SerializableType>::deserialize(&mut i).map(|v| vec![v.len() as i128]).map_err(es)
}
fn sample_t3() -> Vec<T3> { vec![(42, "hello".to_string(), vec![1, 2, 3]), (0, String::new(), vec![]), (u32::MAX, "x".repeat(40), vec![9; 12])] }
fn seeds_cx_tuple<const META: bool>(_r: &mut Rng) -> Vec<Seed> { sample_t3().iter().filter_map(|t| cx(META).serialize_to_bytes(t).ok()).map(s0).collect() }
fn seeds_cx_hashmap<const META: bool>(_r: &mut Rng) -> Vec<Seed> {
    let mut m = HashMap::new();
    for i in 0..5u32 { m.insert(i * 1000, format!("value{}", i)); }
    vec![s0(cx(META).serialize_to_bytes(&m).unwrap()), s0(cx(META).serialize_to_bytes(&HashMap::<u32, String>::new()).unwrap())]
}
fn seeds_cx_hashset(_r: &mut Rng) -> Vec<Seed> { let s: HashSet<u32> = (0..6).map(|i| i * 77).collect(); vec![s0(cx(false).serialize_to_bytes(&s).unwrap())] }
fn seeds_cx_btreemap(_r: &mut Rng) -> Vec<Seed> { let s: BTreeMap<u32, u64> = (0..6).map(|i| (i * 77, (i as u64) << 40)).collect(); vec![s0(cx(false).serialize_to_bytes(&s).unwrap())] }
fn seeds_cx_btreeset(_r: &mut Rng) -> Vec<Seed> { let s: BTreeSet<u16> = (0..6).map(|i| i * 777).collect(); vec![s0(cx(false).serialize_to_bytes(&s).unwrap())] }
fn seeds_cx_array(_r: &mut Rng) -> Vec<Seed> { vec![s0(cx(false).serialize_to_bytes(&[1u32, 2, 3, 0xFFFF_FFFF]).unwrap())] }
fn seeds_cx_option(_r: &mut Rng) -> Vec<Seed> { vec![s0(cx(true).serialize_to_bytes(&Some("opt".to_string())).unwrap()), s0(cx(true).serialize_to_bytes(&Option::<String>::None).unwrap())] }
fn seeds_cx_batch<const META: bool>(_r: &mut Rng) -> Vec<Seed> { vec![s0(cx(META).serialize_batch(&sample_t3()).unwrap()), s0(cx(META).serialize_batch::<T3>(&[]).unwrap())] }
fn ser<T: SerializableType>(t: &T) -> Vec<u8> { let mut o = zipora::io::VecDataOutput::new(); t.serialize(&mut o).unwrap(); o.into_vec() }
fn seeds_ser_vec_u32(_r: &mut Rng) -> Vec<Seed> { vec![s0(ser(&vec![1u32, 2, 3, 70000])), s0(ser(&Vec::<u32>::new()))] }
fn seeds_ser_vecvec(_r: &mut Rng) -> Vec<Seed> { vec![s0(ser(&vec![vec!["a".to_string(), "bc".to_string()], vec![], vec!["def".to_string()]]))] }

fn p_sp_box(b: &[u8], _: u64) -> R { SmartPtrSerializer::default().deserialize_from_bytes::<Vec<u32>, Box<Vec<u32>>>(b).map(|v| vec![v.len() as i128]).map_err(es) }
fn p_sp_rc(b: &[u8], _: u64) -> R { SmartPtrSerializer::default().deserialize_from_bytes::<String, Rc<String>>(b).map(|v| vec![v.len() as i128]).map_err(es) }
fn p_sp_arc(b: &[u8], _: u64) -> R { SmartPtrSerializer::default().deserialize_from_bytes::<Vec<u64>, Arc<Vec<u64>>>(b).map(|v| vec![v.len() as i128]).map_err(es) }
fn p_sp_optbox(b: &[u8], _: u64) -> R { SmartPtrSerializer::default().deserialize_from_bytes::<String, Option<Box<String>>>(b).map(|v| vec![v.map(|s| s.len() as i128).unwrap_or(-1)]).map_err(es) }
fn seeds_sp_box(_r: &mut Rng) -> Vec<Seed> { vec![s0(SmartPtrSerializer::default().serialize_to_bytes(&Box::new(vec![1u32, 2, 3])).unwrap())] }
fn seeds_sp_rc(_r: &mut Rng) -> Vec<Seed> { vec![s0(SmartPtrSerializer::default().serialize_to_bytes(&Rc::new("shared".to_string())).unwrap())] }
fn seeds_sp_arc(_r: &mut Rng) -> Vec<Seed> { vec![s0(SmartPtrSerializer::default().serialize_to_bytes(&Arc::new(vec![1u64 << 40, 2])).unwrap())] }
fn seeds_sp_optbox(_r: &mut Rng) -> Vec<Seed> {
    vec![s0(SmartPtrSerializer::default().serialize_to_bytes(&Some(Box::new("b".to_string()))).unwrap()),
         s0(SmartPtrSerializer::default().serialize_to_bytes(&Option::<Box<String>>::None).unwrap())]
}

// ---------------------------------------------------------------------------------------------
// Huffman (src/entropy/huffman.rs)
// ---------------------------------------------------------------------------------------------
thread_local! {
    static HUFF: (HuffmanEncoder, HuffmanDecoder) = {
        let e = HuffmanEncoder::new(TRAIN).unwrap();
        let d = HuffmanDecoder::new(e.tree().clone());
        (e, d)
    };
    static CTX: Vec<ContextualHuffmanEncoder> = vec![
        ContextualHuffmanEncoder::new(TRAIN, HuffmanOrder::Order0).unwrap(),
        ContextualHuffmanEncoder::new(TRAIN, HuffmanOrder::Order1).unwrap(),
        ContextualHuffmanEncoder::new(TRAIN, HuffmanOrder::Order2).unwrap(),
    ];
    // the decoders hold a copy (through serialize / deserialize) of the CTX instances, so that the
    // tables the model is given (CTX[o].serialize()) are the tables the decoder uses
    static CTXDEC: Vec<ContextualHuffmanDecoder> = (0..3).map(|o| {
        ContextualHuffmanDecoder::new(CTX.with(|c| ContextualHuffmanEncoder::deserialize(&c[o].serialize()).unwrap()))
    }).collect();
}
const PAYLOAD: &[u8] = &[0x5A, 0xC3, 0x00, 0xFF, 0x17, 0x88, 0x31, 0xE2, 0x4D, 0x90, 0x0F, 0xF0, 0xAA, 0x55, 0x01, 0x80];

fn p_huff_tree(b: &[u8], _: u64) -> R { HuffmanTree::deserialize(b).map(|t| vec![t.max_code_length() as i128]).map_err(es) }
fn p_huff_decode(b: &[u8], arg: u64) -> R { HUFF.with(|h| h.1.decode(b, usz(arg)).map(|v| obs_bytes(&v)).map_err(es)) }
fn p_huff_tree_then_decode(b: &[u8], arg: u64) -> R {
    let t = HuffmanTree::deserialize(b).map_err(es)?;
    HuffmanDecoder::new(t).decode(PAYLOAD, usz(arg)).map(|v| obs_bytes(&v)).map_err(es)
}
fn p_ctx_deser(b: &[u8], _: u64) -> R { ContextualHuffmanEncoder::deserialize(b).map(|e| vec![e.tree_count() as i128]).map_err(es) }
fn p_ctx_deser_then_decode(b: &[u8], arg: u64) -> R {
    let e = ContextualHuffmanEncoder::deserialize(b).map_err(es)?;
    let x = e.decode_x2(PAYLOAD, usz(arg).min(64)).map(|v| v.len() as i128).unwrap_or(-1);
    let d = ContextualHuffmanDecoder::new(e);
    d.decode(PAYLOAD, usz(arg)).map(|v| vec![v.len() as i128, x]).map_err(es)
}
fn p_ctx_decode<const O: usize>(b: &[u8], arg: u64) -> R { CTXDEC.with(|d| d[O].decode(b, usz(arg)).map(|v| obs_bytes(&v)).map_err(es)) }
fn p_ctx_decode_x<const N: usize>(b: &[u8], arg: u64) -> R {
    CTX.with(|c| {
        let e = &c[1];
        match N { 1 => e.decode_x1(b, usz(arg)), 2 => e.decode_x2(b, usz(arg)), 4 => e.decode_x4(b, usz(arg)), _ => e.decode_x8(b, usz(arg)) }
            .map(|v| obs_bytes(&v)).map_err(es)
    })
}
fn b64v(v: Vec<u8>) -> Vec<u64> { v.into_iter().map(|x| x as u64).collect() }
fn aux_huff() -> Vec<u64> { b64v(HUFF.with(|h| h.0.tree().serialize())) }
fn aux_ctx<const O: usize>() -> Vec<u64> { b64v(CTX.with(|c| c[O].serialize())) }
fn aux_ctx_mono<const O: usize>() -> Vec<u64> { b64v(CTX_MONO.with(|c| c[O].serialize())) }
/// small hand-made contextual encoders (deserialize does not ask for complete alphabets): short enough
/// for the Coq cases.  tree = [count u16][symbol, code_len, code bytes]*
fn crafted_ctx() -> Vec<Vec<u8>> {
    let t_abc: Vec<u8> = vec![3, 0, b'a', 1, 0b0, b'b', 2, 0b01, b'c', 2, 0b11];
    let t_ab: Vec<u8> = vec![2, 0, b'a', 1, 0b1, b'b', 1, 0b0];
    let t_one: Vec<u8> = vec![1, 0, b'z', 1, 0];
    let t_long: Vec<u8> = vec![3, 0, 0x5A, 1, 0, 0xC3, 9, 0xFF, 0x00, 0x00, 14, 0xFD, 0x3F];
    let mk = |order: u8, map: &[(u32, u32)], trees: &[&Vec<u8>]| -> Vec<u8> {
        let mut v = vec![order];
        v.extend_from_slice(&(trees.len() as u32).to_le_bytes());
        v.extend_from_slice(&(map.len() as u32).to_le_bytes());
        for (c, i) in map { v.extend_from_slice(&c.to_le_bytes()); v.extend_from_slice(&i.to_le_bytes()); }
        for t in trees { v.extend_from_slice(&(t.len() as u32).to_le_bytes()); v.extend_from_slice(t); }
        v
    };
    vec![
        mk(1, &[(b'a' as u32, 1), (b'b' as u32, 2)], &[&t_abc, &t_ab, &t_one]),
        mk(0, &[(0, 0)], &[&t_long]),
        mk(2, &[((b'a' as u32) << 8 | b'b' as u32, 1), (0x5AC3, 0)], &[&t_long, &t_abc]),
    ]
}
fn seeds_huff_tree(r: &mut Rng) -> Vec<Seed> {
    let mut v = vec![];
    for m in messages(r) { if let Ok(e) = HuffmanEncoder::new(&m) { v.push(s0(e.tree().serialize())); } }
    v.push(s0(HUFF.with(|h| h.0.tree().serialize())));
    v
}
fn seeds_huff_decode(r: &mut Rng) -> Vec<Seed> {
    messages(r).into_iter().filter_map(|m| HUFF.with(|h| h.0.encode(&m).ok()).map(|b| Seed { bytes: b, len: m.len() as u64 })).collect()
}
fn seeds_huff_tree_then_decode(r: &mut Rng) -> Vec<Seed> { seeds_huff_tree(r).into_iter().map(|s| Seed { bytes: s.bytes, len: 20 }).collect() }
fn seeds_ctx_deser(_r: &mut Rng) -> Vec<Seed> {
    let small = b"abababab abcabc aabbcc";
    let mut v: Vec<Seed> = crafted_ctx().into_iter().map(|b| Seed { bytes: b, len: 12 }).collect();
    v.extend(CTX.with(|c| c.iter().map(|e| Seed { bytes: e.serialize(), len: 12 }).collect::<Vec<_>>()));
    for o in [HuffmanOrder::Order0, HuffmanOrder::Order1, HuffmanOrder::Order2] {
        if let Ok(e) = ContextualHuffmanEncoder::new(small, o) { v.push(Seed { bytes: e.serialize(), len: 12 }); }
    }
    v
}
fn seeds_ctx_decode<const O: usize>(r: &mut Rng) -> Vec<Seed> {
    messages(r).into_iter().filter_map(|m| CTX.with(|c| crate::util::guarded(|| c[O].encode(&m).ok()).ok().flatten()).map(|b| Seed { bytes: b, len: m.len() as u64 })).collect()
}
fn seeds_ctx_decode_x<const N: usize>(r: &mut Rng) -> Vec<Seed> {
    messages(r).into_iter().filter_map(|m| CTX.with(|c| {
        let e = &c[1];
        crate::util::guarded(|| match N { 1 => e.encode_x1(&m), 2 => e.encode_x2(&m), 4 => e.encode_x4(&m), _ => e.encode_x8(&m) }.ok()).ok().flatten()
    }).map(|b| Seed { bytes: b, len: m.len() as u64 })).collect()
}

// ---------------------------------------------------------------------------------------------
// FSE, rANS, dictionary (src/entropy/fse.rs, rans.rs, dictionary.rs)
// ---------------------------------------------------------------------------------------------
fn p_fse(b: &[u8], _: u64) -> R { zipora::entropy::fse_decompress(b).map(|v| obs_bytes(&v)).map_err(es) }
fn p_fse_remove(b: &[u8], _: u64) -> R { pz::remove_fse_compression(b, &pz::FseConfig::default()).map(|v| obs_bytes(&v)).map_err(es) }
fn seeds_fse(r: &mut Rng) -> Vec<Seed> {
    let mut v: Vec<Seed> = messages(r).into_iter().filter_map(|m| crate::util::guarded(|| zipora::entropy::fse_compress(&m).ok()).ok().flatten()).map(s0).collect();
    // the "uncompressed" marker framing and a two-block "parallel" framing, built by hand from the decoder's layout
    v.push(s0(vec![3, 0, 0, 0, 0xFF, b'a', b'b', b'c']));
    let blk = vec![2u8, 0, 0, 0, 0xFF, b'x', b'y'];
    let mut par = vec![2u8, 0, 0, 0];
    par.extend_from_slice(&(blk.len() as u32).to_le_bytes());
    par.extend_from_slice(&(blk.len() as u32).to_le_bytes());
    par.extend_from_slice(&blk);
    par.extend_from_slice(&blk);
    v.push(s0(par));
    v
}
fn seeds_fse_remove(r: &mut Rng) -> Vec<Seed> {
    let mut v: Vec<Seed> = messages(r).into_iter().filter_map(|m| crate::util::guarded(|| pz::apply_fse_compression(&m, &pz::FseConfig::default()).ok()).ok().flatten()).map(s0).collect();
    v.push(s0(vec![0xFE, 0x53, 3, 0, 0, 0, 0xFF, b'a', b'b', b'c']));
    v
}

fn rans_freqs() -> [u32; 256] {
    let mut f = [0u32; 256];
    for &b in TRAIN { f[b as usize] += 1; }
    f
}
thread_local! {
    static RANS1: (Rans64Encoder<ParallelX1>, RansDecoder<ParallelX1>) = { let e = Rans64Encoder::<ParallelX1>::new(&rans_freqs()).unwrap(); let d = RansDecoder::new(&e); (e, d) };
    static RANS2: (Rans64Encoder<ParallelX2>, RansDecoder<ParallelX2>) = { let e = Rans64Encoder::<ParallelX2>::new(&rans_freqs()).unwrap(); let d = RansDecoder::new(&e); (e, d) };
    static RANS4: (Rans64Encoder<ParallelX4>, RansDecoder<ParallelX4>) = { let e = Rans64Encoder::<ParallelX4>::new(&rans_freqs()).unwrap(); let d = RansDecoder::new(&e); (e, d) };
    static RANS8: (Rans64Encoder<ParallelX8>, RansDecoder<ParallelX8>) = { let e = Rans64Encoder::<ParallelX8>::new(&rans_freqs()).unwrap(); let d = RansDecoder::new(&e); (e, d) };
}
fn rans_msgs() -> Vec<Vec<u8>> { vec![b"the quick".to_vec(), TRAIN[..90].to_vec(), b"j".to_vec(), b"aaaaaaaaaaaaaaaaaaaaaaaaaaaaaaaaaaaaaaaa".to_vec()] }
fn aux_rans<const N: usize>() -> Vec<u64> {
    match N {
        1 => RANS1.with(|x| (0..256).map(|i| x.0.get_symbol(i as u8).freq as u64).collect()),
        2 => RANS2.with(|x| (0..256).map(|i| x.0.get_symbol(i as u8).freq as u64).collect()),
        4 => RANS4.with(|x| (0..256).map(|i| x.0.get_symbol(i as u8).freq as u64).collect()),
        _ => RANS8.with(|x| (0..256).map(|i| x.0.get_symbol(i as u8).freq as u64).collect()),
    }
}
fn aux_rans_mono<const N: usize>() -> Vec<u64> {
    RANS_MONO.with(|x| (0..256).map(|i| if N == 1 { x.0.get_symbol(i as u8).freq } else { x.2.get_symbol(i as u8).freq } as u64).collect())
}
macro_rules! rans_fns { ($p:ident, $s:ident, $tl:ident) => {
    fn $p(b: &[u8], arg: u64) -> R { $tl.with(|x| x.1.decode(b, usz(arg)).map(|v| obs_bytes(&v)).map_err(es)) }
    fn $s(_r: &mut Rng) -> Vec<Seed> {
        rans_msgs().into_iter().filter_map(|m| $tl.with(|x| crate::util::guarded(|| x.0.encode(&m).ok()).ok().flatten()).map(|b| Seed { bytes: b, len: m.len() as u64 })).collect()
    }
}}
rans_fns!(p_rans1, seeds_rans1, RANS1);
rans_fns!(p_rans2, seeds_rans2, RANS2);
rans_fns!(p_rans4, seeds_rans4, RANS4);
rans_fns!(p_rans8, seeds_rans8, RANS8);

thread_local! {
    static DICTC: DictionaryCompressor = DictionaryCompressor::new(DictionaryBuilder::new().build(TRAIN));
    static ODICT: OptimizedDictionaryCompressor = OptimizedDictionaryCompressor::new(TRAIN).unwrap();
}
fn p_dict_deser(b: &[u8], _: u64) -> R { Dictionary::deserialize(b).map(|d| vec![d.len() as i128]).map_err(es) }
fn p_dict_decomp(b: &[u8], _: u64) -> R { DICTC.with(|d| d.decompress(b).map(|v| obs_bytes(&v)).map_err(es)) }
fn p_odict_decomp(b: &[u8], _: u64) -> R { ODICT.with(|d| d.decompress(b).map(|v| obs_bytes(&v)).map_err(es)) }
fn seeds_dict_deser(_r: &mut Rng) -> Vec<Seed> {
    vec![s0(DictionaryBuilder::new().build(TRAIN).serialize()), s0(DictionaryBuilder::new().build(b"abcabcabcabc abcabc").serialize()), s0(Dictionary::new().serialize())]
}
fn lz_hand() -> Vec<u8> {
    // literal a, literal b, literal c, match(offset 3, length 7), literal z  - the documented flag format
    let mut v = vec![0, b'a', 0, b'b', 0, b'c', 1];
    v.extend_from_slice(&3u32.to_le_bytes());
    v.extend_from_slice(&7u32.to_le_bytes());
    v.extend_from_slice(&[0, b'z']);
    v
}
fn seeds_dict_decomp(r: &mut Rng) -> Vec<Seed> {
    let mut v: Vec<Seed> = messages(r).into_iter().filter_map(|m| DICTC.with(|d| crate::util::guarded(|| d.compress(&m).ok()).ok().flatten())).map(s0).collect();
    v.push(s0(lz_hand()));
    v
}
fn seeds_odict_decomp(r: &mut Rng) -> Vec<Seed> {
    let mut v: Vec<Seed> = messages(r).into_iter().filter_map(|m| ODICT.with(|d| crate::util::guarded(|| d.compress(&m).ok()).ok().flatten())).map(s0).collect();
    v.push(s0(lz_hand()));
    v
}

// ---------------------------------------------------------------------------------------------
// Compressor framings (src/compression/mod.rs), SIMD LZ77, PA-Zip
// ---------------------------------------------------------------------------------------------
const ALGS: [(&str, u8); 8] = [("none", 0), ("lz4", 1), ("zstd", 2), ("huffman", 3), ("rans", 4), ("dictionary", 5), ("simd_lz77", 6), ("hybrid", 7)];
fn alg(i: usize) -> Algorithm {
    match i { 0 => Algorithm::None, 1 => Algorithm::Lz4, 2 => Algorithm::Zstd(3), 3 => Algorithm::Huffman, 4 => Algorithm::Rans, 5 => Algorithm::Dictionary, 6 => Algorithm::SimdLz77, _ => Algorithm::Hybrid }
}
thread_local! {
    static COMPS: Vec<Option<Box<dyn Compressor>>> = (0..8).map(|i| CompressorFactory::create(alg(i), Some(TRAIN)).ok()).collect();
}
fn p_comp<const A: usize>(b: &[u8], _: u64) -> R {
    COMPS.with(|c| match &c[A] { None => Err("unavailable".into()), Some(c) => c.decompress(b).map(|v| obs_bytes(&v)).map_err(es) })
}
fn seeds_comp<const A: usize>(r: &mut Rng) -> Vec<Seed> {
    let mut v: Vec<Seed> = messages(r).into_iter().filter_map(|m| COMPS.with(|c| c[A].as_ref().and_then(|c| crate::util::guarded(|| c.compress(&m).ok()).ok().flatten()))).map(s0).collect();
    if v.is_empty() { v.push(s0(vec![4, 0, 0, 0, 1, 2, 3, 4])); }
    v
}
thread_local! {
    static SLZ: RefCell<Option<zipora::compression::simd_lz77::SimdLz77Compressor>> = RefCell::new(zipora::compression::simd_lz77::SimdLz77Compressor::new().ok());
}
fn p_simd_lz77(b: &[u8], _: u64) -> R {
    SLZ.with(|c| match c.borrow_mut().as_mut() { None => Err("unavailable".into()), Some(c) => c.decompress(b).map(|v| obs_bytes(&v)).map_err(es) })
}
fn seeds_simd_lz77(r: &mut Rng) -> Vec<Seed> {
    let mut v: Vec<Seed> = messages(r).into_iter().filter_map(|m| SLZ.with(|c| c.borrow_mut().as_mut().and_then(|c| crate::util::guarded(|| c.compress(&m).ok()).ok().flatten()))).map(s0).collect();
    v.extend(seeds_pz_matches(r));
    v
}
pub fn match_obs(m: &pz::Match) -> [i128; 3] {
    match *m {
        pz::Match::Literal { length } => [0, 0, length as i128],
        pz::Match::Global { dict_position, length } => [1, dict_position as i128, length as i128],
        pz::Match::RLE { byte_value, length } => [2, byte_value as i128, length as i128],
        pz::Match::NearShort { distance, length } => [3, distance as i128, length as i128],
        pz::Match::Far1Short { distance, length } => [4, distance as i128, length as i128],
        pz::Match::Far2Short { distance, length } => [5, distance as i128, length as i128],
        pz::Match::Far2Long { distance, length } => [6, distance as i128, length as i128],
        pz::Match::Far3Long { distance, length } => [7, distance as i128, length as i128],
    }
}
fn p_pz_match(b: &[u8], _: u64) -> R {
    let mut rd = pz::BitReader::new(b);
    pz::decode_match(&mut rd).map(|(m, bits)| { let mut o = vec![bits as i128]; o.extend(match_obs(&m)); o }).map_err(es)
}
fn p_pz_matches(b: &[u8], _: u64) -> R {
    pz::decode_matches(b).map(|(ms, bits)| { let mut o = vec![bits as i128]; for m in &ms { o.extend(match_obs(m)); } o }).map_err(es)
}
fn sample_matches() -> Vec<Vec<pz::Match>> {
    use pz::Match::*;
    vec![
        vec![Literal { length: 5 }],
        vec![RLE { byte_value: 65, length: 10 }, NearShort { distance: 3, length: 4 }],
        vec![Far1Short { distance: 100, length: 20 }, Far2Short { distance: 1000, length: 30 }],
        vec![Far2Long { distance: 5000, length: 100 }],
        vec![Far2Long { distance: 65535, length: 40000 }],
        vec![Far3Long { distance: 1 << 20, length: 100000 }],
        vec![Global { dict_position: 12345, length: 50 }],
        vec![Literal { length: 32 }, Far3Long { distance: 70000, length: 35 }, Literal { length: 1 }],
    ]
}
fn seeds_pz_matches(_r: &mut Rng) -> Vec<Seed> {
    // first: a hand-packed stream the encoder refuses to write - Global{0, 6} followed by Far2Long with
    // distance 0 (copy_backward_reference must reject it: `i % (len - start)` would divide by zero)
    let mut v = vec![s0(vec![1, 0, 0, 0, 48, 0, 48, 0, 0, 0])];
    v.extend(sample_matches().into_iter().filter_map(|ms| crate::util::guarded(|| pz::encode_matches(&ms).ok()).ok().flatten()).map(|(b, _)| s0(b)));
    v
}
thread_local! {
    static PAZIP: RefCell<Option<zipora::compression::dict_zip::PaZipCompressor>> = RefCell::new({
        use zipora::compression::dict_zip::{DictionaryBuilder as DB, DictionaryBuilderConfig, PaZipCompressor, PaZipCompressorConfig};
        use zipora::memory::{SecureMemoryPool, SecurePoolConfig};
        (|| -> Option<PaZipCompressor> {
            let cfg = DictionaryBuilderConfig { target_dict_size: 2048, max_dict_size: 4096, validate_result: true, ..Default::default() };
            let dict = DB::with_config(cfg).build(TRAIN).ok()?;
            let pool = SecureMemoryPool::new(SecurePoolConfig::new(4096, 1024, 8)).ok()?;
            PaZipCompressor::new(dict, PaZipCompressorConfig::balanced(), pool).ok()
        })()
    });
}
fn p_pazip(b: &[u8], _: u64) -> R {
    PAZIP.with(|c| match c.borrow_mut().as_mut() {
        None => Err("unavailable".into()),
        Some(c) => { let mut out = Vec::new(); c.decompress(b, &mut out).map(|_| obs_bytes(&out)).map_err(es) }
    })
}
fn seeds_pazip(r: &mut Rng) -> Vec<Seed> {
    let mut v: Vec<Seed> = messages(r).into_iter().filter_map(|m| PAZIP.with(|c| c.borrow_mut().as_mut().and_then(|c| {
        crate::util::guarded(|| { let mut out = Vec::new(); c.compress(&m, &mut out).ok().map(|_| out) }).ok().flatten()
    }))).map(s0).collect();
    // one of each byte-oriented record kind of PaZipCompressor::decompress_match
    v.push(s0(vec![0, 4, b'a', b'b', b'c', b'd', 2, b'x', 5, 3, 2, 6, 4, 3, 3, 5, 4, 0, 2, 6, 5, 0, 9, 0, 7, 2, 0, 0, 0, 4, 0, 0, 0, 1, 1, 0, 3, 0]));
    v
}

// ---------------------------------------------------------------------------------------------
// file / blob-store loaders
// ---------------------------------------------------------------------------------------------
fn tmp_path(tag: &str) -> std::path::PathBuf {
    let d = std::env::var("ZV_C15_TMP").unwrap_or_else(|_| std::env::temp_dir().to_string_lossy().into_owned());
    std::path::PathBuf::from(d).join(format!("c15_{}_{}.bin", tag, std::process::id()))
}
fn p_zip_offset(b: &[u8], _: u64) -> R {
    use zipora::blob_store::{BlobStore, ZipOffsetBlobStore};
    let mut c = std::io::Cursor::new(b);
    // a loaded store is then used: the offset index is read lazily, so its fields are "parsed" by get()
    ZipOffsetBlobStore::load_from_reader(&mut c).map(|s| {
        let n = s.len();
        let mut o = vec![n as i128];
        for id in [0usize, 1, n / 2, n.wrapping_sub(1)] {
            o.push(match s.get(id as u32) { Ok(v) => v.len() as i128, Err(_) => -1 });
        }
        o
    }).map_err(es)
}
fn p_sorted_uint_vec(b: &[u8], _: u64) -> R {
    use zipora::blob_store::SortedUintVec;
    SortedUintVec::from_bytes(b).map(|v| {
        let n = v.len();
        let mut o = vec![n as i128];
        for i in [0usize, 1, n / 2, n.wrapping_sub(2), n.wrapping_sub(1)] {
            o.push(v.get(i).map(|x| x as i128).unwrap_or(-1));
            o.push(v.get2(i).map(|x| x.1 as i128).unwrap_or(-1));
        }
        let mut blk = vec![0u64; v.config().block_size().min(1 << 12)];
        o.push(if v.get_block(0, &mut blk).is_ok() { 1 } else { 0 });
        o
    }).map_err(es)
}
fn seeds_sorted_uint_vec(r: &mut Rng) -> Vec<Seed> {
    use zipora::blob_store::{SortedUintVecBuilder, SortedUintVecConfig};
    let mut v = vec![];
    // the last two: 64-bit samples (the only width whose sample plus a delta can leave u64), values next to u64::MAX
    let wide = SortedUintVecConfig { log2_block_units: 4, offset_width: 8, sample_width: 64, use_simd: false };
    let wide_simd = SortedUintVecConfig { log2_block_units: 4, offset_width: 12, sample_width: 64, use_simd: true };
    for (k, (cfg, n)) in [(SortedUintVecConfig::default(), 200u64), (SortedUintVecConfig::performance_optimized(), 70), (SortedUintVecConfig::memory_optimized(), 5), (SortedUintVecConfig::default(), 0), (wide, 20), (wide_simd, 40)].into_iter().enumerate() {
        let mut acc = if k >= 4 { u64::MAX - 200 } else { 0u64 };
        let r = &mut *r;
        let mut below = |m: u64| if k >= 4 { r.below(4) } else { r.below(m) };
        let vals: Vec<u64> = (0..n).map(|_| { acc += below(300); acc }).collect();
        let res = crate::util::guarded(|| -> Option<Vec<u8>> {
            let mut b = SortedUintVecBuilder::with_config(cfg);
            for &x in &vals { b.push(x).ok()?; }
            Some(b.finish().ok()?.to_bytes())
        });
        if let Ok(Some(bytes)) = res { v.push(s0(bytes)); }
    }
    v
}
fn seeds_zip_offset(_r: &mut Rng) -> Vec<Seed> {
    use zipora::blob_store::{ZipOffsetBlobStoreBuilder, ZipOffsetBlobStoreConfig};
    let mut v = vec![];
    // (compression, checksum level, records): the third and fourth have a content section that is a multiple
    // of 16 bytes (no padding), the others need 1..15 bytes of padding
    let recs: [(u8, u8, Vec<&[u8]>); 6] = [
        (0, 2, vec![&b"first record"[..], &b""[..], &TRAIN[..70]]),
        (3, 2, vec![&b"first record"[..], &b""[..], &TRAIN[..70]]),
        (0, 2, vec![&b"twelve bytes"[..]]),
        (0, 0, vec![&TRAIN[..20], &TRAIN[20..32]]),
        (0, 0, vec![&TRAIN[..33], &b""[..], &b"x"[..]]),
        (0, 3, vec![]),
    ];
    for (lvl, ck, rs) in recs {
        let r = crate::util::guarded(|| -> Option<Vec<u8>> {
            let cfg = ZipOffsetBlobStoreConfig { compress_level: lvl, checksum_level: ck, ..Default::default() };
            let mut b = ZipOffsetBlobStoreBuilder::with_config(cfg).ok()?;
            for m in rs.iter() { b.add_record(m).ok()?; }
            let s = b.finish().ok()?;
            let mut out = Vec::new();
            s.save_to_writer(&mut out).ok()?;
            Some(out)
        });
        if let Ok(Some(bytes)) = r { v.push(s0(bytes)); }
    }
    v
}
fn p_reorder_map(b: &[u8], _: u64) -> R {
    use zipora::blob_store::ZReorderMap;
    let p = tmp_path("reorder");
    std::fs::write(&p, b).map_err(es)?;
    let r = ZReorderMap::open(&p).map(|m| { let size = m.size(); let xs: Vec<usize> = m.take(4096).collect(); vec![size as i128, xs.len() as i128, xs.last().map(|&x| x as i128).unwrap_or(-1)] }).map_err(es);
    let _ = std::fs::remove_file(&p);
    r
}
fn seeds_reorder_map(_r: &mut Rng) -> Vec<Seed> {
    use zipora::blob_store::ZReorderMapBuilder;
    let mut v = vec![];
    for (sign, vals) in [(1i64, vec![100usize, 101, 102, 200, 300, 301]), (-1, vec![50, 49, 48, 7, 6]), (1, vec![5]), (1, (1000..1300).collect())] {
        let p = tmp_path("reorder_seed");
        let ok = crate::util::guarded(|| -> Option<()> {
            let mut b = ZReorderMapBuilder::new(&p, vals.len(), sign).ok()?;
            for &x in &vals { b.push(x).ok()?; }
            b.finish().ok()
        });
        if let Ok(Some(())) = ok { if let Ok(bytes) = std::fs::read(&p) { v.push(s0(bytes)); } }
        let _ = std::fs::remove_file(&p);
    }
    v
}
fn p_mmap_vec(b: &[u8], _: u64) -> R {
    use zipora::memory::mmap_vec::{MmapVec, MmapVecConfig};
    let p = tmp_path("mmapvec");
    std::fs::write(&p, b).map_err(es)?;
    let r = MmapVec::<u64>::open(&p, MmapVecConfig::default()).map(|v| {
        let n = v.len();
        let mut o = vec![n as i128];
        for i in [0usize, 1, n / 2, n.wrapping_sub(1)] { o.push(v.get(i).map(|&x| x as i128).unwrap_or(-1)); }
        o.push(v.as_slice().iter().rev().take(64).fold(0u64, |a, &x| a.wrapping_add(x)) as i128);
        o
    }).map_err(es);
    let _ = std::fs::remove_file(&p);
    r
}
fn seeds_mmap_vec(_r: &mut Rng) -> Vec<Seed> {
    use zipora::memory::mmap_vec::{MmapVec, MmapVecConfig};
    let mut v = vec![];
    for n in [0u64, 3, 40] {
        let p = tmp_path("mmapvec_seed");
        let _ = std::fs::remove_file(&p);
        let ok = crate::util::guarded(|| -> Option<()> {
            let cfg = MmapVecConfig { initial_capacity: 64, ..Default::default() };
            let mut m = MmapVec::<u64>::create(&p, cfg).ok()?;
            for i in 0..n { m.push(i * 3 + 1).ok()?; }
            m.sync().ok()
        });
        if let Ok(Some(())) = ok { if let Ok(bytes) = std::fs::read(&p) { v.push(s0(bytes)); } }
        let _ = std::fs::remove_file(&p);
    }
    v
}
fn p_mmap_input(b: &[u8], _: u64) -> R {
    let p = tmp_path("mmapin");
    std::fs::write(&p, b).map_err(es)?;
    let r = (|| -> R {
        let mut i = zipora::io::MmapDataInput::open(&p).map_err(es)?;
        let a = i.read_var_int().map_err(es)?;
        let s = i.read_length_prefixed_bytes().map_err(es)?;
        Ok(vec![a as i128, s.len() as i128, i.pos() as i128])
    })();
    let _ = std::fs::remove_file(&p);
    r
}
fn seeds_mmap_input(_r: &mut Rng) -> Vec<Seed> { vec![s0(vec![0x85, 0x01, 4, b'd', b'a', b't', b'a', 9])] }

// ---------------------------------------------------------------------------------------------
// hex, Base64
// ---------------------------------------------------------------------------------------------
fn p_hex_bytes(b: &[u8], _: u64) -> R { zipora::string::hex_decode_bytes(b).map(|v| v.into_iter().map(|x| x as i128).collect()).map_err(es) }
fn p_hex_str(b: &[u8], _: u64) -> R {
    let s = std::str::from_utf8(b).map_err(es)?;
    zipora::string::hex_decode(s).map(|v| v.into_iter().map(|x| x as i128).collect()).map_err(es)
}
fn p_hex_slice(b: &[u8], arg: u64) -> R {
    let mut out = vec![0u8; usz(arg.min(4096))];
    zipora::string::hex_decode_to_slice(b, &mut out).map(|n| { let mut o = vec![n as i128]; o.extend(out[..n.min(out.len())].iter().map(|&x| x as i128)); o }).map_err(es)
}
fn seeds_hex(r: &mut Rng) -> Vec<Seed> {
    let mut v = vec![Seed { bytes: b"48656c6c6f".to_vec(), len: 5 }, Seed { bytes: b"DEADBEEFdeadbeef00ff".to_vec(), len: 10 }, Seed { bytes: vec![], len: 0 }];
    let raw = r.bytes(33);
    v.push(Seed { bytes: zipora::string::hex_encode(&raw).into_bytes(), len: 33 });
    v
}
fn b64(cfg: usize) -> zipora::system::base64::AdaptiveBase64 {
    use zipora::system::base64::{AdaptiveBase64, Base64Config};
    AdaptiveBase64::with_config(Base64Config { url_safe: cfg & 1 == 1, padding: cfg & 2 == 0, force_implementation: None })
}
fn p_b64<const C: usize>(b: &[u8], _: u64) -> R {
    let s = std::str::from_utf8(b).map_err(es)?;
    if C == 4 { zipora::system::base64::base64_decode_simd(s) } else { b64(C).decode(s) }.map(|v| obs_bytes(&v)).map_err(es)
}
fn seeds_b64<const C: usize>(r: &mut Rng) -> Vec<Seed> {
    let mut ms = vec![b"".to_vec(), b"f".to_vec(), b"fo".to_vec(), b"foo".to_vec(), b"foobar".to_vec(), vec![0xfb, 0xff, 0xfe, 0x00]];
    ms.push(r.bytes(31));
    ms.into_iter().map(|m| s0(if C == 4 { zipora::system::base64::base64_encode_simd(&m) } else { b64(C).encode(&m) }.into_bytes())).collect()
}

// ---------------------------------------------------------------------------------------------
// further parsers outside the anchored files (same property: bytes from outside the process)
// ---------------------------------------------------------------------------------------------
fn p_simd_varint(b: &[u8], _: u64) -> R { zipora::io::simd_encoding::varint::decode_varint(b).map(|(v, n)| vec![v as i128, n as i128]).map_err(es) }
fn p_simd_varint_batch(b: &[u8], arg: u64) -> R {
    zipora::io::simd_encoding::varint::decode_varint_batch(b, usz(arg)).map(|v| v.into_iter().take(64).map(|x| x as i128).collect()).map_err(es)
}
fn seeds_simd_varint(r: &mut Rng) -> Vec<Seed> { seeds_varint(r) }
fn seeds_simd_varint_batch(r: &mut Rng) -> Vec<Seed> {
    let mut v = vec![];
    for xs in seq_pool_u(r) {
        if let Ok(Ok(b)) = crate::util::guarded(|| zipora::io::simd_encoding::varint::encode_varint_batch(&xs)) { v.push(Seed { bytes: b, len: xs.len() as u64 }); }
    }
    let big: Vec<u64> = (0..40).map(|i| (i as u64) << (i % 50)).collect();
    if let Ok(Ok(b)) = crate::util::guarded(|| zipora::io::simd_encoding::varint::encode_varint_batch(&big)) { v.push(Seed { bytes: b, len: 40 }); }
    v
}
fn p_simd_b64(b: &[u8], _: u64) -> R {
    let s = std::str::from_utf8(b).map_err(es)?;
    zipora::io::simd_encoding::base64::decode_base64(s).map(|v| obs_bytes(&v)).map_err(es)
}
fn p_simd_b64_buf(b: &[u8], arg: u64) -> R {
    let mut out = vec![0u8; usz(arg.min(4096))];
    zipora::io::simd_encoding::base64::decode_base64_from_buffer(b, &mut out).map(|n| vec![n as i128]).map_err(es)
}
fn seeds_b64_len(r: &mut Rng) -> Vec<Seed> {
    let mut ms = vec![b"f".to_vec(), b"foobar".to_vec(), vec![0xfb, 0xff, 0xfe, 0x00]];
    ms.push(r.bytes(31));
    ms.into_iter().map(|m| Seed { len: m.len() as u64, bytes: zipora::system::base64::base64_encode_simd(&m).into_bytes() }).collect()
}
fn p_sa_dict(b: &[u8], _: u64) -> R {
    zipora::compression::dict_zip::SuffixArrayDictionary::deserialize(b).map(|d| vec![d.dictionary_text().len() as i128]).map_err(es)
}
fn seeds_sa_dict(_r: &mut Rng) -> Vec<Seed> {
    use zipora::compression::dict_zip::{DictionaryBuilder as DB, DictionaryBuilderConfig};
    let r = crate::util::guarded(|| -> Option<Vec<u8>> {
        let cfg = DictionaryBuilderConfig { target_dict_size: 256, max_dict_size: 512, validate_result: true, ..Default::default() };
        DB::with_config(cfg).build(&TRAIN[..160]).ok()?.serialize().ok()
    });
    match r { Ok(Some(b)) if b.len() < 5000 => vec![s0(b)], _ => vec![] }
}
fn p_dfa_cache(b: &[u8], _: u64) -> R {
    zipora::compression::dict_zip::DfaCache::deserialize(b).map(|_| vec![1]).map_err(es)
}
fn seeds_dfa_cache(_r: &mut Rng) -> Vec<Seed> {
    use zipora::compression::dict_zip::{DictionaryBuilder as DB, DictionaryBuilderConfig};
    // the cache blob is embedded in the dictionary blob; a cache built from a tiny dictionary
    let r = crate::util::guarded(|| -> Option<Vec<u8>> {
        let cfg = DictionaryBuilderConfig { target_dict_size: 128, max_dict_size: 256, validate_result: true, ..Default::default() };
        let d = DB::with_config(cfg).build(&TRAIN[..100]).ok()?;
        let blob = d.serialize().ok()?;
        // SerializableDictionary = { dictionary_text: Vec<u8>, dfa_cache_data: Vec<u8>, .. } in bincode: u64 len + bytes, twice
        let n = u64::from_le_bytes(blob.get(..8)?.try_into().ok()?) as usize;
        let at = 8 + n;
        let m = u64::from_le_bytes(blob.get(at..at + 8)?.try_into().ok()?) as usize;
        Some(blob.get(at + 8..at + 8 + m)?.to_vec())
    });
    match r { Ok(Some(b)) if b.len() < 5000 => vec![s0(b)], _ => vec![s0(vec![0; 16])] }
}
fn p_fse_cfg<const C: usize>(b: &[u8], _: u64) -> R {
    use zipora::entropy::FseConfig;
    let cfg = match C { 0 => FseConfig::fast_compression(), 1 => FseConfig::high_compression(), _ => FseConfig::realtime() };
    zipora::entropy::fse_decompress_with_config(b, cfg).map(|v| obs_bytes(&v)).map_err(es)
}
fn seeds_fse_cfg<const C: usize>(r: &mut Rng) -> Vec<Seed> {
    use zipora::entropy::FseConfig;
    let mut v: Vec<Seed> = messages(r).into_iter().filter_map(|m| crate::util::guarded(|| {
        let cfg = match C { 0 => FseConfig::fast_compression(), 1 => FseConfig::high_compression(), _ => FseConfig::realtime() };
        zipora::entropy::fse_compress_with_config(&m, cfg).ok()
    }).ok().flatten()).map(s0).collect();
    if v.is_empty() { v.push(s0(vec![3, 0, 0, 0, 0xFF, b'a', b'b', b'c'])); }
    v
}
macro_rules! slz_variant { ($p:ident, $s:ident, $t:ident) => {
    fn $p(b: &[u8], _: u64) -> R {
        let mut c = zipora::compression::simd_lz77::$t::new().map_err(es)?;
        c.decompress(b).map(|v| obs_bytes(&v)).map_err(es)
    }
    fn $s(r: &mut Rng) -> Vec<Seed> {
        let mut v: Vec<Seed> = messages(r).into_iter().take(3).filter_map(|m| crate::util::guarded(|| {
            zipora::compression::simd_lz77::$t::new().ok().and_then(|mut c| c.compress(&m).ok())
        }).ok().flatten()).map(s0).collect();
        v.extend(seeds_pz_matches(r));
        v
    }
}}
slz_variant!(p_slz_x1, seeds_slz_x1, SimdLz77CompressorX1);
slz_variant!(p_slz_x2, seeds_slz_x2, SimdLz77CompressorX2);
slz_variant!(p_slz_x4, seeds_slz_x4, SimdLz77CompressorX4);
slz_variant!(p_slz_x8, seeds_slz_x8, SimdLz77CompressorX8);
fn p_slz_global(b: &[u8], _: u64) -> R { zipora::compression::simd_lz77::decompress_with_simd_lz77(b).map(|v| obs_bytes(&v)).map_err(es) }
fn p_mmapped_input(b: &[u8], _: u64) -> R {
    let p = tmp_path("mminput");
    std::fs::write(&p, b).map_err(es)?;
    let r = (|| -> R {
        let mut i = zipora::io::MemoryMappedInput::from_path(&p).map_err(es)?;
        let a = i.read_var_int().map_err(es)?;
        let s = i.read_length_prefixed_string().map_err(es)?;
        let n = i.read_var_int().map_err(es)?;
        i.skip(n as usize).map_err(es)?;
        let x = i.read_u8().map_err(es)?;
        Ok(vec![a as i128, s.len() as i128, x as i128])
    })();
    let _ = std::fs::remove_file(&p);
    r
}
fn seeds_mmapped_input(_r: &mut Rng) -> Vec<Seed> { vec![s0(vec![0x85, 0x01, 4, b'd', b'a', b't', b'a', 2, 9, 9, 42, 7])] }

// degenerate training data (a single symbol): every symbol then costs zero bits, so the decoders can
// emit output without consuming input - the expected-length argument / size field is the only bound
const MONO: &[u8] = b"aaaaaaaaaaaaaaaaaaaaaaaaaaaaaaaa";
thread_local! {
    static CTX_MONO: Vec<ContextualHuffmanEncoder> = (0..3).map(|o| {
        let order = [HuffmanOrder::Order0, HuffmanOrder::Order1, HuffmanOrder::Order2][o];
        ContextualHuffmanEncoder::new(MONO, order).unwrap()
    }).collect();
    static CTXDEC_MONO: Vec<ContextualHuffmanDecoder> = (0..3).map(|o| {
        ContextualHuffmanDecoder::new(CTX_MONO.with(|c| ContextualHuffmanEncoder::deserialize(&c[o].serialize()).unwrap()))
    }).collect();
    static RANS_MONO: (Rans64Encoder<ParallelX1>, RansDecoder<ParallelX1>, Rans64Encoder<ParallelX4>, RansDecoder<ParallelX4>) = {
        let mut f = [0u32; 256]; f[b'a' as usize] = 32;
        let e = Rans64Encoder::<ParallelX1>::new(&f).unwrap(); let d = RansDecoder::new(&e);
        let e4 = Rans64Encoder::<ParallelX4>::new(&f).unwrap(); let d4 = RansDecoder::new(&e4);
        (e, d, e4, d4)
    };
    static COMPS_MONO: Vec<Option<Box<dyn Compressor>>> = (0..8).map(|i| CompressorFactory::create(alg(i), Some(MONO)).ok()).collect();
}
fn p_ctx_mono<const O: usize>(b: &[u8], arg: u64) -> R { CTXDEC_MONO.with(|d| d[O].decode(b, usz(arg)).map(|v| obs_bytes(&v)).map_err(es)) }
fn seeds_ctx_mono<const O: usize>(_r: &mut Rng) -> Vec<Seed> {
    let order = [HuffmanOrder::Order0, HuffmanOrder::Order1, HuffmanOrder::Order2][O];
    let mut v = vec![];
    if let Ok(Ok(b)) = crate::util::guarded(|| ContextualHuffmanEncoder::new(MONO, order).and_then(|e| e.encode(&MONO[..20]))) { v.push(Seed { bytes: b, len: 20 }); }
    v.push(Seed { bytes: vec![0, 0, 0], len: 20 });
    v
}
fn p_rans_mono<const N: usize>(b: &[u8], arg: u64) -> R {
    RANS_MONO.with(|x| if N == 1 { x.1.decode(b, usz(arg)) } else { x.3.decode(b, usz(arg)) }.map(|v| obs_bytes(&v)).map_err(es))
}
fn seeds_rans_mono<const N: usize>(_r: &mut Rng) -> Vec<Seed> {
    let mut v = vec![];
    if let Ok(Ok(b)) = crate::util::guarded(|| RANS_MONO.with(|x| if N == 1 { x.0.encode(&MONO[..20]) } else { x.2.encode(&MONO[..20]) })) { v.push(Seed { bytes: b, len: 20 }); }
    v.push(Seed { bytes: vec![0, 0, 1, 0, 0, 0, 0, 0], len: 20 });
    v
}
fn p_comp_mono<const A: usize>(b: &[u8], _: u64) -> R {
    COMPS_MONO.with(|c| match &c[A] { None => Err("unavailable".into()), Some(c) => c.decompress(b).map(|v| obs_bytes(&v)).map_err(es) })
}
fn seeds_comp_mono<const A: usize>(_r: &mut Rng) -> Vec<Seed> {
    let mut v: Vec<Seed> = [&MONO[..20], &MONO[..1]].iter().filter_map(|m| COMPS_MONO.with(|c| c[A].as_ref().and_then(|c| crate::util::guarded(|| c.compress(m).ok()).ok().flatten()))).map(s0).collect();
    if v.is_empty() { v.push(s0(vec![4, 0, 0, 0, 1, 2, 3, 4])); }
    v
}

macro_rules! P {
    ($name:expr, $model:expr, $arg:expr, $cheap:expr, $run:expr, $seeds:expr) => {
        Parser { name: $name, model: $model, has_arg: $arg, cheap: $cheap, run: $run, seeds: $seeds, aux: no_aux, env: 0 }
    };
    ($name:expr, $model:expr, $arg:expr, $cheap:expr, $run:expr, $seeds:expr, $aux:expr) => {
        Parser { name: $name, model: $model, has_arg: $arg, cheap: $cheap, run: $run, seeds: $seeds, aux: $aux, env: 0 }
    };
    ($name:expr, $model:expr, $arg:expr, $cheap:expr, $run:expr, $seeds:expr, $aux:expr, $env:expr) => {
        Parser { name: $name, model: $model, has_arg: $arg, cheap: $cheap, run: $run, seeds: $seeds, aux: $aux, env: $env }
    };
}

/// Model ids (coq/C15/Model.v `run_model`): see the table in design/C15.md.
pub fn parsers() -> Vec<Parser> {
    let mut v = vec![
        P!("VarInt::decode", 1, false, true, p_varint, seeds_varint),
        P!("VarInt::decode_multiple", 2, false, true, p_varint_multi, seeds_varint_multi),
        P!("SignedVarInt::decode_signed", 3, false, true, p_varint_signed, seeds_varint_signed),
    ];
    macro_rules! strat { ($($s:literal),*) => { $(
        v.push(P!(Box::leak(format!("VarIntEncoder/{}/decode_u64", STRATS[$s].1).into_boxed_str()), 10 + $s, false, true, p_vie_u64::<$s>, seeds_vie_u64::<$s>));
        v.push(P!(Box::leak(format!("VarIntEncoder/{}/decode_i64", STRATS[$s].1).into_boxed_str()), 20 + $s, false, true, p_vie_i64::<$s>, seeds_vie_i64::<$s>));
        v.push(P!(Box::leak(format!("VarIntEncoder/{}/decode_u64_sequence", STRATS[$s].1).into_boxed_str()), 30 + $s, false, true, p_vie_u64_seq::<$s>, seeds_vie_u64_seq::<$s>));
        v.push(P!(Box::leak(format!("VarIntEncoder/{}/decode_i64_sequence", STRATS[$s].1).into_boxed_str()), 40 + $s, false, true, p_vie_i64_seq::<$s>, seeds_vie_i64_seq::<$s>));
    )* } }
    strat!(0, 1, 2, 3, 4, 5, 6);
    v.extend(vec![
        P!("SliceDataInput/read_length_prefixed_bytes", 50, false, true, p_sdi_lp_bytes, seeds_lp),
        P!("SliceDataInput/read_length_prefixed_string", 0, false, true, p_sdi_lp_string, seeds_lp),
        P!("SliceDataInput/var_int+skip+read_u8", 51, false, true, p_sdi_skip, seeds_sdi_skip),
        P!("SliceDataInput/fixed_width_reads", 0, false, true, p_sdi_fixed, seeds_sdi_fixed),
        P!("SliceDataInput/after_refused_skip", 0, false, true, p_sdi_after_skip, seeds_after_skip),
        P!("MmapDataInput/after_refused_skip", 0, false, false, p_mmap_after_skip, seeds_after_skip),
        P!("SerializableType/Vec<u32>", 52, false, true, p_ser_vec_u32, seeds_ser_vec_u32),
        P!("SerializableType/Vec<Vec<String>>", 0, false, true, p_ser_vecvec, seeds_ser_vecvec),
        P!("ComplexTypeSerializer/tuple/metadata", 0, false, false, p_cx_tuple::<true>, seeds_cx_tuple::<true>),
        P!("ComplexTypeSerializer/tuple/fast", 0, false, true, p_cx_tuple::<false>, seeds_cx_tuple::<false>),
        P!("ComplexTypeSerializer/HashMap/metadata", 0, false, false, p_cx_hashmap::<true>, seeds_cx_hashmap::<true>),
        P!("ComplexTypeSerializer/HashMap/fast", 0, false, true, p_cx_hashmap::<false>, seeds_cx_hashmap::<false>),
        P!("ComplexTypeSerializer/HashSet", 0, false, true, p_cx_hashset, seeds_cx_hashset),
        P!("ComplexTypeSerializer/BTreeMap", 0, false, true, p_cx_btreemap, seeds_cx_btreemap),
        P!("ComplexTypeSerializer/BTreeSet", 0, false, true, p_cx_btreeset, seeds_cx_btreeset),
        P!("ComplexTypeSerializer/array", 0, false, true, p_cx_array, seeds_cx_array),
        P!("ComplexTypeSerializer/Option", 0, false, false, p_cx_option, seeds_cx_option),
        P!("ComplexTypeSerializer/batch/metadata", 0, false, false, p_cx_batch::<true>, seeds_cx_batch::<true>),
        P!("ComplexTypeSerializer/batch/fast", 0, false, true, p_cx_batch::<false>, seeds_cx_batch::<false>),
        P!("SmartPtrSerializer/Box<Vec<u32>>", 0, false, true, p_sp_box, seeds_sp_box),
        P!("SmartPtrSerializer/Rc<String>", 0, false, true, p_sp_rc, seeds_sp_rc),
        P!("SmartPtrSerializer/Arc<Vec<u64>>", 0, false, true, p_sp_arc, seeds_sp_arc),
        P!("SmartPtrSerializer/Option<Box<String>>", 0, false, true, p_sp_optbox, seeds_sp_optbox),
        P!("HuffmanTree::deserialize", 100, false, true, p_huff_tree, seeds_huff_tree),
        P!("HuffmanDecoder::decode", 101, true, false, p_huff_decode, seeds_huff_decode, aux_huff),
        P!("HuffmanTree::deserialize+decode", 102, true, false, p_huff_tree_then_decode, seeds_huff_tree_then_decode),
        P!("ContextualHuffmanEncoder::deserialize", 103, false, false, p_ctx_deser, seeds_ctx_deser),
        P!("ContextualHuffmanEncoder::deserialize+decode", 104, true, false, p_ctx_deser_then_decode, seeds_ctx_deser),
        P!("ContextualHuffmanDecoder/order0", 105, true, false, p_ctx_decode::<0>, seeds_ctx_decode::<0>, aux_ctx::<0>, 1),
        P!("ContextualHuffmanDecoder/order1", 105, true, false, p_ctx_decode::<1>, seeds_ctx_decode::<1>, aux_ctx::<1>, 2),
        P!("ContextualHuffmanDecoder/order2", 105, true, false, p_ctx_decode::<2>, seeds_ctx_decode::<2>, aux_ctx::<2>, 3),
        P!("ContextualHuffman/decode_x1", 108, true, false, p_ctx_decode_x::<1>, seeds_ctx_decode_x::<1>, aux_ctx::<1>, 2),
        P!("ContextualHuffman/decode_x2", 109, true, false, p_ctx_decode_x::<2>, seeds_ctx_decode_x::<2>, aux_ctx::<1>, 2),
        P!("ContextualHuffman/decode_x4", 110, true, false, p_ctx_decode_x::<4>, seeds_ctx_decode_x::<4>, aux_ctx::<1>, 2),
        P!("ContextualHuffman/decode_x8", 111, true, false, p_ctx_decode_x::<8>, seeds_ctx_decode_x::<8>, aux_ctx::<1>, 2),
        P!("fse_decompress", 130, false, false, p_fse, seeds_fse),
        P!("remove_fse_compression", 0, false, false, p_fse_remove, seeds_fse_remove),
        P!("Rans64Decoder/x1", 120, true, false, p_rans1, seeds_rans1, aux_rans::<1>),
        P!("Rans64Decoder/x2", 121, true, false, p_rans2, seeds_rans2, aux_rans::<2>),
        P!("Rans64Decoder/x4", 122, true, false, p_rans4, seeds_rans4, aux_rans::<4>),
        P!("Rans64Decoder/x8", 123, true, false, p_rans8, seeds_rans8, aux_rans::<8>),
        P!("Dictionary::deserialize", 142, false, true, p_dict_deser, seeds_dict_deser),
        P!("DictionaryCompressor::decompress", 61, false, true, p_dict_decomp, seeds_dict_decomp),
        P!("OptimizedDictionaryCompressor::decompress", 61, false, true, p_odict_decomp, seeds_odict_decomp),
        P!("SimdLz77Compressor::decompress", 143, false, false, p_simd_lz77, seeds_simd_lz77),
        P!("pa_zip/decode_match", 70, false, true, p_pz_match, seeds_pz_matches),
        P!("pa_zip/decode_matches", 71, false, true, p_pz_matches, seeds_pz_matches),
        P!("PaZipCompressor::decompress", 0, false, false, p_pazip, seeds_pazip),
        P!("ZipOffsetBlobStore::load_from_reader", 91, false, false, p_zip_offset, seeds_zip_offset),
        P!("SortedUintVec::from_bytes", 90, false, false, p_sorted_uint_vec, seeds_sorted_uint_vec),
        P!("ZReorderMap::open", 141, false, false, p_reorder_map, seeds_reorder_map),
        P!("MmapVec::open", 140, false, false, p_mmap_vec, seeds_mmap_vec),
        P!("MmapDataInput", 0, false, false, p_mmap_input, seeds_mmap_input),
        P!("hex_decode_bytes", 80, false, true, p_hex_bytes, seeds_hex),
        P!("hex_decode", 82, false, true, p_hex_str, seeds_hex),
        P!("hex_decode_to_slice", 81, true, true, p_hex_slice, seeds_hex),
        P!("base64/standard", 150, false, true, p_b64::<0>, seeds_b64::<0>),
        P!("base64/url_safe", 151, false, true, p_b64::<1>, seeds_b64::<1>),
        P!("base64/standard_no_pad", 152, false, true, p_b64::<2>, seeds_b64::<2>),
        P!("base64/url_safe_no_pad", 153, false, true, p_b64::<3>, seeds_b64::<3>),
        P!("base64_decode_simd", 0, false, true, p_b64::<4>, seeds_b64::<4>),
        P!("simd_encoding/decode_varint", 0, false, true, p_simd_varint, seeds_simd_varint),
        P!("simd_encoding/decode_varint_batch", 0, true, true, p_simd_varint_batch, seeds_simd_varint_batch),
        P!("simd_encoding/decode_base64", 0, false, true, p_simd_b64, seeds_b64::<4>),
        P!("simd_encoding/decode_base64_from_buffer", 0, true, true, p_simd_b64_buf, seeds_b64_len),
        P!("SuffixArrayDictionary::deserialize", 0, false, false, p_sa_dict, seeds_sa_dict),
        P!("DfaCache::deserialize", 0, false, false, p_dfa_cache, seeds_dfa_cache),
        P!("fse_decompress_with_config/fast", 130, false, false, p_fse_cfg::<0>, seeds_fse_cfg::<0>),
        P!("fse_decompress_with_config/high", 130, false, false, p_fse_cfg::<1>, seeds_fse_cfg::<1>),
        P!("fse_decompress_with_config/realtime", 130, false, false, p_fse_cfg::<2>, seeds_fse_cfg::<2>),
        P!("SimdLz77CompressorX1::decompress", 143, false, false, p_slz_x1, seeds_slz_x1),
        P!("SimdLz77CompressorX2::decompress", 143, false, false, p_slz_x2, seeds_slz_x2),
        P!("SimdLz77CompressorX4::decompress", 143, false, false, p_slz_x4, seeds_slz_x4),
        P!("SimdLz77CompressorX8::decompress", 143, false, false, p_slz_x8, seeds_slz_x8),
        P!("decompress_with_simd_lz77", 143, false, false, p_slz_global, seeds_simd_lz77),
        P!("MemoryMappedInput", 0, false, false, p_mmapped_input, seeds_mmapped_input),
        P!("ContextualHuffmanDecoder/order0/single_symbol_model", 105, true, false, p_ctx_mono::<0>, seeds_ctx_mono::<0>, aux_ctx_mono::<0>, 4),
        P!("ContextualHuffmanDecoder/order1/single_symbol_model", 105, true, false, p_ctx_mono::<1>, seeds_ctx_mono::<1>, aux_ctx_mono::<1>, 5),
        P!("ContextualHuffmanDecoder/order2/single_symbol_model", 105, true, false, p_ctx_mono::<2>, seeds_ctx_mono::<2>, aux_ctx_mono::<2>, 6),
        P!("Rans64Decoder/x1/single_symbol_model", 120, true, false, p_rans_mono::<1>, seeds_rans_mono::<1>, aux_rans_mono::<1>),
        P!("Rans64Decoder/x4/single_symbol_model", 122, true, false, p_rans_mono::<4>, seeds_rans_mono::<4>, aux_rans_mono::<4>),
        P!("Compressor/huffman/decompress/single_symbol_model", 0, false, false, p_comp_mono::<3>, seeds_comp_mono::<3>),
        P!("Compressor/rans/decompress/single_symbol_model", 0, false, false, p_comp_mono::<4>, seeds_comp_mono::<4>),
        P!("Compressor/dictionary/decompress/single_symbol_model", 0, false, false, p_comp_mono::<5>, seeds_comp_mono::<5>),
        P!("Compressor/hybrid/decompress/single_symbol_model", 0, false, false, p_comp_mono::<7>, seeds_comp_mono::<7>),
    ]);
    const KINDS: [&str; 4] = ["SliceDataInput", "ReaderDataInput", "RangeReader", "MmapDataInput"];
    macro_rules! inputs { ($($k:literal),*) => { $(
        if $k != 0 { v.push(P!(Box::leak(format!("{}/read_length_prefixed_bytes", KINDS[$k]).into_boxed_str()), 53, false, $k != 3, p_in_lp_bytes::<$k>, seeds_lp)); }
        if $k != 0 { v.push(P!(Box::leak(format!("{}/read_length_prefixed_string", KINDS[$k]).into_boxed_str()), 0, false, $k != 3, p_in_lp_string::<$k>, seeds_lp)); }
        v.push(P!(Box::leak(format!("{}/read_string(len)", KINDS[$k]).into_boxed_str()), 0, true, $k != 3, p_in_string::<$k>, seeds_raw));
        v.push(P!(Box::leak(format!("{}/read_vec(len)", KINDS[$k]).into_boxed_str()), 54, true, $k != 3, p_in_vec::<$k>, seeds_raw));
        if $k != 0 { v.push(P!(Box::leak(format!("{}/var_int+skip+read_u8", KINDS[$k]).into_boxed_str()), 0, false, $k != 3, p_in_skip::<$k>, seeds_sdi_skip)); }
        v.push(P!(Box::leak(format!("{}/String::deserialize", KINDS[$k]).into_boxed_str()), 0, false, $k != 3, p_in_de_string::<$k>, seeds_lp));
        v.push(P!(Box::leak(format!("{}/Vec<String>::deserialize", KINDS[$k]).into_boxed_str()), 0, false, $k != 3, p_in_de_vec_string::<$k>, seeds_de_vec_string));
    )* } }
    inputs!(0, 1, 2, 3);
    macro_rules! comp { ($($a:literal),*) => { $(
        v.push(P!(Box::leak(format!("Compressor/{}/decompress", ALGS[$a].0).into_boxed_str()), 0, false, false, p_comp::<$a>, seeds_comp::<$a>));
    )* } }
    comp!(0, 1, 2, 3, 4, 5, 6, 7);
    v
}
