//! C20, second part: deep FastStr oracle (hash/eq coherence, ordering, search and slicing at every
//! position), StreamingLexIterator, SortableStrVec, ZoSortedStrVec, unicode.rs, LineProcessor
//! configurations, and the Coq case terms for the string models (join/split/words/lines/case/lex iterator).
use super::*;
use std::collections::HashSet;
use std::hash::{Hash, Hasher};
use zipora::string::{LexIteratorBuilder, LineProcessorConfig, StreamingLexIterator};
use zipora::{SortableStrVec, ZoSortedStrVec};

// ---------------------------------------------------------------- Coq term printing
pub fn coq_bl(xs: &[u8]) -> String {
    let mut s = String::from("[");
    for (i, x) in xs.iter().enumerate() {
        if i > 0 { s.push_str("; "); }
        s.push_str(&x.to_string());
    }
    s.push(']');
    s
}
pub fn coq_bll<T: AsRef<[u8]>>(xs: &[T]) -> String {
    let mut s = String::from("[");
    for (i, x) in xs.iter().enumerate() {
        if i > 0 { s.push_str("; "); }
        s.push_str(&coq_bl(x.as_ref()));
    }
    s.push(']');
    s
}
pub fn push_coq(cx: &mut Ctx, term: String, cj: Value) {
    if cx.emit && cx.shards.len() < cx.budget { cx.shards.push(term, cj); }
}

fn naive_find(h: &[u8], nd: &[u8]) -> Option<usize> {
    if nd.is_empty() { return Some(0); }
    if nd.len() > h.len() { return None; }
    (0..=h.len() - nd.len()).find(|&i| &h[i..i + nd.len()] == nd)
}

fn std_hash(f: &FastStr) -> u64 {
    let mut h = std::collections::hash_map::DefaultHasher::new();
    f.hash(&mut h);
    h.finish()
}

// ---------------------------------------------------------------- FastStr, deep
pub fn faststr_deep(cx: &mut Ctx, a: &[u8]) {
    let cell = "FastStr";
    cx.sum.eval(cell, &format!("fsd {:?}", a), a.len() >= 2);
    cx.sum.dist("faststr_deep_cases");
    let cj = json!({"cell": "faststr_deep", "a": a});
    let r = guarded(|| {
        let mut bad: Vec<String> = vec![];
        let n = a.len();
        let fa = FastStr::new(a);
        let h0 = fa.hash_fast();
        let sh0 = std_hash(&fa);
        // --- equal bytes at different addresses/alignments, through every constructor
        let mut buf = vec![0u8; n + 80];
        for off in (0usize..=17).chain([31usize, 32, 33, 63, 64, 65]) {
            for (i, b) in buf.iter_mut().enumerate() { *b = (i as u8).wrapping_mul(37) ^ 0xA5; }
            buf[off..off + n].copy_from_slice(a);
            let fc = FastStr::new(&buf[off..off + n]);
            let big = FastStr::new(&buf);
            let views: Vec<(&str, FastStr)> = vec![
                ("new", fc),
                ("substring", big.substring(off, n)),
                ("substring_from+prefix", big.substring_from(off).prefix(n)),
                ("prefix+suffix", big.prefix(off + n).suffix(n)),
                ("from_raw_parts", unsafe { FastStr::from_raw_parts(buf.as_ptr().add(off), n) }),
                ("From<&[u8]>", FastStr::from(&buf[off..off + n])),
            ];
            for (name, v) in views {
                if v.as_bytes() != a { bad.push(format!("{} at offset {}: bytes differ", name, off)); continue; }
                if !(v == fa) || v != fa { bad.push(format!("{} at offset {}: == is false for equal bytes", name, off)); }
                if v.cmp(&fa) != Ordering::Equal || fa.compare(v) != Ordering::Equal || v.partial_cmp(&fa) != Some(Ordering::Equal) {
                    bad.push(format!("{} at offset {}: cmp != Equal for equal bytes", name, off));
                }
                if v.hash_fast() != h0 { bad.push(format!("{} at offset {}: hash_fast differs for equal bytes (len {})", name, off, n)); }
                if std_hash(&v) != sh0 { bad.push(format!("{} at offset {}: Hash differs for equal bytes (len {})", name, off, n)); }
            }
            if off == 5 {
                let mut set: HashSet<FastStr> = HashSet::new();
                set.insert(fa);
                if !set.contains(&fc) { bad.push("HashSet lookup through an equal copy fails".into()); }
            }
        }
        if let Ok(s) = std::str::from_utf8(a) {
            let owned = s.to_string();
            for (name, v) in [("from_string", FastStr::from_string(&owned)), ("From<&str>", FastStr::from(owned.as_str()))] {
                if v != fa || v.hash_fast() != h0 || std_hash(&v) != sh0 { bad.push(format!("{}: eq/hash differ for equal bytes", name)); }
            }
            if !(fa == *s) || !(fa == s) || !(fa == owned) { bad.push("PartialEq<str/&str/String>".into()); }
            if fa.as_str() != Some(s) { bad.push("as_str".into()); }
        } else if fa.as_str().is_some() { bad.push("as_str on invalid UTF-8".into()); }
        if !(fa == *a) || !(fa == a) { bad.push("PartialEq<[u8]/&[u8]>".into()); }
        // --- one byte changed at every position: inequality, unsigned ordering, prefix/suffix tests
        for k in 0..n {
            for delta in [0x80u8, 1, 0xFF, 0x7F] {
                let mut b = a.to_vec();
                b[k] = b[k].wrapping_add(delta);
                let fb = FastStr::new(&b);
                let want = a.cmp(&b[..]);
                if fa == fb { bad.push(format!("== true for strings differing at {}", k)); }
                if fa.cmp(&fb) != want || fa.compare(fb) != want || fa.partial_cmp(&fb) != Some(want) || fb.cmp(&fa) != want.reverse() {
                    bad.push(format!("ordering wrong at {}: bytes {} vs {} (got {:?}, unsigned byte order says {:?})", k, a[k], b[k], fa.cmp(&fb), want));
                }
                if (fa < fb) != (want == Ordering::Less) || (fa >= fb) != (want != Ordering::Less) { bad.push(format!("operators </>= at {}", k)); }
                if fa.common_prefix_len(fb) != k { bad.push(format!("common_prefix_len at {}", k)); }
                if fa.starts_with(fb.prefix(k + 1)) || !fa.starts_with(fb.prefix(k)) { bad.push(format!("starts_with around position {}", k)); }
                if fa.ends_with(fb.substring_from(k)) || !fa.ends_with(fb.substring_from(k + 1)) { bad.push(format!("ends_with around position {}", k)); }
            }
        }
        // --- two bytes changed in opposite directions: the first difference decides, not the later one and not a whole word
        for k in 0..n {
            for j in [1usize, 3, 7, 8] {
                if k + j >= n { continue; }
                for up in [true, false] {
                    let mut b = a.to_vec();
                    if up { b[k] = b[k].wrapping_add(1); b[k + j] = b[k + j].wrapping_sub(1); } else { b[k] = b[k].wrapping_sub(1); b[k + j] = b[k + j].wrapping_add(1); }
                    let fb = FastStr::new(&b);
                    let want = a.cmp(&b[..]);
                    if fa.cmp(&fb) != want || fa.compare(fb) != want || fb.partial_cmp(&fa) != Some(want.reverse()) || fa == fb {
                        bad.push(format!("ordering wrong: bytes {} and {} changed in opposite directions (got {:?}, unsigned byte order says {:?})", k, k + j, fa.cmp(&fb), want));
                    }
                    if fa.common_prefix_len(fb) != k { bad.push(format!("common_prefix_len with differences at {} and {}", k, k + j)); }
                }
            }
        }
        // --- every prefix / suffix / cut point
        for k in 0..=n {
            let p = &a[..k];
            let fp = FastStr::new(p);
            if fa.cmp(&fp) != a.cmp(p) || fp.cmp(&fa) != p.cmp(a) { bad.push(format!("ordering against own prefix of length {}", k)); }
            if (fa == fp) != (k == n) { bad.push(format!("== against own prefix of length {}", k)); }
            if !fa.starts_with(fp) { bad.push(format!("starts_with(prefix {})", k)); }
            if !fa.ends_with(FastStr::new(&a[n - k..])) { bad.push(format!("ends_with(suffix {})", k)); }
            if fa.prefix(k).as_bytes() != p { bad.push(format!("prefix({})", k)); }
            if fa.suffix(k).as_bytes() != &a[n - k..] { bad.push(format!("suffix({})", k)); }
            if fa.substring_from(k).as_bytes() != &a[k..] { bad.push(format!("substring_from({})", k)); }
            if fa.substring(k, n - k).as_bytes() != &a[k..] || fa.substring(k, usize::MAX).as_bytes() != &a[k..] || fa.substring(k, 0).len() != 0 {
                bad.push(format!("substring({}, ..)", k));
            }
            if fa.get_byte(k) != a.get(k).copied() { bad.push(format!("get_byte({})", k)); }
            // the hash of a view into `a` equals the hash of a fresh copy of the same bytes
            let copy = p.to_vec();
            if FastStr::new(&copy).hash_fast() != fa.prefix(k).hash_fast() { bad.push(format!("hash_fast of prefix({}) differs from the hash of a copy", k)); }
            let copy2 = a[k..].to_vec();
            if FastStr::new(&copy2).hash_fast() != fa.substring_from(k).hash_fast() { bad.push(format!("hash_fast of substring_from({}) differs from the hash of a copy", k)); }
        }
        if fa.prefix(n + 1).as_bytes() != a || fa.suffix(n + 7).as_bytes() != a || fa.substring_from(n + 3).len() != 0 || fa.get_byte(n + 1).is_some() {
            bad.push("out-of-range prefix/suffix/substring_from/get_byte".into());
        }
        if fa.len() != n || fa.is_empty() != (n == 0) || fa.as_ptr() != a.as_ptr() { bad.push("len/is_empty/as_ptr".into()); }
        // --- substring search at all positions
        let lens: Vec<usize> = if n <= 24 { (1..=n).collect() } else { vec![1, 2, 3, 4, 5, 7, 8, 9, 15, 16, 17, 31, 32, 33, 63, 64, 65] };
        for st in 0..n {
            for &l in lens.iter().chain(std::iter::once(&(n - st))) {
                if l == 0 || st + l > n { continue; }
                let nd = a[st..st + l].to_vec();
                let got = fa.find(FastStr::new(&nd));
                let want = naive_find(a, &nd);
                if got != want { bad.push(format!("find(a[{}..{}]) got {:?} want {:?}", st, st + l, got, want)); }
                let mut nd2 = nd.clone();
                nd2[l - 1] ^= 0x80;
                let got2 = fa.find(FastStr::new(&nd2));
                let want2 = naive_find(a, &nd2);
                if got2 != want2 { bad.push(format!("find(a[{}..{}] with last byte flipped) got {:?} want {:?}", st, st + l, got2, want2)); }
            }
        }
        if fa.find(FastStr::new(&[])) != Some(0) { bad.push("find(empty)".into()); }
        let mut longer = a.to_vec();
        longer.push(1);
        if fa.find(FastStr::new(&longer)).is_some() { bad.push("find(longer needle)".into()); }
        for c in 0..=255u8 {
            let want = a.iter().position(|&x| x == c);
            if fa.find_byte(c) != want { bad.push(format!("find_byte({})", c)); }
            if fa.find_byte_optimized(c) != want { bad.push(format!("find_byte_optimized({})", c)); }
            if fa.find(FastStr::new(&[c])) != want { bad.push(format!("find([{}])", c)); }
        }
        bad.truncate(6);
        bad
    });
    match r {
        Err(p) => cx.sum.fail(cell, None, cj, &format!("panicked: {}", p)),
        Ok(bad) => if !bad.is_empty() { cx.sum.fail(cell, None, cj, &bad.join("; ")); }
    }
}

// ---------------------------------------------------------------- StreamingLexIterator
/// `strings`: sorted, none contains '\n' or ends with '\r'.  `terms[i] % 2 == 1` -> "\r\n" after string i, else "\n".
/// The last terminator is omitted when `cut_last` and the last string is not empty.
pub fn streaming_case(cx: &mut Ctx, strings: &[String], terms: &[u8], cut_last: bool) {
    let cell = "StreamingLexIterator";
    cx.sum.eval(cell, &format!("stream {:?} {:?} {}", strings, terms, cut_last), strings.len() >= 2);
    let cj = json!({"cell": "streaming", "strings": strings, "terms": terms, "cut_last": cut_last});
    if strings.iter().any(|s| s.contains('\n') || s.ends_with('\r')) { return; }
    let mut text = String::new();
    for (i, s) in strings.iter().enumerate() {
        text.push_str(s);
        let last = i + 1 == strings.len();
        if last && cut_last && !s.is_empty() { break; }
        if terms.get(i).copied().unwrap_or(0) % 2 == 1 { text.push('\r'); }
        text.push('\n');
    }
    let r = guarded(|| {
        let mut bad: Vec<String> = vec![];
        for via_builder in [false, true] {
            let rd = std::io::Cursor::new(text.clone().into_bytes());
            let mut it: StreamingLexIterator<_> = if via_builder { LexIteratorBuilder::new().build_streaming(rd) } else { StreamingLexIterator::new(rd) };
            let mut seen: Vec<Option<String>> = vec![];
            let mut guard = 0;
            loop {
                guard += 1;
                if guard > strings.len() + 5 { bad.push("next() keeps returning true".into()); break; }
                match it.next() {
                    Ok(true) => seen.push(it.current().map(|s| s.to_string())),
                    Ok(false) => break,
                    Err(e) => { bad.push(format!("next() error {}", e)); break; }
                }
            }
            let want: Vec<Option<String>> = strings.iter().map(|s| Some(s.clone())).collect();
            if seen != want { bad.push(format!("enumeration {:?}, want {:?}", seen, want)); }
            if !it.is_at_end() || it.current().is_some() { bad.push("not at end after the last string".into()); }
        }
        bad.dedup();
        bad
    });
    match r {
        Err(p) => cx.sum.fail(cell, None, cj.clone(), &format!("panicked: {}", p)),
        Ok(bad) => if !bad.is_empty() { cx.sum.fail(cell, None, cj.clone(), &bad.join("; ")); }
    }
    let mix = terms.iter().fold(strings.len() as u64 * 7 + cut_last as u64, |a, &t| a.wrapping_mul(31).wrapping_add(t as u64 + 1));
    x::stream_emit(cx, cj, text.as_bytes(), strings.len(), mix);
}

// ---------------------------------------------------------------- SortableStrVec
/// `strict_err`: the API documents Err(insertion point); otherwise only presence/absence is constrained.
fn check_search(name: &str, sorted: &[String], p: &str, got: Result<usize, usize>, strict_err: bool, bad: &mut Vec<String>) {
    match got {
        Ok(i) => if sorted.get(i).map(|s| s.as_str()) != Some(p) { bad.push(format!("{}: binary_search({:?}) = Ok({}) but that element is {:?}", name, p, i, sorted.get(i))); },
        Err(i) => {
            let lb = sorted.partition_point(|s| s.as_str() < p);
            if sorted.iter().any(|s| s == p) { bad.push(format!("{}: binary_search({:?}) = Err({}) but the string is present", name, p, i)); }
            else if strict_err && i != lb { bad.push(format!("{}: binary_search({:?}) = Err({}), insertion point is {}", name, p, i, lb)); }
        }
    }
}

pub fn sortable_case(cx: &mut Ctx, strings: &[String], probes: &[String]) {
    let cell = "SortableStrVec";
    cx.sum.eval(cell, &format!("ssv {:?} {:?}", strings, probes), strings.len() >= 2);
    let cj = json!({"cell": "sortable", "strings": strings, "probes": probes});
    x::search_emit(cx, cj.clone(), strings, probes);
    x::push_emit(cx, cj.clone(), strings);
    let r = guarded(|| {
        let mut bad: Vec<String> = vec![];
        let n = strings.len();
        let mut sorted: Vec<String> = strings.to_vec();
        sorted.sort();
        let mut v = SortableStrVec::new();
        for (i, s) in strings.iter().enumerate() {
            match if i % 2 == 0 { v.push_str(s) } else { v.push(s.clone()) } {
                Ok(id) => if v.get_by_id(id) != Some(s.as_str()) { bad.push(format!("push returned id {} for element {}, get_by_id gives {:?}", id, i, v.get_by_id(id))); },
                Err(e) => { bad.push(format!("push failed: {}", e)); return bad; }
            }
        }
        if v.len() != n || v.is_empty() != (n == 0) { bad.push("len/is_empty".into()); }
        for i in 0..n { if v.get(i) != Some(strings[i].as_str()) || v.get_by_id(i) != Some(strings[i].as_str()) { bad.push(format!("get({}) = {:?}", i, v.get(i))); break; } }
        if v.get(n).is_some() { bad.push("get(len) is Some".into()); }
        if v.iter().map(|s| s.to_string()).collect::<Vec<_>>() != strings { bad.push("iter() differs from the pushed strings".into()); }
        let collect_sorted = |v: &SortableStrVec| -> Vec<String> { (0..v.len()).filter_map(|i| v.get_sorted(i).map(|s| s.to_string())).collect() };
        // lexicographic
        if let Err(e) = v.sort_lexicographic() { bad.push(format!("sort_lexicographic: {}", e)); }
        let got = collect_sorted(&v);
        if got != sorted { bad.push(format!("sort_lexicographic enumerates {:?}, want {:?}", clip(&got), clip(&sorted))); }
        if v.iter_sorted().map(|s| s.to_string()).collect::<Vec<_>>() != sorted { bad.push("iter_sorted after sort_lexicographic".into()); }
        if v.get_sorted(n).is_some() { bad.push("get_sorted(len) is Some".into()); }
        for i in 0..n { if v.get(i) != Some(strings[i].as_str()) { bad.push("get(i) changed by sorting".into()); break; } }
        for p in probes.iter().chain(sorted.iter().take(40)) { check_search("after sort_lexicographic", &sorted, p, v.binary_search(p), false, &mut bad); }
        // radix sort on a fresh vector
        match SortableStrVec::from_iter(strings.iter()) {
            Err(e) => bad.push(format!("from_iter: {}", e)),
            Ok(mut w) => {
                if let Err(e) = w.radix_sort() { bad.push(format!("radix_sort: {}", e)); }
                let got = collect_sorted(&w);
                if got != sorted { bad.push(format!("radix_sort enumerates {:?}, want {:?}", clip(&got), clip(&sorted))); }
                for p in probes.iter().take(8) { check_search("after radix_sort", &sorted, p, w.binary_search(p), false, &mut bad); }
                // sort() after a later push sees the new element
                let _ = w.push_str("");
                let _ = w.push_str("\u{7f}zz");
                if let Err(e) = w.sort() { bad.push(format!("sort: {}", e)); }
                let mut s2 = strings.to_vec();
                s2.push(String::new());
                s2.push("\u{7f}zz".into());
                s2.sort();
                if collect_sorted(&w) != s2 { bad.push("sort() after two more pushes does not enumerate all strings in order".into()); }
            }
        }
        // by length
        if let Err(e) = v.sort_by_length() { bad.push(format!("sort_by_length: {}", e)); }
        let got = collect_sorted(&v);
        if got.len() != n || got.windows(2).any(|w| w[0].len() > w[1].len()) { bad.push(format!("sort_by_length not ascending by length: {:?}", clip(&got))); }
        let mut g2 = got.clone();
        g2.sort();
        if g2 != sorted { bad.push("sort_by_length skipped or repeated a string".into()); }
        // custom comparator (descending)
        if let Err(e) = v.sort_by(|a, b| b.cmp(a)) { bad.push(format!("sort_by: {}", e)); }
        let mut desc = sorted.clone();
        desc.reverse();
        if collect_sorted(&v) != desc { bad.push("sort_by(descending) does not enumerate in descending order".into()); }
        // and back, then into the succinct vector (duplicates kept)
        if let Err(e) = v.sort() { bad.push(format!("sort: {}", e)); }
        if collect_sorted(&v) != sorted { bad.push("sort() after sort_by".into()); }
        if !strings.iter().any(|s| s.contains('\0')) {
            match ZoSortedStrVec::from_sortable_str_vec(v.clone()) {
                Err(e) => bad.push(format!("ZoSortedStrVec::from_sortable_str_vec: {}", e)),
                Ok(z) => if z.iter().map(|s| s.to_string()).collect::<Vec<_>>() != sorted { bad.push("ZoSortedStrVec::from_sortable_str_vec enumerates differently".into()); }
            }
        }
        v.clear();
        if v.len() != 0 || v.get(0).is_some() || v.iter().next().is_some() { bad.push("clear".into()); }
        bad.truncate(6);
        bad
    });
    match r {
        Err(p) => cx.sum.fail(cell, None, cj, &format!("panicked: {}", p)),
        Ok(bad) => if !bad.is_empty() { cx.sum.fail(cell, None, cj, &bad.join("; ")); }
    }
}

fn clip(v: &[String]) -> Vec<String> { v.iter().take(12).cloned().collect() }

/// A string longer than the 20-bit length field of the packed entry (one case; the push may refuse, it must not corrupt).
pub fn sortable_long_case(cx: &mut Ctx, len: usize) {
    let cell = "SortableStrVec";
    cx.sum.eval(cell, &format!("ssv-long {}", len), true);
    let cj = json!({"cell": "sortable_long", "len": len});
    let r = guarded(|| {
        let mut bad: Vec<String> = vec![];
        let long: String = std::iter::repeat('m').take(len).collect();
        let mut v = SortableStrVec::new();
        let _ = v.push_str("b");
        let pushed = v.push_str(&long).is_ok();
        let _ = v.push_str("z");
        let mut want: Vec<&str> = vec!["b", "z"];
        if pushed { want.push(&long); }
        want.sort();
        let idx_z = if pushed { 2 } else { 1 };
        if pushed && v.get(1).map(|s| s.len()) != Some(len) { bad.push(format!("get(1) has length {:?}, pushed a string of length {}", v.get(1).map(|s| s.len()), len)); }
        if v.get(idx_z) != Some("z") { bad.push(format!("the string pushed after the long one reads back as {:?}", v.get(idx_z).map(|s| s.len()))); }
        let _ = v.sort_lexicographic();
        let got: Vec<&str> = (0..v.len()).filter_map(|i| v.get_sorted(i)).collect();
        if got != want { bad.push(format!("sorted enumeration has lengths {:?}, want {:?}", got.iter().map(|s| s.len()).collect::<Vec<_>>(), want.iter().map(|s| s.len()).collect::<Vec<_>>())); }
        bad
    });
    match r {
        Err(p) => cx.sum.fail(cell, None, cj, &format!("panicked: {}", p)),
        Ok(bad) => if !bad.is_empty() { cx.sum.fail(cell, None, cj, &bad.join("; ")); }
    }
}

// ---------------------------------------------------------------- ZoSortedStrVec
pub fn zo_case(cx: &mut Ctx, strings: &[String], probes: &[String]) {
    let cell = "ZoSortedStrVec";
    cx.sum.eval(cell, &format!("zo {:?} {:?}", strings, probes), strings.len() >= 2);
    let cj = json!({"cell": "zo", "strings": strings, "probes": probes});
    x::zo_emit(cx, cj.clone(), strings, probes);
    let r = guarded(|| {
        let mut bad: Vec<String> = vec![];
        let mut sorted: Vec<String> = strings.to_vec();
        sorted.sort();
        let is_sorted = sorted == strings;
        let has_nul = strings.iter().any(|s| s.contains('\0'));
        let z = match ZoSortedStrVec::from_sorted_strings(strings.to_vec()) {
            Err(e) => {
                // refusing is right exactly for unsorted input, and acceptable for strings the NUL-terminated layout cannot hold
                if is_sorted && !has_nul { bad.push(format!("from_sorted_strings refused sorted input: {}", e)); }
                None
            }
            Ok(z) => { if !is_sorted { bad.push("from_sorted_strings accepted unsorted input".into()); None } else { Some(z) } }
        };
        if let Some(z) = z {
            let n = sorted.len();
            if z.len() != n || z.is_empty() != (n == 0) { bad.push(format!("len {} want {}", z.len(), n)); }
            for i in 0..n { if z.get(i) != Some(sorted[i].as_str()) { bad.push(format!("get({}) = {:?}, want {:?}", i, z.get(i), sorted[i])); break; } }
            if z.get(n).is_some() { bad.push("get(len) is Some".into()); }
            let it: Vec<String> = z.iter().map(|s| s.to_string()).collect();
            if it != sorted { bad.push(format!("iter() enumerates {:?}, want {:?}", clip(&it), clip(&sorted))); }
            if z.iter().size_hint() != (n, Some(n)) { bad.push("size_hint".into()); }
            // a partially consumed iterator knows how many strings remain; a clone answers like the original
            let mut pit = z.iter();
            for k in 0..n.min(3) { let _ = pit.next(); if pit.size_hint() != (n - k - 1, Some(n - k - 1)) || pit.len() != n - k - 1 { bad.push(format!("size_hint after {} strings: {:?}", k + 1, pit.size_hint())); } }
            if pit.map(|s| s.to_string()).collect::<Vec<_>>() != sorted[n.min(3)..] { bad.push("rest of a partially consumed iterator".into()); }
            let zc = z.clone();
            if zc.len() != n || !zc.iter().eq(sorted.iter().map(|s| s.as_str())) { bad.push("clone enumerates differently".into()); }
            for p in probes.iter() { if zc.binary_search(p) != z.binary_search(p) || zc.contains(p) != z.contains(p) { bad.push(format!("clone answers binary_search({:?}) differently", p)); } }
            for p in probes.iter().chain(sorted.iter().take(20)) {
                check_search("ZoSortedStrVec", &sorted, p, z.binary_search(p), true, &mut bad);
                if z.contains(p) != sorted.iter().any(|s| s == p) { bad.push(format!("contains({:?})", p)); }
            }
            for lo in probes.iter() { for hi in probes.iter() {
                let want: Vec<&str> = sorted.iter().map(|s| s.as_str()).filter(|s| *s >= lo.as_str() && *s < hi.as_str()).collect();
                let got: Vec<&str> = z.range(lo, hi).collect();
                let rg = z.range(lo, hi);
                if rg.size_hint() != (want.len(), Some(want.len())) || rg.len() != want.len() { bad.push(format!("range({:?}, {:?}).size_hint() = {:?}, {} strings in the range", lo, hi, rg.size_hint(), want.len())); }
                if got != want { bad.push(format!("range({:?}, {:?}) enumerates {:?}, want {:?}", lo, hi, got.iter().take(12).collect::<Vec<_>>(), want.iter().take(12).collect::<Vec<_>>())); }
            } }
        }
        // from_strings sorts and removes duplicates
        if !has_nul {
            match ZoSortedStrVec::from_strings(strings.to_vec()) {
                Err(e) => bad.push(format!("from_strings: {}", e)),
                Ok(z) => {
                    let mut d = sorted.clone();
                    d.dedup();
                    if z.iter().map(|s| s.to_string()).collect::<Vec<_>>() != d { bad.push("from_strings does not enumerate the sorted distinct strings".into()); }
                }
            }
        }
        bad.truncate(6);
        bad
    });
    match r {
        Err(p) => cx.sum.fail(cell, None, cj, &format!("panicked: {}", p)),
        Ok(bad) => if !bad.is_empty() { cx.sum.fail(cell, None, cj, &bad.join("; ")); }
    }
}

// ---------------------------------------------------------------- unicode.rs
pub fn unicode_case(cx: &mut Ctx, text: &[u8]) {
    let cell = "unicode";
    cx.sum.eval(cell, &format!("uni {:?}", text), text.len() >= 2);
    let cj = json!({"cell": "unicode", "text": text});
    let r = guarded(|| {
        use zipora::string::{utf8_byte_count, validate_utf8_and_count_chars, UnicodeProcessor, Utf8ToUtf32Iterator};
        let mut bad: Vec<String> = vec![];
        let parsed = std::str::from_utf8(text);
        match (validate_utf8_and_count_chars(text), &parsed) {
            (Ok(c), Ok(s)) => if c != s.chars().count() { bad.push(format!("validate_utf8_and_count_chars = {}, chars().count() = {}", c, s.chars().count())); },
            (Err(_), Err(_)) => {}
            (Ok(c), Err(_)) => bad.push(format!("validate_utf8_and_count_chars accepted invalid UTF-8 ({} chars)", c)),
            (Err(e), Ok(_)) => bad.push(format!("validate_utf8_and_count_chars rejected valid UTF-8: {}", e)),
        }
        match (Utf8ToUtf32Iterator::new(text), &parsed) {
            (Err(_), Err(_)) => {}
            (Ok(_), Err(_)) => bad.push("Utf8ToUtf32Iterator::new accepted invalid UTF-8".into()),
            (Err(e), Ok(_)) => bad.push(format!("Utf8ToUtf32Iterator::new rejected valid UTF-8: {}", e)),
            (Ok(mut it), Ok(s)) => {
                let s: &str = *s;
                let want: Vec<char> = s.chars().collect();
                let mut fwd: Vec<char> = vec![];
                let mut pos_ok = true;
                let mut bytes = 0usize;
                while let Some(c) = it.next_char() {
                    fwd.push(c);
                    bytes += c.len_utf8();
                    if it.byte_position() != bytes || it.current() != Some(c) { pos_ok = false; }
                    if fwd.len() > want.len() + 2 { break; }
                }
                if fwd != want { bad.push(format!("forward enumeration {:?}, want {:?}", fwd, want)); }
                if !pos_ok { bad.push("byte_position/current out of step".into()); }
                let mut back: Vec<char> = vec![];
                while let Some(c) = it.prev_char() { back.push(c); if back.len() > want.len() + 2 { break; } }
                back.reverse();
                if fwd == want && back != want { bad.push(format!("backward enumeration {:?}, want {:?}", back, want)); }
                it.reset();
                if it.byte_position() != 0 || it.next_char() != want.first().copied() { bad.push("reset".into()); }
                // case conversion
                if zipora::string::utils::unicode_utils::to_lowercase_unicode(s) != s.to_lowercase() { bad.push("to_lowercase_unicode".into()); }
                if zipora::string::utils::unicode_utils::to_uppercase_unicode(s) != s.to_uppercase() { bad.push("to_uppercase_unicode".into()); }
                if zipora::string::utils::unicode_utils::extract_codepoints(s) != want.iter().map(|c| *c as u32).collect::<Vec<_>>() { bad.push("extract_codepoints".into()); }
                match UnicodeProcessor::new().with_case_folding(true).process(s) { Ok(o) => if o != s.to_lowercase() { bad.push("UnicodeProcessor case folding".into()); }, Err(e) => bad.push(format!("process: {}", e)) }
                match UnicodeProcessor::new().process(s) { Ok(o) => if o != s { bad.push("UnicodeProcessor identity".into()); }, Err(e) => bad.push(format!("process: {}", e)) }
                let an = UnicodeProcessor::new().analyze(s);
                if an.char_count != want.len() || an.byte_count != s.len() || an.ascii_count != want.iter().filter(|c| c.is_ascii()).count() { bad.push("analyze counts".into()); }
            }
        }
        for b in 0..=255u8 {
            let want = if b < 0x80 { 1 } else if b < 0xC0 { 0 } else if b < 0xE0 { 2 } else if b < 0xF0 { 3 } else if b < 0xF8 { 4 } else { 0 };
            if utf8_byte_count(b) != want { bad.push(format!("utf8_byte_count({})", b)); }
        }
        bad
    });
    match r {
        Err(p) => cx.sum.fail(cell, None, cj, &format!("panicked: {}", p)),
        Ok(bad) => if !bad.is_empty() { cx.sum.fail(cell, None, cj, &bad.join("; ")); }
    }
    x::utf8_emit(cx, text);
}

// ---------------------------------------------------------------- LineProcessor configurations
/// cfgbits: 1 = skip_empty_lines, 2 = trim_whitespace, 4 = preserve_line_endings
pub fn lines_cfg_case(cx: &mut Ctx, text: &str, cfgbits: u64, batch: usize, delim: &str) {
    let cell = "LineProcessor_configs";
    cx.sum.eval(cell, &format!("linescfg {:?} {} {} {:?}", text, cfgbits, batch, delim), text.len() >= 3);
    let cj = json!({"cell": "lines_cfg", "text": text, "cfg": cfgbits, "batch": batch, "delim": delim});
    let r = guarded(|| {
        let mut bad: Vec<String> = vec![];
        let (skip, trim, keep) = (cfgbits & 1 != 0, cfgbits & 2 != 0, cfgbits & 4 != 0);
        // the straightforward definition: cut after every '\n'; unless endings are kept drop that '\n' and one '\r' before it;
        // then trim if asked; then drop empty results if asked
        let mut want: Vec<String> = vec![];
        for piece in text.split_inclusive('\n') {
            let mut l = piece.to_string();
            if !keep && l.ends_with('\n') { l.pop(); if l.ends_with('\r') { l.pop(); } }
            let l = if trim { l.trim().to_string() } else { l };
            if skip && l.is_empty() { continue; }
            want.push(l);
        }
        let mut cfg = LineProcessorConfig::default();
        cfg.skip_empty_lines = skip;
        cfg.trim_whitespace = trim;
        cfg.preserve_line_endings = keep;
        let mk = || LineProcessor::with_config(text.as_bytes(), cfg.clone());
        let mut got: Vec<String> = vec![];
        match mk().process_lines(|l| { got.push(l.to_string()); Ok(true) }) {
            Ok(k) => { if got != want { bad.push(format!("process_lines got {:?} want {:?}", got, want)); } if k != got.len() { bad.push("process_lines count".into()); } }
            Err(e) => bad.push(format!("process_lines: {}", e)),
        }
        match mk().count_lines() {
            Ok(k) => if k != want.len() { bad.push(format!("count_lines = {}, process_lines delivers {} lines", k, want.len())); },
            Err(e) => bad.push(format!("count_lines: {}", e)),
        }
        if batch > 0 {
            let mut gb: Vec<String> = vec![];
            let mut sizes_ok = true;
            match mk().process_batches(batch, |b| { if b.is_empty() || b.len() > batch { sizes_ok = false; } gb.extend(b.iter().cloned()); Ok(true) }) {
                Ok(k) => { if gb != want || k != want.len() { bad.push(format!("process_batches({}) got {:?} (returned {}) want {:?}", batch, gb, k, want)); } if !sizes_ok { bad.push("batch sizes".into()); } }
                Err(e) => bad.push(format!("process_batches: {}", e)),
            }
        }
        if !delim.is_empty() {
            let mut gf: Vec<(String, usize, usize)> = vec![];
            let mut wf: Vec<(String, usize, usize)> = vec![];
            for (ln, l) in want.iter().enumerate() { for (fi, f) in l.split(delim).enumerate() { wf.push((f.to_string(), ln + 1, fi)); } }
            match mk().split_lines_by(delim, |f, ln, fi| { gf.push((f.to_string(), ln, fi)); Ok(true) }) {
                Ok(k) => {
                    // fields and field numbers are pinned; line numbers only have to tell the lines apart, in order
                    let strip = |v: &Vec<(String, usize, usize)>| v.iter().map(|(f, _, i)| (f.clone(), *i)).collect::<Vec<_>>();
                    let groups = |v: &Vec<(String, usize, usize)>| { let mut g = vec![]; for w in v.windows(2) { g.push(w[0].1 == w[1].1); } g };
                    if strip(&gf) != strip(&wf) || k != wf.len() || groups(&gf) != groups(&wf) || gf.windows(2).any(|w| w[0].1 > w[1].1) {
                        bad.push(format!("split_lines_by({:?}) got {:?} want {:?}", delim, gf, wf));
                    }
                }
                Err(e) => bad.push(format!("split_lines_by: {}", e)),
            }
        }
        match mk().find_lines(|l| l.contains('a')) {
            Ok(found) => {
                let wl: Vec<String> = want.iter().filter(|l| l.contains('a')).cloned().collect();
                if found.iter().map(|(_, l)| l.clone()).collect::<Vec<_>>() != wl { bad.push("find_lines".into()); }
            }
            Err(e) => bad.push(format!("find_lines: {}", e)),
        }
        bad
    });
    match r {
        Err(p) => cx.sum.fail(cell, None, cj, &format!("panicked: {}", p)),
        Ok(bad) => if !bad.is_empty() { cx.sum.fail(cell, None, cj, &bad.join("; ")); }
    }
    x::lines_cfg_emit(cx, text, cfgbits, batch, delim);
}

// ---------------------------------------------------------------- lexicographic iterator: operation histories for the model
/// ops: (code, target) with 0 next, 1 prev, 2 seek_start, 3 seek_end, 4 seek_lower_bound, 5 seek_upper_bound.
/// Emits a Coq case (return value and current() after every operation); the oracle part checks only what the trait documents.
pub fn lex_ops_case(cx: &mut Ctx, strings: &[String], ops: &[(u8, String)], via: u64) {
    let cell = "SortedVecLexIterator";
    cx.sum.eval(cell, &format!("lexops {:?} {:?}", strings, ops), strings.len() >= 2 && ops.len() >= 2);
    let cj = json!({"cell": "lexops", "strings": strings, "ops": ops.iter().map(|(c, t)| json!([c, t])).collect::<Vec<_>>(), "via": via});
    if strings.windows(2).any(|w| w[0] > w[1]) { return; }
    let r = guarded(|| {
        let mut bad: Vec<String> = vec![];
        let mut obs: Vec<(bool, Option<String>)> = vec![];
        // via: 0 = SortedVecLexIterator::new, otherwise through LexIteratorBuilder (default / with options)
        let mut it = super::wide::lex_iter_via(via, strings);
        if it.size_hint() != Some(strings.len()) { bad.push("size_hint".into()); }
        if it.is_at_start() != !strings.is_empty() || it.current().map(|s| s.to_string()).as_ref() != strings.first() { bad.push("a new iterator is not at the first string".into()); }
        for (code, t) in ops {
            let before = it.current().map(|s| s.to_string());
            let ret = match code { 0 => it.next(), 1 => it.prev(), 2 => it.seek_start(), 3 => it.seek_end(), 4 => it.seek_lower_bound(t), _ => it.seek_upper_bound(t) };
            let ret = match ret { Ok(b) => b, Err(e) => { bad.push(format!("op {} failed: {}", code, e)); break; } };
            let cur = it.current().map(|s| s.to_string());
            // documented: true = moved to the neighbour in order; the strings are sorted, so a successful step never goes the wrong way
            match code {
                0 => if ret { if !(cur.is_some() && before.is_some() && cur >= before) { bad.push(format!("next() from {:?} to {:?}", before, cur)); } }
                     // refused at the last string: the iterator stays or is at the end, it never lands on another string
                     else if cur.is_some() && cur != before { bad.push(format!("a refused next() moved the iterator from {:?} to {:?}", before, cur)); },
                1 => if ret { if !(cur.is_some() && before.is_some() && cur <= before) { bad.push(format!("prev() from {:?} to {:?}", before, cur)); } }
                     // refused at the first string: the iterator stays where it is
                     else if before.is_some() && cur != before { bad.push(format!("a refused prev() moved the iterator from {:?} to {:?}", before, cur)); },
                2 => if cur.as_ref() != strings.first() || ret != !strings.is_empty() { bad.push("seek_start".into()); },
                3 => if cur.as_ref() != strings.last() || ret != !strings.is_empty() { bad.push("seek_end".into()); },
                4 => {
                    let lb = strings.partition_point(|s| s.as_str() < t.as_str());
                    if cur.as_ref() != strings.get(lb) || ret != (strings.get(lb) == Some(t)) { bad.push(format!("seek_lower_bound({:?}) -> {:?}, {}", t, cur, ret)); }
                }
                _ => {
                    let ub = strings.partition_point(|s| s.as_str() <= t.as_str());
                    if cur.as_ref() != strings.get(ub) || ret { bad.push(format!("seek_upper_bound({:?}) -> {:?}, {}", t, cur, ret)); }
                }
            }
            if it.is_at_end() != cur.is_none() { bad.push("is_at_end".into()); }
            // is_at_start: true after seek_start on a non-empty list, never on a string different from the first, never after a successful next()
            if it.is_at_start() && cur.as_ref() != strings.first() { bad.push(format!("is_at_start() at {:?}", cur)); }
            if (*code == 2 && !strings.is_empty() && !it.is_at_start()) || (*code == 0 && ret && it.is_at_start()) { bad.push(format!("is_at_start() = {} after op {}", it.is_at_start(), code)); }
            if it.size_hint() != Some(strings.len()) { bad.push("size_hint".into()); }
            obs.push((ret, cur));
        }
        (bad, obs)
    });
    match r {
        Err(p) => cx.sum.fail(cell, None, cj, &format!("panicked: {}", p)),
        Ok((bad, obs)) => {
            if !bad.is_empty() { cx.sum.fail(cell, None, cj.clone(), &bad.join("; ")); }
            if obs.len() == ops.len() {
                let ops_t: Vec<String> = ops.iter().map(|(c, t)| format!("({}, {})", c, coq_bl(t.as_bytes()))).collect();
                let obs_t: Vec<String> = obs.iter().map(|(b, c)| format!("({}, {})", coq_bool(*b), match c { Some(s) => format!("Some {}", coq_bl(s.as_bytes())), None => "None".into() })).collect();
                let term = format!("(CLex {} [{}] [{}])%N", coq_bll(strings), ops_t.join("; "), obs_t.join("; "));
                push_coq(cx, term, cj);
            }
        }
    }
}
