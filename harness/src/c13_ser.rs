//! C13, part 3: tuple/collection/option serialisation, smart pointers, versioned fields.
use super::c13_io::{ds, strs, u64s, u8s, Chunky};
use super::c13_uni::{self as uni, Uni};
use super::Ctx;
use crate::util::*;
use serde_json::{json, Value};
use std::collections::{BTreeMap, BTreeSet, HashMap, HashSet};
use std::fmt::Debug;
use std::io::Cursor;
use std::rc::Rc;
use std::sync::Arc;
use zipora::io::complex_types::{ComplexSerialize, ComplexTypeConfig, ComplexTypeSerializer, NestedSerialize};
use zipora::io::data_input::{ReaderDataInput, SliceDataInput};
use zipora::io::data_output::VecDataOutput;
use zipora::io::smart_ptr::{DeserializationContext, SerializableType, SerializationContext, SmartPtrConfig, SmartPtrSerialize, SmartPtrSerializer};
use zipora::io::versioning::{Version, VersionConfig, VersionManager, VersionProxy, VersionedSerialize, VersionedSerializer};
use zipora::io::{DataInput, DataOutput};

type R<T> = Result<T, String>;
fn es(e: zipora::ZiporaError) -> String { e.to_string() }
/// Debug text of a value, cut to a readable length (collections of the big families have tens of thousands of elements).
fn short<T: Debug>(v: &T) -> String { let d = format!("{:?}", v); if d.len() > 240 { format!("{}... ({} characters)", d.chars().take(240).collect::<String>(), d.len()) } else { d } }

/// decode `bytes ++ tail` with `dec`, demanding the value back and exactly |bytes| consumed,
/// over a slice input, a std::io reader and a reader that returns short reads.
fn check_dec<T: PartialEq + Debug>(what: &str, bytes: &[u8], tail: &[u8], v: &T,
    dec_s: &dyn Fn(&mut SliceDataInput) -> zipora::Result<T>,
    dec_r: &dyn Fn(&mut ReaderDataInput<Chunky<Cursor<Vec<u8>>>>) -> zipora::Result<T>) -> R<()> {
    let mut all = bytes.to_vec();
    all.extend_from_slice(tail);
    let mut i = SliceDataInput::new(&all);
    let g = dec_s(&mut i).map_err(|e| format!("{}: decode failed: {}", what, e))?;
    if &g != v { return Err(format!("{}: decoded {}, want {}", what, short(&g), short(v))); }
    if i.pos() != bytes.len() { return Err(format!("{}: consumed {} bytes, the encoder produced {}", what, i.pos(), bytes.len())); }
    for k in [1usize, 3, 1 << 20] {
        let mut i = ReaderDataInput::new(Chunky { inner: Cursor::new(all.clone()), k });
        let g = dec_r(&mut i).map_err(|e| format!("{}: decode over a reader failed: {}", what, e))?;
        if &g != v { return Err(format!("{}: decoded {} over a reader, want {}", what, short(&g), short(v))); }
        if i.pos() != bytes.len() as u64 { return Err(format!("{}: consumed {} bytes over a reader, the encoder produced {}", what, i.pos(), bytes.len())); }
    }
    Ok(())
}

fn complex_rt<T: ComplexSerialize + PartialEq + Debug + Uni>(mk: &dyn Fn() -> T, tail: &[u8]) -> R<()> {
    let v = mk();
    let mut o = VecDataOutput::new();
    v.serialize_data(&mut o).map_err(es)?;
    let b1 = o.into_vec();
    check_dec("serialize_data", &b1, tail, &v, &|i| T::deserialize_with_version(i, T::version()), &|i| T::deserialize_with_version(i, T::version()))?;
    // model tie: the same object (a hash map iterates in one order while it is not modified), its bytes, the tail
    uni::stash(uni::ty_of::<T>(), uni::val_of(&v), &b1, tail);
    let mut o = VecDataOutput::new();
    v.serialize_with_metadata(&mut o).map_err(es)?;
    let b2 = o.into_vec();
    check_dec("serialize_with_metadata", &b2, tail, &v, &|i| T::deserialize_with_metadata(i), &|i| T::deserialize_with_metadata(i))?;
    uni::stash(uni::meta_ty(T::type_id(), T::version(), &uni::ty_of::<T>()), uni::val_of(&v), &b2, tail);
    // consecutive encodings concatenate and read back in order
    let mut o = VecDataOutput::new();
    v.serialize_data(&mut o).map_err(es)?;
    v.serialize_with_metadata(&mut o).map_err(es)?;
    v.serialize_nested(&mut o, if tail.is_empty() { 0 } else { 1000 }).map_err(es)?;
    let total = o.len();
    let mut all = o.into_vec();
    all.extend_from_slice(tail);
    let mut i = SliceDataInput::new(&all);
    let a = T::deserialize_with_version(&mut i, T::version()).map_err(|e| format!("concatenation, 1st: {}", e))?;
    let b = T::deserialize_with_metadata(&mut i).map_err(|e| format!("concatenation, 2nd: {}", e))?;
    let c = T::deserialize_nested(&mut i, if tail.is_empty() { 0 } else { 1000 }).map_err(|e| format!("concatenation, 3rd: {}", e))?;
    if a != v || b != v || c != v { return Err(format!("concatenation read back as {:?} / {:?} / {:?}", a, b, c)); }
    if i.pos() != total { return Err(format!("concatenation consumed {} of {} bytes", i.pos(), total)); }
    // the high-level serializer, every configuration
    // the presets, the Default, and every combination of the four public option fields
    let mut cfgs = vec![ComplexTypeConfig::new(), ComplexTypeConfig::safe(), ComplexTypeConfig::fast(), ComplexTypeConfig::compact(), ComplexTypeConfig::compatible(), ComplexTypeConfig::default()];
    if tail.len() % 2 == 1 { for b in 0..16u8 { cfgs.push(ComplexTypeConfig { include_metadata: b & 1 != 0, validate_types: b & 2 != 0, allow_version_skew: b & 4 != 0, space_optimized: b & 8 != 0 }); } }
    for (n, cfg) in cfgs.into_iter().enumerate() {
        let s = if n == 5 { ComplexTypeSerializer::default() } else { ComplexTypeSerializer::new(cfg) };
        let by = s.serialize_to_bytes(&v).map_err(es)?;
        let mut w = by.clone();
        w.extend_from_slice(tail);
        let g: T = s.deserialize_from_bytes(&w).map_err(|e| format!("config {}: deserialize_from_bytes: {}", n, e))?;
        if g != v { return Err(format!("config {}: deserialize_from_bytes = {:?}", n, g)); }
        for cnt in [0usize, 1, 3] {
            let vals: Vec<T> = (0..cnt).map(|_| mk()).collect();
            let by = s.serialize_batch(&vals).map_err(es)?;
            let mut w = by.clone();
            w.extend_from_slice(tail);
            let g: Vec<T> = s.deserialize_batch(&w).map_err(|e| format!("config {}: deserialize_batch({}): {}", n, cnt, e))?;
            if g != vals { return Err(format!("config {}: deserialize_batch({}) = {:?}", n, cnt, g)); }
        }
    }
    Ok(())
}

pub fn stype_rt<T: SerializableType + PartialEq + Debug + Uni>(v: &T, tail: &[u8]) -> R<()> {
    let mut o = VecDataOutput::new();
    v.serialize(&mut o).map_err(es)?;
    let b = o.into_vec();
    check_dec("SerializableType", &b, tail, v, &|i| T::deserialize(i), &|i| T::deserialize(i))?;
    uni::stash(uni::ty_of::<T>(), uni::val_of(v), &b, tail);
    Ok(())
}

fn geti(ints: &[u64], i: usize) -> u64 { ints.get(i).copied().unwrap_or(0) }
fn gets(ss: &[String], i: usize) -> String { ss.get(i).cloned().unwrap_or_default() }

/// A struct serialised through the library's `impl_complex_serialize!` macro.
mod macro_struct {
    use zipora::error::Result;
    use zipora::io::complex_types::ComplexSerialize;
    use zipora::io::smart_ptr::SerializableType;
    use zipora::io::{DataInput, DataOutput};
    #[derive(Debug, PartialEq, Clone)]
    pub struct MRec { pub a: u32, pub b: String, pub c: Vec<u16>, pub d: Option<i64> }
    zipora::impl_complex_serialize!(MRec { a: u32, b: String, c: Vec<u16>, d: Option<i64> });
    // the macro writes the fields in order: the same bytes as the tuple of the fields
    impl super::Uni for MRec {
        fn ty(out: &mut Vec<i128>) { <(u32, String, Vec<u16>, Option<i64>) as super::Uni>::ty(out); }
        fn val(&self, out: &mut Vec<i128>) { self.a.val(out); self.b.val(out); self.c.val(out); self.d.val(out); }
    }
}
pub const N_COMPLEX: usize = 30;
pub fn complex(cx: &mut Ctx, kind: usize, ints: &[u64], ss: &[String], tail: &[u8]) {
    let kind = kind % N_COMPLEX;
    let names = ["tuple4", "option_u64", "vec_u32", "vec_string", "hashmap_u32_string", "btreemap_string_u64", "hashset_u16", "btreeset_i64",
        "result_u32_string", "array3_u16", "option_vec_option_string", "tuple_string_i32_bool", "vec_vec_u8", "tuple12", "unit", "tuple1_string",
        "option_string", "hashmap_string_vec_u64", "option_option_u8", "array0_u32", "result_err_vec", "btreemap_u8_option_i16",
        "macro_struct", "array2_string", "array32_u8", "tuple_signed", "vec_bool_vec_i8", "hashset_string", "nested_pointers", "array1_option_bool"];
    let cell = format!("complex/{}", names[kind]);
    let cj = json!({"cell": "complex", "kind": kind, "ints": ds(ints), "strs": ss, "tail": tail});
    if !cx.gate(&cj) { return; }
    cx.sum.eval(&cell, &cj.to_string(), ints.len() + ss.len() >= 2);
    uni::stash_clear();
    let i = |k: usize| geti(ints, k);
    let s = |k: usize| gets(ss, k);
    let r = guarded(|| -> R<()> {
        match kind {
            0 => complex_rt(&|| (i(0) as u8, i(1) as u16, i(2) as u32, i(3)), tail),
            1 => { let v = if ints.is_empty() { None } else { Some(i(0)) }; stype_rt(&v, tail)?; complex_rt(&|| v, tail) }
            2 => { let v: Vec<u32> = ints.iter().map(|&x| x as u32).collect(); stype_rt(&v, tail)?; complex_rt(&|| (v.clone(),), tail) }
            3 => { let v: Vec<String> = ss.to_vec(); stype_rt(&v, tail)?; complex_rt(&|| (v.clone(), i(0) as u8), tail) }
            4 => { let v: HashMap<u32, String> = ints.iter().enumerate().map(|(k, &x)| (x as u32, s(k))).collect(); stype_rt(&v, tail)?; complex_rt(&|| v.clone(), tail) }
            5 => { let v: BTreeMap<String, u64> = ss.iter().enumerate().map(|(k, x)| (x.clone(), i(k))).collect(); stype_rt(&v, tail)?; complex_rt(&|| v.clone(), tail) }
            6 => { let v: HashSet<u16> = ints.iter().map(|&x| x as u16).collect(); stype_rt(&v, tail)?; complex_rt(&|| v.clone(), tail) }
            7 => { let v: BTreeSet<i64> = ints.iter().map(|&x| x as i64).collect(); stype_rt(&v, tail)?; complex_rt(&|| v.clone(), tail) }
            8 => complex_rt(&|| -> Result<u32, String> { if i(0) % 2 == 0 { Ok(i(1) as u32) } else { Err(s(0)) } }, tail),
            9 => complex_rt(&|| [i(0) as u16, i(1) as u16, i(2) as u16], tail),
            10 => {
                let v: Option<Vec<Option<String>>> = if ss.is_empty() && ints.is_empty() { None } else { Some(ss.iter().enumerate().map(|(k, x)| if i(k) % 3 == 0 { None } else { Some(x.clone()) }).collect()) };
                stype_rt(&v, tail)?; complex_rt(&|| v.clone(), tail)
            }
            11 => complex_rt(&|| (s(0), i(0) as i32, i(1) % 2 == 1), tail),
            12 => { let v: Vec<Vec<u8>> = ss.iter().map(|x| x.as_bytes().to_vec()).collect(); stype_rt(&v, tail)?; complex_rt(&|| (v.clone(), v.clone()), tail) }
            13 => complex_rt(&|| (i(0) as u8, i(1) as i8, i(2) as u16, i(3) as i16, i(4) as u32, i(5) as i32, i(6), i(7) as i64, s(0), i(8) % 2 == 0, Some(i(9) as u8), vec![i(10) as u16; (i(11) % 4) as usize]), tail),
            14 => complex_rt(&|| (), tail),
            15 => complex_rt(&|| (s(0),), tail),
            16 => { let v = if ss.is_empty() { None } else { Some(s(0)) }; stype_rt(&v, tail)?; complex_rt(&|| v.clone(), tail) }
            17 => { let v: HashMap<String, Vec<u64>> = ss.iter().enumerate().map(|(k, x)| (x.clone(), ints.iter().skip(k).cloned().collect())).collect(); stype_rt(&v, tail)?; complex_rt(&|| v.clone(), tail) }
            18 => { let v: Option<Option<u8>> = match ints.len() { 0 => None, 1 => Some(None), _ => Some(Some(i(1) as u8)) }; stype_rt(&v, tail)?; complex_rt(&|| v, tail) }
            19 => complex_rt(&|| -> [u32; 0] { [] }, tail),
            20 => complex_rt(&|| -> Result<String, Vec<u32>> { if ss.is_empty() { Err(ints.iter().map(|&x| x as u32).collect()) } else { Ok(s(0)) } }, tail),
            21 => { let v: BTreeMap<u8, Option<i16>> = ints.iter().map(|&x| (x as u8, if x % 5 == 0 { None } else { Some((x >> 8) as i16) })).collect(); stype_rt(&v, tail)?; complex_rt(&|| v.clone(), tail) }
            22 => complex_rt(&|| macro_struct::MRec { a: i(0) as u32, b: s(0), c: ints.iter().map(|&x| x as u16).collect(), d: if ints.len() % 2 == 0 { None } else { Some(i(1) as i64) } }, tail),
            23 => complex_rt(&|| [s(0), s(1)], tail),
            24 => complex_rt(&|| { let mut a = [0u8; 32]; for (k, x) in a.iter_mut().enumerate() { *x = (i(k % ints.len().max(1)) >> (k % 8)) as u8; } a }, tail),
            25 => complex_rt(&|| (i(0) as i8, i(1) as i16, i(2) as i32, i(3) as i64, i64::MIN, i8::MIN, -1i16, i32::MIN), tail),
            26 => complex_rt(&|| (ints.iter().map(|&x| x % 2 == 1).collect::<Vec<bool>>(), ints.iter().map(|&x| x as i8).collect::<Vec<i8>>()), tail),
            27 => { let v: HashSet<String> = ss.iter().cloned().collect(); stype_rt(&v, tail)?; complex_rt(&|| v.clone(), tail) }
            28 => complex_rt(&|| (Box::new(Box::new(i(0))), Rc::new(ss.iter().map(|x| Rc::new(x.clone())).collect::<Vec<Rc<String>>>()), Arc::new(if ints.is_empty() { None } else { Some(Box::new(i(0) as u32)) })), tail),
            _ => complex_rt(&|| [if ints.is_empty() { None } else { Some(i(0) % 2 == 1) }], tail),
        }
    });
    match r {
        Err(p) => cx.sum.fail(&cell, None, cj, &format!("panicked: {}", p)),
        Ok(Err(why)) => cx.sum.fail(&cell, None, cj, &why),
        Ok(Ok(())) => {
            // model tie for the modelled shapes: option<u64> (marker + LE), vec<u32> (u32 count + LE elements), vec<string>
            let mut o = VecDataOutput::new();
            match kind {
                1 => { let v = if ints.is_empty() { None } else { Some(i(0)) }; let _ = SerializableType::serialize(&v, &mut o); cx.coq_bytes_case(20, &ints.iter().take(1).map(|&x| x as i128).collect::<Vec<_>>(), o.as_slice()); }
                2 => { let v: Vec<u32> = ints.iter().map(|&x| x as u32).collect(); let _ = v.serialize(&mut o); cx.coq_bytes_case(21, &v.iter().map(|&x| x as i128).collect::<Vec<_>>(), o.as_slice()); }
                _ => {}
            }
            // every shape through the type-universe model: encoder bytes, decoded value, bytes consumed (plain and with metadata)
            cx.coq_uni(&cell, 3, false);
        }
    }
}

// ------------------------------------------------------------------------------------------
// smart pointers
// ------------------------------------------------------------------------------------------
fn sp_rt<T, P>(p: &P, tail: &[u8], same: &dyn Fn(&P, &P) -> bool, what: &str) -> R<()>
where T: SerializableType, P: SmartPtrSerialize<T> {
    // trait default pair
    let mut o = VecDataOutput::new();
    SmartPtrSerialize::serialize(p, &mut o).map_err(es)?;
    let b = o.into_vec();
    let mut all = b.clone();
    all.extend_from_slice(tail);
    let mut i = SliceDataInput::new(&all);
    let g = <P as SmartPtrSerialize<T>>::deserialize(&mut i).map_err(|e| format!("{}: deserialize failed: {}", what, e))?;
    if i.pos() != b.len() { return Err(format!("{}: consumed {} bytes, the encoder produced {}", what, i.pos(), b.len())); }
    if !same(&g, p) { return Err(format!("{}: decoded value differs", what)); }
    // high-level serializer, every configuration
    let mut cfgs = vec![SmartPtrConfig::new(), SmartPtrConfig::performance_optimized(), SmartPtrConfig::space_optimized(), SmartPtrConfig::robust(), SmartPtrConfig::default()];
    for b in 0..4u8 { cfgs.push(SmartPtrConfig { cycle_detection: b & 1 != 0, max_depth: [0usize, 1, usize::MAX][(b as usize + tail.len()) % 3], compress_ids: b & 2 != 0 }); }
    for (n, cfg) in cfgs.into_iter().enumerate() {
        let s = if n == 4 { SmartPtrSerializer::default() } else { SmartPtrSerializer::new(cfg) };
        let by = s.serialize_to_bytes::<T, P>(p).map_err(es)?;
        let mut w = by.clone();
        w.extend_from_slice(tail);
        let g: P = s.deserialize_from_bytes::<T, P>(&w).map_err(|e| format!("{} config {}: deserialize_from_bytes: {}", what, n, e))?;
        if !same(&g, p) { return Err(format!("{} config {}: decoded value differs", what, n)); }
    }
    Ok(())
}

pub fn smart_ptr(cx: &mut Ctx, kind: usize, ints: &[u64], ss: &[String], tail: &[u8]) {
    let names = ["box", "option_box", "rc", "arc", "weak_rc", "weak_arc", "shared_rc_context", "shared_arc_context", "bridges", "context_reuse", "context_after_free", "nested"];
    let kind = kind % names.len();
    let cell = format!("smart_ptr/{}", names[kind]);
    let cj = json!({"cell": "smart_ptr", "kind": kind, "ints": ds(ints), "strs": ss, "tail": tail});
    if !cx.gate(&cj) { return; }
    cx.sum.eval(&cell, &cj.to_string(), true);
    uni::stash_clear();
    let i = |k: usize| geti(ints, k);
    let s = |k: usize| gets(ss, k);
    let mut class: Option<&'static str> = None;
    let r = guarded(|| -> R<()> {
        match kind {
            0 => {
                sp_rt::<u64, Box<u64>>(&Box::new(i(0)), tail, &|a, b| a == b, "Box<u64>")?;
                sp_rt::<String, Box<String>>(&Box::new(s(0)), tail, &|a, b| a == b, "Box<String>")?;
                sp_rt::<Vec<u32>, Box<Vec<u32>>>(&Box::new(ints.iter().map(|&x| x as u32).collect()), tail, &|a, b| a == b, "Box<Vec<u32>>")
            }
            1 => {
                let v: Option<Box<String>> = if ss.is_empty() { None } else { Some(Box::new(s(0))) };
                sp_rt::<String, Option<Box<String>>>(&v, tail, &|a, b| a == b, "Option<Box<String>>")?;
                let v: Option<Box<u16>> = if ints.is_empty() { None } else { Some(Box::new(i(0) as u16)) };
                sp_rt::<u16, Option<Box<u16>>>(&v, tail, &|a, b| a == b, "Option<Box<u16>>")
            }
            2 => { sp_rt::<String, Rc<String>>(&Rc::new(s(0)), tail, &|a, b| a == b, "Rc<String>")?; sp_rt::<i64, Rc<i64>>(&Rc::new(i(0) as i64), tail, &|a, b| a == b, "Rc<i64>") }
            3 => { sp_rt::<String, Arc<String>>(&Arc::new(s(0)), tail, &|a, b| a == b, "Arc<String>")?; sp_rt::<u32, Arc<u32>>(&Arc::new(i(0) as u32), tail, &|a, b| a == b, "Arc<u32>") }
            4 | 5 => {
                // a dangling weak pointer must decode to a dangling weak pointer and consume only its own byte
                if kind == 4 {
                    let w = { let t = Rc::new(s(0)); Rc::downgrade(&t) };
                    sp_rt::<String, std::rc::Weak<String>>(&w, tail, &|a, b| a.upgrade() == b.upgrade(), "dangling Weak<Rc<String>>")?;
                } else {
                    let w = { let t = Arc::new(i(0)); Arc::downgrade(&t) };
                    sp_rt::<u64, std::sync::Weak<u64>>(&w, tail, &|a, b| a.upgrade() == b.upgrade(), "dangling Weak<Arc<u64>>")?;
                }
                // a live weak pointer: bytes consumed are checked; the target cannot survive decoding (recorded finding)
                if kind == 4 {
                    let t = Rc::new(s(0));
                    let w = Rc::downgrade(&t);
                    sp_rt::<String, std::rc::Weak<String>>(&w, tail, &|_, _| true, "live Weak<Rc<String>>")?;
                    let lost = sp_rt::<String, std::rc::Weak<String>>(&w, tail, &|a, b| a.upgrade() == b.upgrade(), "live Weak<Rc<String>>");
                    if lost.is_err() { class = Some("weak_ptr_target_dropped"); return lost; }
                } else {
                    let t = Arc::new(i(0));
                    let w = Arc::downgrade(&t);
                    sp_rt::<u64, std::sync::Weak<u64>>(&w, tail, &|_, _| true, "live Weak<Arc<u64>>")?;
                    let lost = sp_rt::<u64, std::sync::Weak<u64>>(&w, tail, &|a, b| a.upgrade() == b.upgrade(), "live Weak<Arc<u64>>");
                    if lost.is_err() { class = Some("weak_ptr_target_dropped"); return lost; }
                }
                Ok(())
            }
            6 | 7 => {
                // several pointers, some shared, through one serialisation context and one deserialisation context
                let pool_n = 1 + ss.len().min(4);
                for detect in [true, false] {
                    let mut ctx = if detect { SerializationContext::new() } else { SerializationContext::without_cycle_detection() };
                    let mut o = VecDataOutput::new();
                    let mut lens = vec![];
                    if kind == 6 {
                        let pool: Vec<Rc<String>> = (0..pool_n).map(|k| Rc::new(s(k))).collect();
                        let seq: Vec<Rc<String>> = ints.iter().map(|&x| pool[(x as usize) % pool_n].clone()).collect();
                        for p in &seq { p.serialize_with_context(&mut o, &mut ctx).map_err(es)?; lens.push(o.len()); }
                        let total = o.len();
                        let mut all = o.into_vec();
                        all.extend_from_slice(tail);
                        let mut inp = SliceDataInput::new(&all);
                        let mut dctx = DeserializationContext::new();
                        for (k, p) in seq.iter().enumerate() {
                            let g = Rc::<String>::deserialize_with_context(&mut inp, &mut dctx).map_err(|e| format!("pointer {} (detect={}): {}", k, detect, e))?;
                            if &g != p { return Err(format!("pointer {} decoded as {:?}, want {:?}", k, g, p)); }
                            if inp.pos() != lens[k] { return Err(format!("pointer {} ends at {}, its encoding ended at {}", k, inp.pos(), lens[k])); }
                        }
                        if inp.pos() != total { return Err("context stream length".into()); }
                    } else {
                        let pool: Vec<Arc<u64>> = (0..pool_n).map(|k| Arc::new(i(k))).collect();
                        let seq: Vec<Arc<u64>> = ints.iter().map(|&x| pool[(x as usize) % pool_n].clone()).collect();
                        for p in &seq { p.serialize_with_context(&mut o, &mut ctx).map_err(es)?; lens.push(o.len()); }
                        let mut all = o.into_vec();
                        all.extend_from_slice(tail);
                        let mut inp = SliceDataInput::new(&all);
                        let mut dctx = DeserializationContext::new();
                        for (k, p) in seq.iter().enumerate() {
                            let g = Arc::<u64>::deserialize_with_context(&mut inp, &mut dctx).map_err(|e| format!("pointer {} (detect={}): {}", k, detect, e))?;
                            if &g != p { return Err(format!("pointer {} decoded as {:?}, want {:?}", k, g, p)); }
                            if inp.pos() != lens[k] { return Err(format!("pointer {} ends at {}, its encoding ended at {}", k, inp.pos(), lens[k])); }
                        }
                    }
                }
                Ok(())
            }
            9 => {
                // one serialisation context for two messages with clear() in between; the decoder's context cleared (or a new one) likewise.
                // After clear() every pointer is written in full again, so the second message stands on its own.
                let pool_n = 1 + ss.len().min(4);
                let pool: Vec<Rc<String>> = (0..pool_n).map(|k| Rc::new(s(k))).collect();
                let seq: Vec<Rc<String>> = ints.iter().map(|&x| pool[(x as usize) % pool_n].clone()).collect();
                let cut = seq.len() / 2;
                for detect in [true, false] {
                    let mut ctx = match (detect, ints.len() % 2) { (true, 0) => SerializationContext::new(), (true, _) => SerializationContext::default(), _ => SerializationContext::without_cycle_detection() };
                    let mut o = VecDataOutput::new();
                    let mut ends = vec![];
                    for p in &seq[..cut] { p.serialize_with_context(&mut o, &mut ctx).map_err(es)?; ends.push(o.len()); }
                    let first_len = o.len();
                    ctx.clear();
                    for p in &seq[cut..] { p.serialize_with_context(&mut o, &mut ctx).map_err(es)?; ends.push(o.len()); }
                    let mut all = o.into_vec();
                    // the second message alone must decode with a fresh context
                    let second = all[first_len..].to_vec();
                    all.extend_from_slice(tail);
                    let mut inp = SliceDataInput::new(&all);
                    let mut dctx: DeserializationContext<Rc<String>> = if ints.len() % 2 == 0 { DeserializationContext::new() } else { DeserializationContext::default() };
                    for (k, p) in seq.iter().enumerate() {
                        if k == cut { dctx.clear(); if dctx.get_object(1).is_some() { return Err("DeserializationContext::clear() kept an object".into()); } }
                        let g = Rc::<String>::deserialize_with_context(&mut inp, &mut dctx).map_err(|e| format!("pointer {} (detect={}): {}", k, detect, e))?;
                        if &g != p { return Err(format!("pointer {} decoded as {:?}, want {:?}", k, g, p)); }
                        if inp.pos() != ends[k] { return Err(format!("pointer {} ends at {}, its encoding ended at {}", k, inp.pos(), ends[k])); }
                    }
                    // whatever the decoder's context hands out is one of the pointers it decoded since clear() (which ids it uses is its business)
                    let decoded_second: Vec<Rc<String>> = seq[cut..].to_vec();
                    for id in 0..(seq.len() as u32 + 3) {
                        if let Some(g) = dctx.get_object(id) { if !decoded_second.iter().any(|p| p == g) { return Err(format!("get_object({}) = {:?}, which was not decoded since clear()", id, g)); } }
                    }
                    dctx.store_object(4_000_000_000, Rc::new("stored by hand".to_string()));
                    if dctx.get_object(4_000_000_000).map(|x| x.as_str()) != Some("stored by hand") { return Err("store_object / get_object".into()); }
                    let mut inp = SliceDataInput::new(&second);
                    let mut d2 = DeserializationContext::new();
                    d2.store_object(999, Rc::new("unrelated".to_string()));
                    for (k, p) in seq[cut..].iter().enumerate() {
                        let g = Rc::<String>::deserialize_with_context(&mut inp, &mut d2).map_err(|e| format!("second message, pointer {} (detect={}): {}", k, detect, e))?;
                        if &g != p { return Err(format!("second message: pointer {} decoded as {:?}, want {:?}", k, g, p)); }
                    }
                    if inp.pos() != second.len() { return Err("second message length".into()); }
                }
                Ok(())
            }
            10 => {
                // pointers that are created, written through one context and dropped, one after the other (a loop over temporaries).
                // Without cycle detection nothing is remembered, so this must work; with it the context remembers addresses only.
                let vals: Vec<String> = (0..ints.len().max(2)).map(|k| format!("{}#{}", s(k), i(k))).collect();
                for detect in [false, true] {
                    let mut ctx = if detect { SerializationContext::new() } else { SerializationContext::without_cycle_detection() };
                    let mut o = VecDataOutput::new();
                    for v in &vals { let p = Rc::new(v.clone()); p.serialize_with_context(&mut o, &mut ctx).map_err(es)?; drop(p); }
                    let total = o.len();
                    let mut all = o.into_vec();
                    all.extend_from_slice(tail);
                    let mut inp = SliceDataInput::new(&all);
                    let mut dctx = DeserializationContext::new();
                    let mut res = Ok(());
                    for (k, v) in vals.iter().enumerate() {
                        match Rc::<String>::deserialize_with_context(&mut inp, &mut dctx) {
                            Ok(g) if &*g == v => {}
                            Ok(g) => { res = Err(format!("temporary {} (cycle detection {}): decoded as {:?}, want {:?} - the context took the new pointer for an earlier one at the same address", k, detect, g, v)); break; }
                            Err(e) => { res = Err(format!("temporary {} (cycle detection {}): {}", k, detect, e)); break; }
                        }
                    }
                    if res.is_ok() && inp.pos() != total { res = Err(format!("consumed {} of {} bytes", inp.pos(), total)); }
                    if res.is_err() { if detect { class = Some("smart_ptr_context_address_reuse"); } return res; }
                }
                Ok(())
            }
            11 => {
                sp_rt::<Box<u64>, Box<Box<u64>>>(&Box::new(Box::new(i(0))), tail, &|a, b| a == b, "Box<Box<u64>>")?;
                sp_rt::<Vec<Rc<String>>, Rc<Vec<Rc<String>>>>(&Rc::new(ss.iter().map(|x| Rc::new(x.clone())).collect()), tail, &|a, b| a == b, "Rc<Vec<Rc<String>>>")?;
                sp_rt::<Option<Box<u32>>, Arc<Option<Box<u32>>>>(&Arc::new(if ints.is_empty() { None } else { Some(Box::new(i(0) as u32)) }), tail, &|a, b| a == b, "Arc<Option<Box<u32>>>")?;
                let v: Option<Box<Vec<String>>> = if ss.is_empty() { None } else { Some(Box::new(ss.to_vec())) };
                sp_rt::<Vec<String>, Option<Box<Vec<String>>>>(&v, tail, &|a, b| a == b, "Option<Box<Vec<String>>>")?;
                sp_rt::<bool, Rc<bool>>(&Rc::new(i(0) % 2 == 1), tail, &|a, b| a == b, "Rc<bool>")?;
                sp_rt::<i8, Arc<i8>>(&Arc::new(i(0) as i8), tail, &|a, b| a == b, "Arc<i8>")
            }
            _ => {
                // pointers as elements of collections / options (SerializableType bridges)
                let v: Vec<Rc<String>> = ss.iter().map(|x| Rc::new(x.clone())).collect();
                stype_rt(&v, tail)?;
                let v: Vec<Arc<u64>> = ints.iter().map(|&x| Arc::new(x)).collect();
                stype_rt(&v, tail)?;
                let v: Option<Box<u64>> = if ints.is_empty() { None } else { Some(Box::new(i(0))) };
                stype_rt(&v, tail)?;
                let v: Box<Vec<Option<Rc<u16>>>> = Box::new(ints.iter().map(|&x| if x % 2 == 0 { None } else { Some(Rc::new(x as u16)) }).collect());
                stype_rt(&v, tail)?;
                let v: HashMap<u32, Box<String>> = ints.iter().enumerate().map(|(k, &x)| (x as u32, Box::new(s(k)))).collect();
                stype_rt(&v, tail)
            }
        }
    });
    match r {
        Err(p) => cx.sum.fail(&cell, None, cj, &format!("panicked: {}", p)),
        Ok(Err(why)) => cx.sum.fail(&cell, class, cj, &why),
        // pointers as elements (the context-free bridges) are part of the type-universe model
        Ok(Ok(())) => if kind == 8 { cx.coq_uni(&cell, 3, false) },
    }
}

// ------------------------------------------------------------------------------------------
// versioned fields
// ------------------------------------------------------------------------------------------
pub fn ver(x: u64) -> Version { Version::new((x >> 32) as u16, (x >> 16) as u16, x as u16) }
pub fn ver_u64(ma: u16, mi: u16, pa: u16) -> u64 { ((ma as u64) << 32) | ((mi as u64) << 16) | pa as u64 }

/// A record with two versioned fields; the schema version is a type parameter.
#[derive(Debug, PartialEq, Clone)]
struct Rec<const V: u32> { id: u32, name: Option<String>, score: Option<u64> }
const SINCE_NAME: Version = Version::new(1, 1, 0);
const SINCE_SCORE: Version = Version::new(1, 2, 5);
impl<const V: u32> VersionedSerialize for Rec<V> {
    fn current_version() -> Version { Version::from_u32(V) }
    fn serialize_with_manager<O: DataOutput>(&self, m: &mut VersionManager, o: &mut O) -> zipora::Result<()> {
        m.register_field("name", SINCE_NAME);
        m.register_field("score", SINCE_SCORE);
        o.write_u32(self.id)?;
        m.serialize_field("name", &self.name.clone().unwrap_or_default(), o)?;
        m.serialize_field("score", &self.score.unwrap_or(0), o)
    }
    fn deserialize_with_manager<I: DataInput>(m: &mut VersionManager, i: &mut I) -> zipora::Result<Self> {
        m.register_field("name", SINCE_NAME);
        m.register_field("score", SINCE_SCORE);
        let id = i.read_u32()?;
        let name = m.deserialize_field::<String, I>("name", i)?;
        let score = m.deserialize_field::<u64, I>("score", i)?;
        Ok(Rec { id, name, score })
    }
}

fn rec_rt<const V: u32>(id: u32, name: &str, score: u64, tail: &[u8]) -> R<()> {
    let cur = Version::from_u32(V);
    let v = Rec::<V> { id, name: Some(name.to_string()), score: Some(score) };
    // what must come back: a field is present iff the schema version is at least the field's `since`
    let want = Rec::<V> { id, name: if cur >= SINCE_NAME { Some(name.to_string()) } else { None }, score: if cur >= SINCE_SCORE { Some(score) } else { None } };
    let mut o = VecDataOutput::new();
    v.serialize_versioned(&mut o).map_err(es)?;
    let b = o.into_vec();
    check_dec("serialize_versioned/deserialize_versioned", &b, tail, &want, &|i| Rec::<V>::deserialize_versioned(i), &|i| Rec::<V>::deserialize_versioned(i))?;
    // model tie (versioned-record model): the writer's bytes; the record read back and the bytes consumed, as just checked
    uni::rstash_enc(cur, id, name, score, &b);
    { let mut all = b.clone(); all.extend_from_slice(tail); uni::rstash_dec(cur, &all, &(want.id, want.name.clone(), want.score), b.len()); }
    for (n, cfg) in [VersionConfig::new(), VersionConfig::strict(), VersionConfig::flexible(), VersionConfig::development()].into_iter().enumerate() {
        let s = VersionedSerializer::new(cfg);
        let by = s.serialize_to_bytes(&v).map_err(es)?;
        let mut w = by.clone();
        w.extend_from_slice(tail);
        let g: Rec<V> = s.deserialize_from_bytes(&w).map_err(|e| format!("config {}: deserialize_from_bytes: {}", n, e))?;
        if g != want { return Err(format!("config {}: deserialize_from_bytes = {:?}, want {:?}", n, g, want)); }
        // the two entry points describe the same format
        let mut i = SliceDataInput::new(&w);
        let g2 = Rec::<V>::deserialize_versioned(&mut i).map_err(|e| format!("config {}: deserialize_versioned(serialize_to_bytes): {}", n, e))?;
        if g2 != want || i.pos() != by.len() { return Err(format!("config {}: deserialize_versioned(serialize_to_bytes) = {:?}, consumed {} of {}", n, g2, i.pos(), by.len())); }
    }
    Ok(())
}

pub fn versioning(cx: &mut Ctx, kind: usize, ints: &[u64], ss: &[String], tail: &[u8]) {
    let names = ["version", "field", "proxy", "record"];
    let kind = kind % names.len();
    let cell = format!("versioning/{}", names[kind]);
    let cj = json!({"cell": "versioning", "kind": kind, "ints": ds(ints), "strs": ss, "tail": tail});
    if !cx.gate(&cj) { return; }
    cx.sum.eval(&cell, &cj.to_string(), true);
    let i = |k: usize| geti(ints, k);
    let s = |k: usize| gets(ss, k);
    let mut class: Option<&'static str> = None;
    let mut model: Option<(Vec<i128>, Vec<u8>, Vec<i128>)> = None;
    uni::rstash_clear();
    uni::stash_clear();
    let r = guarded(|| -> R<()> {
        match kind {
            0 => {
                let v = ver(i(0));
                if v.major() > 255 || v.minor() > 255 { class = Some("version_component_over_255"); }
                let (a, b) = (ver(i(1)), ver(i(2)));
                let key = |x: &Version| (x.major(), x.minor(), x.patch());
                if (a >= b) != (key(&a) >= key(&b)) || a.supports_feature(&b) != (key(&a) >= key(&b)) || a.is_compatible_with(&b) != (a.major() == b.major() && key(&a) >= key(&b)) || (a == b) != (key(&a) == key(&b)) {
                    return Err(format!("order / supports_feature / is_compatible_with of {} and {}", a, b));
                }
                if Version::from_u32(v.to_u32()) != v { return Err(format!("from_u32(to_u32({})) = {}", v, Version::from_u32(v.to_u32()))); }
                stype_rt(&v, tail)
            }
            1 => {
                // writer at version w, field introduced in `since`; reader told the stream's version
                let (w, since, rd_cur) = (ver(i(0)), ver(i(1)), ver(i(2)));
                let val = i(3);
                let txt = s(0);
                let mut wm = VersionManager::new(w);
                wm.register_field("f", since);
                wm.register_field("g", since);
                // the predicates are the decisions the (de)serialisers take
                if wm.current_version() != w || wm.reading_version() != w { return Err("current_version() / reading_version() of a new manager".into()); }
                if wm.should_serialize_field("f") != (w >= since) || !wm.should_serialize_field("unregistered") || w.supports_feature(&since) != (w >= since) {
                    return Err(format!("writer {} since {}: should_serialize_field = {}, supports_feature = {}", w, since, wm.should_serialize_field("f"), w.supports_feature(&since)));
                }
                let mut o = VecDataOutput::new();
                wm.serialize_field("f", &val, &mut o).map_err(es)?;
                let l1 = o.len();
                wm.serialize_field("g", &txt, &mut o).map_err(es)?;
                wm.serialize_field("unregistered", &(val as u16), &mut o).map_err(es)?;
                let total = o.len();
                let mut all = o.into_vec();
                let present = w >= since;
                if (all[0] == 1) != present { return Err(format!("writer {} since {}: presence marker {}", w, since, all[0])); }
                all.extend_from_slice(tail);
                let mut rm = VersionManager::new(rd_cur);
                rm.register_field("f", since);
                rm.register_field("g", since);
                if rm.reading_version() != rd_cur { return Err("reading_version() before set_reading_version".into()); }
                rm.set_reading_version(w);
                if rm.reading_version() != w || rm.current_version() != rd_cur || rm.should_deserialize_field("f") != (w >= since) || !rm.should_deserialize_field("unregistered") {
                    return Err(format!("reader told version {}: reading_version() = {}, should_deserialize_field = {}", w, rm.reading_version(), rm.should_deserialize_field("f")));
                }
                let mut inp = SliceDataInput::new(&all);
                let g1: Option<u64> = rm.deserialize_field("f", &mut inp).map_err(es)?;
                if inp.pos() != l1 { return Err(format!("field f consumed {} bytes, its encoding has {}", inp.pos(), l1)); }
                let g2: Option<String> = rm.deserialize_field("g", &mut inp).map_err(es)?;
                let g3: Option<u16> = rm.deserialize_field("unregistered", &mut inp).map_err(es)?;
                if inp.pos() != total { return Err(format!("fields consumed {} bytes, encodings have {}", inp.pos(), total)); }
                let (w1, w2) = if present { (Some(val), Some(txt.clone())) } else { (None, None) };
                if g1 != w1 || g2 != w2 || g3 != Some(val as u16) { return Err(format!("writer {} since {}: fields read back as {:?} {:?} {:?}", w, since, g1, g2, g3)); }
                model = Some((vec![present as i128, val as i128], all[..l1].to_vec(), vec![]));
                // a reader that does not know the field yet (its view of the stream version is older) skips it exactly
                let mut old = VersionManager::new(rd_cur);
                old.register_field("f", Version::new(u16::MAX, 0, 0));
                old.set_reading_version(w);
                let mut inp = SliceDataInput::new(&all);
                let g: Option<u64> = old.deserialize_field("f", &mut inp).map_err(es)?;
                if g.is_some() || inp.pos() != l1 { return Err(format!("unknown field: got {:?}, consumed {} of {}", g, inp.pos(), l1)); }
                Ok(())
            }
            2 => {
                let (w, lo, hi) = (ver(i(0)), ver(i(1)), ver(i(2)));
                let ranged = i(3) % 2 == 1;
                let val = s(0);
                // built with the old value and changed through data_mut() (or the since_version! macro): what is written is the current value
                let mut proxy = if ranged { VersionProxy::with_range(format!("old {}", val), lo, hi) } else if i(3) % 4 == 0 { zipora::since_version!(lo, format!("old {}", val)) } else { VersionProxy::new(format!("old {}", val), lo) };
                *proxy.data_mut() = val.clone();
                if proxy.data() != &val { return Err("data_mut() did not change data()".into()); }
                let present = w >= lo && (!ranged || w <= hi);
                if proxy.should_serialize(&w) != present { return Err(format!("should_serialize({}) = {} for [{}, {:?}]", w, !present, lo, if ranged { Some(hi) } else { None })); }
                let m = VersionManager::new(w);
                let mut o = VecDataOutput::new();
                m.serialize_proxy(&proxy, &mut o).map_err(es)?;
                m.serialize_proxy(&proxy, &mut o).map_err(es)?;
                let total = o.len();
                let mut all = o.into_vec();
                all.extend_from_slice(tail);
                let mut inp = SliceDataInput::new(&all);
                for _ in 0..2 {
                    let g: Option<VersionProxy<String>> = m.deserialize_proxy(lo, &mut inp).map_err(es)?;
                    let got = g.map(|p| p.into_data());
                    if got != if present { Some(val.clone()) } else { None } { return Err(format!("proxy read back as {:?}, present should be {}", got, present)); }
                }
                if inp.pos() != total { return Err(format!("proxies consumed {} of {} bytes", inp.pos(), total)); }
                // the transparent SerializableType impl
                let mut o = VecDataOutput::new();
                proxy.serialize(&mut o).map_err(es)?;
                let b = o.into_vec();
                let mut inp = SliceDataInput::new(&b);
                let g = VersionProxy::<String>::deserialize(&mut inp).map_err(es)?;
                if g.data() != &val || inp.pos() != b.len() { return Err("VersionProxy as SerializableType".into()); }
                Ok(())
            }
            _ => {
                let (id, name, score) = (i(0) as u32, s(0), i(1));
                rec_rt::<0x01000000>(id, &name, score, tail).map_err(|e| format!("schema 1.0.0: {}", e))?;
                rec_rt::<0x01010000>(id, &name, score, tail).map_err(|e| format!("schema 1.1.0: {}", e))?;
                rec_rt::<0x01020004>(id, &name, score, tail).map_err(|e| format!("schema 1.2.4: {}", e))?;
                rec_rt::<0x01020005>(id, &name, score, tail).map_err(|e| format!("schema 1.2.5: {}", e))?;
                rec_rt::<0x02000000>(id, &name, score, tail).map_err(|e| format!("schema 2.0.0: {}", e))
            }
        }
    });
    match r {
        Err(p) => cx.sum.fail(&cell, class, cj, &format!("panicked: {}", p)),
        Ok(Err(why)) => cx.sum.fail(&cell, class, cj, &why),
        Ok(Ok(())) => {
            if class.is_some() { cx.sum.dist("known_class_but_passed"); }
            if let Some((ints, bytes, _)) = model { cx.coq_bytes_case(22, &ints, &bytes); }
            if kind == 3 { cx.coq_rec(&cell, 6); }
        }
    }
}

pub fn parse_case(c: &Value) -> (usize, Vec<u64>, Vec<String>, Vec<u8>) {
    (c["kind"].as_u64().unwrap_or(0) as usize, u64s(&c["ints"]), strs(&c["strs"]), u8s(&c["tail"]))
}
