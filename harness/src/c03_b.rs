//! C03, oracle breadth - the bulk-build side: secondary entry points of the builders and of the read-only stores they
//! produce (add_records / reserve / validate / flush_batch / new / default, get_batch, iter_ids / iter_blobs, the
//! refused write calls, save_to_file / load_from_file, enable_offset_cache, SortedUintVec used directly, the
//! configuration builders, the `build_from_*` constructors of the trie store).  Everything is judged by the same dumb
//! shadow as the rest of C03: record i = input i, ids >= n absent, len = n.
use super::{check_built, hex, probe};
use crate::util::*;
use serde_json::Value;
use std::collections::HashMap;
use zipora::blob_store::{
    BatchBlobStore, BatchZipOffsetBlobStoreBuilder, BlobStore, IterableBlobStore, NestLoudsTrieBlobStore, NestLoudsTrieBlobStoreBuilder,
    SimpleZipConfig, SortedUintVec, SortedUintVecBuilder, SortedUintVecConfig, TrieBlobStoreConfig, ZipOffsetBlobStore,
    ZipOffsetBlobStoreBuilder, ZipOffsetBlobStoreConfig,
};
use zipora::succinct::rank_select::RankSelectInterleaved256;
use zipora::RecordId;

type Nt = NestLoudsTrieBlobStore<RankSelectInterleaved256>;

/// A read-only store: every write call is refused and leaves the content alone (or, if a write is accepted, it is a
/// real write: judged like any put).  `get_batch` and the iteration agree with the records.
pub fn readonly_api<S: BlobStore + BatchBlobStore + IterableBlobStore>(st: &mut S, want: &[Vec<u8>], what: &str) -> Option<String> {
    let n = want.len() as u32;
    // get_batch: live ids and absent ids in one call
    let ids: Vec<RecordId> = vec![0, n.saturating_sub(1), n, n / 2, u32::MAX, n.wrapping_add(7), 0];
    match guarded(|| st.get_batch(ids.clone())) {
        Err(p) => return Some(format!("{}: get_batch panicked: {}", what, p)),
        Ok(Err(e)) => return Some(format!("{}: get_batch failed: {}", what, e)),
        Ok(Ok(v)) => {
            if v.len() != ids.len() { return Some(format!("{}: get_batch of {} ids returned {} answers", what, ids.len(), v.len())); }
            for (id, g) in ids.iter().zip(v.iter()) {
                if g.as_ref() != want.get(*id as usize) { return Some(format!("{}: get_batch answers {:?} for id {} but the input holds {:?}", what, g.as_ref().map(|d| hex(d)), id, want.get(*id as usize).map(|d| hex(d)))); }
            }
        }
    }
    // iteration
    match guarded(|| st.iter_ids().collect::<Vec<RecordId>>()) {
        Err(p) => return Some(format!("{}: iter_ids panicked: {}", what, p)),
        Ok(mut v) => { v.sort(); if v != (0..n).collect::<Vec<_>>() { return Some(format!("{}: iter_ids lists {} ids that are not 0..{}", what, v.len(), n)); } }
    }
    match guarded(|| st.iter_blobs().collect::<Vec<_>>()) {
        Err(p) => return Some(format!("{}: iter_blobs panicked: {}", what, p)),
        Ok(v) => {
            if v.len() != want.len() { return Some(format!("{}: iter_blobs yields {} records of {}", what, v.len(), want.len())); }
            for x in v { match x { Ok((id, d)) => if want.get(id as usize) != Some(&d) { return Some(format!("{}: iter_blobs yields ({}, {}) which is not input {}", what, id, hex(&d), id)); }, Err(e) => return Some(format!("{}: iter_blobs yielded an error: {}", what, e)) } }
        }
    }
    refused_writes(st, want, what, true)
}

/// put / remove (and the batch forms) on a store that documents itself as read-only
pub fn refused_writes<S: BlobStore>(st: &mut S, want: &[Vec<u8>], what: &str, _batch: bool) -> Option<String> {
    match guarded(|| st.put(b"new record")) {
        Err(p) => return Some(format!("{}: put on the read-only store panicked: {}", what, p)),
        Ok(Ok(id)) => {
            // an accepted write is a write: the record must be there under a fresh id
            if (id as usize) < want.len() { return Some(format!("{}: put returned id {} which is the id of a live record", what, id)); }
            if st.get(id).ok().as_deref() != Some(&b"new record"[..]) { return Some(format!("{}: put was accepted (id {}) but the record does not read back", what, id)); }
            return None;
        }
        Ok(Err(_)) => {}
    }
    if !want.is_empty() {
        match guarded(|| st.remove(0)) {
            Err(p) => return Some(format!("{}: remove on the read-only store panicked: {}", what, p)),
            Ok(Ok(())) => { if st.contains(0) || st.get(0).is_ok() { return Some(format!("{}: remove(0) was accepted but record 0 is still served", what)); } return None; }
            Ok(Err(_)) => {}
        }
    }
    check_built(st, want, &format!("{} after the refused writes", what))
}

/// The builder driven through its secondary entry points.  `plan` seeds the choice; 0 = one add_record per record.
pub fn build_zipoffset(cfg: &ZipOffsetBlobStoreConfig, cfgname: &str, recs: &[Vec<u8>], plan: u64) -> Result<Result<ZipOffsetBlobStore, String>, String> {
    let mut pr = Rng::new(plan ^ 0xB1D);
    let mut b = match (cfgname, plan % 4) {
        ("default", 1) => ZipOffsetBlobStoreBuilder::new(),
        ("default", 2) => Ok(ZipOffsetBlobStoreBuilder::default()),
        _ => ZipOffsetBlobStoreBuilder::with_config(cfg.clone()),
    }.map_err(|e| format!("builder construction failed: {}", e))?;
    let mut i = 0usize;
    while i < recs.len() {
        let choice = if plan == 0 { 0 } else { pr.below(12) };
        match choice {
            0..=5 => {
                match b.add_record(&recs[i]) { Ok(id) => if id as usize != i { return Err(format!("add_record #{} returned id {}", i, id)); }, Err(e) => return Err(format!("add_record #{} ({} bytes) refused: {}", i, recs[i].len(), e)) }
                i += 1;
            }
            6 | 7 => {
                let k = (pr.below(6) as usize).min(recs.len() - i);
                match b.add_records(recs[i..i + k].iter()) {
                    Ok(ids) => if ids != (i as u32..(i + k) as u32).collect::<Vec<_>>() { return Err(format!("add_records of records {}..{} returned ids {:?}", i, i + k, ids)); },
                    Err(e) => return Err(format!("add_records refused: {}", e)),
                }
                i += k;
            }
            8 => { let _ = b.reserve(pr.below(300) as usize); }
            9 => { let _ = b.validate(); let _ = b.estimated_size(); let _ = b.stats().compression_ratio(); let _ = b.stats().space_saved_percent(); let _ = b.config().compress_level; }
            _ => {
                // the builder's own count is what the batch builder derives ids from
                if b.len() != i || b.is_empty() != (i == 0) || b.stats().record_count != i { return Err(format!("builder reports len {} / is_empty {} / record_count {} after {} records", b.len(), b.is_empty(), b.stats().record_count, i)); }
            }
        }
    }
    if plan != 0 && b.len() != recs.len() { return Err(format!("builder reports len {} after {} records", b.len(), recs.len())); }
    Ok(b.finish().map_err(|e| e.to_string()))
}

pub fn build_zipoffset_batch(cfg: &ZipOffsetBlobStoreConfig, cfgname: &str, bsz: usize, recs: &[Vec<u8>], plan: u64) -> Result<Result<ZipOffsetBlobStore, String>, String> {
    let mut pr = Rng::new(plan ^ 0xBA7);
    BATCH_OPS.with(|o| o.borrow_mut().clear());
    let mut b = if cfgname == "default" && plan % 2 == 1 { BatchZipOffsetBlobStoreBuilder::new(bsz) } else { BatchZipOffsetBlobStoreBuilder::with_config(cfg.clone(), bsz) }
        .map_err(|e| format!("builder construction failed: {}", e))?;
    for (i, d) in recs.iter().enumerate() {
        if plan != 0 {
            match pr.below(8) {
                0 => { if let Err(e) = b.flush_batch() { return Ok(Err(e.to_string())); } BATCH_OPS.with(|o| o.borrow_mut().push(None)); }
                1 => if b.len() != i || b.is_empty() != (i == 0) { return Err(format!("batch builder reports len {} / is_empty {} after {} records", b.len(), b.is_empty(), i)); },
                2 => { let _ = b.stats().record_count; }
                _ => {}
            }
        }
        BATCH_OPS.with(|o| o.borrow_mut().push(Some(i)));
        match b.add_record(d) {
            Ok(id) => if id as usize != i { return Err(format!("batch add_record #{} returned id {}", i, id)); },
            // a flush inside add_record hits the same capacity limits as finish()
            Err(e) => return Ok(Err(e.to_string())),
        }
    }
    Ok(b.finish().map_err(|e| e.to_string()))
}

/// Extra checks on a finished ZipOffsetBlobStore: the write calls are refused, the offset cache switch and the statistics
/// calls change nothing, save_to_file -> load_from_file answers identically.
pub fn zipoffset_extras(mut store: ZipOffsetBlobStore, recs: &[Vec<u8>], plan: u64, dir: &str) -> Option<String> {
    if plan % 2 == 1 { store.enable_offset_cache(); }
    { use zipora::blob_store::CompressedBlobStore; let _ = store.compressed_size(0); let _ = store.compression_ratio(0); let _ = store.compression_stats(); }
    let _ = store.memory_usage(); let _ = store.stats(); let _ = store.flush(); let _ = store.config().validate();
    if let Some(m) = check_built(&store, recs, "after enable_offset_cache / statistics calls") { return Some(m); }
    if let Some(m) = refused_writes(&mut store, recs, "built store", false) { return Some(m); }
    if plan % 3 == 1 {
        let path = format!("{}/zo_{}_{}.bin", dir, std::process::id(), plan);
        // a stale file of a different length under the same name must not shine through
        let _ = std::fs::write(&path, vec![0x5Au8; 4000]);
        let r = (|| -> Option<String> {
            if let Err(e) = store.save_to_file(&path) { return Some(format!("save_to_file failed: {}", e)); }
            let loaded = match guarded(|| ZipOffsetBlobStore::load_from_file(&path)) { Ok(Ok(s)) => s, Ok(Err(e)) => return Some(format!("load_from_file of the saved file failed: {}", e)), Err(p) => return Some(format!("load_from_file panicked: {}", p)) };
            check_built(&loaded, recs, "after save_to_file -> load_from_file")
        })();
        let _ = std::fs::remove_file(&path);
        let _ = std::fs::remove_file(format!("{}.save-tmp", path));
        return r;
    }
    None
}

/// Stores that never saw a builder: new / with_config / default are empty stores and save -> load keeps them empty.
pub fn zipoffset_empty(cfg: &ZipOffsetBlobStoreConfig, which: u64) -> Option<String> {
    let s = match which % 3 { 0 => ZipOffsetBlobStore::new(), 1 => ZipOffsetBlobStore::with_config(cfg.clone()), _ => Ok(ZipOffsetBlobStore::default()) };
    let mut s = match s { Ok(s) => s, Err(e) => return Some(format!("empty store construction failed: {}", e)) };
    if let Some(m) = check_built(&s, &[], "empty store") { return Some(m); }
    if let Some(m) = refused_writes(&mut s, &[], "empty store", false) { return Some(m); }
    let mut bytes = vec![];
    if let Err(e) = s.save_to_writer(&mut bytes) { return Some(format!("save_to_writer of the empty store failed: {}", e)); }
    match ZipOffsetBlobStore::load_from_reader(&mut &bytes[..]) { Ok(l) => check_built(&l, &[], "empty store after save->load"), Err(e) => Some(format!("load_from_reader of the empty store's image failed: {}", e)) }
}

pub fn suv_config(name: &str) -> SortedUintVecConfig {
    match name {
        "perf" => SortedUintVecConfig::performance_optimized(),
        "mem" => SortedUintVecConfig::memory_optimized(),
        "" | "default" => SortedUintVecConfig::default(),
        s => { let p: Vec<u8> = s.split(',').filter_map(|x| x.parse().ok()).collect(); SortedUintVecConfig { log2_block_units: *p.first().unwrap_or(&6), offset_width: *p.get(1).unwrap_or(&16), sample_width: *p.get(2).unwrap_or(&32), use_simd: p.get(3).copied().unwrap_or(1) != 0 } }
    }
}

/// SortedUintVec used directly (the offset index of ZipOffsetBlobStore): value i = input i through get, get2, get_block;
/// len / num_blocks; to_bytes -> from_bytes answers identically.  `values` is non-decreasing.
pub fn check_suv(cfg: SortedUintVecConfig, values: &[u64], plan: u64) -> Option<String> {
    if cfg.validate().is_err() { return None; }
    let mut b = if plan % 3 == 0 && cfg.log2_block_units == 6 && cfg.offset_width == 16 && cfg.sample_width == 32 && cfg.use_simd { SortedUintVecBuilder::new() } else { SortedUintVecBuilder::with_config(cfg) };
    if plan % 2 == 0 { for &v in values { if let Err(e) = b.push(v) { return Some(format!("push({}) refused: {}", v, e)); } } }
    else { let h = values.len() / 2; if let Err(e) = b.extend(values[..h].iter().copied()) { return Some(format!("extend refused: {}", e)); } for &v in &values[h..] { if let Err(e) = b.push(v) { return Some(format!("push({}) refused: {}", v, e)); } } }
    if b.len() != values.len() || b.is_empty() != values.is_empty() { return Some(format!("builder len {} after {} values", b.len(), values.len())); }
    // an unsorted value must be refused and must not be stored
    if let Some(&last) = values.last() { if last > 0 { if b.push(last - 1).is_ok() { return Some("push of a value below the previous one was accepted".into()); } if b.len() != values.len() { return Some("a refused push changed the builder".into()); } } }
    let bs = 1usize << cfg.log2_block_units;
    // the representable range: in-block delta < 2^offset_width, block minimum < 2^sample_width
    let fits = values.iter().enumerate().all(|(i, &v)| { let base = values[(i / bs) * bs]; v - base < (1u64 << cfg.offset_width) && (cfg.sample_width >= 64 || (i % bs != 0) || v >> cfg.sample_width == 0) });
    let v = match guarded(|| b.finish()) {
        Err(p) => return Some(format!("finish panicked: {}", p)),
        Ok(Err(e)) => return if fits { Some(format!("finish refused values that fit the configuration: {}", e)) } else { None },
        Ok(Ok(v)) => v,
    };
    if !fits { return Some("finish accepted values the configuration cannot represent".into()); }
    check_suv_reads(&v, values, cfg, "built vector").or_else(|| {
        let img = v.to_bytes();
        match SortedUintVec::from_bytes(&img) { Ok(l) => check_suv_reads(&l, values, cfg, "after to_bytes -> from_bytes"), Err(e) => Some(format!("from_bytes of the vector's own image failed: {}", e)) }
    })
}
fn check_suv_reads(v: &SortedUintVec, values: &[u64], cfg: SortedUintVecConfig, what: &str) -> Option<String> {
    let n = values.len();
    let bs = 1usize << cfg.log2_block_units;
    if v.len() != n || v.is_empty() != (n == 0) { return Some(format!("{}: len {} for {} values", what, v.len(), n)); }
    if v.num_blocks() != (n + bs - 1) / bs { return Some(format!("{}: num_blocks {} for {} values in blocks of {}", what, v.num_blocks(), n, bs)); }
    for i in 0..n {
        match guarded(|| v.get(i)) { Ok(Ok(x)) if x == values[i] => {}, r => return Some(format!("{}: get({}) = {:?} but value {} is {}", what, i, r, i, values[i])) }
        if i + 1 < n { match guarded(|| v.get2(i)) { Ok(Ok(x)) if x == (values[i], values[i + 1]) => {}, r => return Some(format!("{}: get2({}) = {:?} but the values are ({}, {})", what, i, r, values[i], values[i + 1])) } }
    }
    if v.get(n).is_ok() || v.get(usize::MAX).is_ok() { return Some(format!("{}: get past the end answers", what)); }
    if n > 0 && (v.get2(n - 1).is_ok() || v.get2(usize::MAX).is_ok()) { return Some(format!("{}: get2 past the end answers", what)); }
    let mut out = vec![0u64; bs + 3];
    for blk in 0..v.num_blocks() {
        out.iter_mut().for_each(|x| *x = 0xDEAD);
        match guarded(|| v.get_block(blk, &mut out)) { Ok(Ok(())) => {}, r => return Some(format!("{}: get_block({}) = {:?}", what, blk, r)) }
        for j in 0..bs { let i = blk * bs + j; if i < n && out[j] != values[i] { return Some(format!("{}: get_block({})[{}] = {} but value {} is {}", what, blk, j, out[j], i, values[i])); } }
    }
    if v.get_block(v.num_blocks(), &mut out).is_ok() { return Some(format!("{}: get_block past the last block answers", what)); }
    let _ = v.compression_ratio(); let _ = v.memory_usage(); let _ = v.config().block_size();
    None
}

/// SimpleZipConfig through its builder: the same configuration as the struct literal
pub fn simplezip_config_via_builder(min: usize, max: usize, delims: &[u8]) -> Result<SimpleZipConfig, String> {
    let c = SimpleZipConfig::builder().min_frag_len(min).max_frag_len(max).delimiters(delims.to_vec()).build().map_err(|e| e.to_string())?;
    if c.min_frag_len != min || c.max_frag_len != max || c.delimiters != delims { return Err("SimpleZipConfig::builder() built a different configuration".into()); }
    Ok(c)
}


thread_local! {
    /// a Coq case a build helper wants evaluated (taken by run_build after the helper returns)
    pub static COQ_OUT: std::cell::RefCell<Option<String>> = std::cell::RefCell::new(None);
    /// the calls the batch-builder helper made before finish(): Some(i) = add_record(record i), None = flush_batch()
    pub static BATCH_OPS: std::cell::RefCell<Vec<Option<usize>>> = std::cell::RefCell::new(Vec::new());
}

fn coq_obs_b(r: Option<&[u8]>) -> String { match r { Some(d) => { let mut v = vec!["1".to_string(), d.len().to_string()]; v.extend(d.iter().map(|x| x.to_string())); format!("[{}]%N", v.join(";")) } None => "[0]%N".into() } }

/// The finished trie store against the Coq model of the builder (ModelNltb.v): entries as added, whether the builder sorts,
/// and what the real store answers by key (every key added, two keys never added), by id (0..n+1) and for len().
pub fn nltb_coq_case(sorted: bool, keys: &[Vec<u8>], recs: &[Vec<u8>], s: &mut Nt) -> Option<String> {
    if recs.len() > 70 || recs.iter().map(|d| d.len() + 8).sum::<usize>() > 1500 { return None; }
    let entries: Vec<String> = keys.iter().zip(recs.iter()).map(|(k, d)| format!("({}, {})", coq_bytes(k), coq_bytes(d))).collect();
    let mut qs: Vec<Vec<u8>> = vec![];
    for k in keys { if !qs.contains(k) { qs.push(k.clone()); } }
    qs.push(b"never-added".to_vec()); qs.push(vec![0xff, 0xfe]);
    if let Some(k) = keys.first() { let mut k2 = k.clone(); k2.push(b'x'); if !keys.contains(&k2) { qs.push(k2); } }
    let mut kexp: Vec<String> = vec![];
    for k in &qs {
        let r = s.get_by_key(k).ok();
        // contains_key is part of the case through the observation: present exactly when get_by_key answers
        if s.contains_key(k) != r.is_some() { return None; }
        kexp.push(format!("({}, {})", coq_bytes(k), coq_obs_b(r.as_deref())));
    }
    let mut iexp: Vec<String> = vec![];
    for i in 0..recs.len() + 2 {
        let r = s.get(i as RecordId).ok();
        if s.contains(i as RecordId) != r.is_some() { return None; }
        iexp.push(coq_obs_b(r.as_deref()));
    }
    Some(format!("XNltb {} [{}] [{}] [{}] {}", sorted, entries.join("; "), kexp.join("; "), iexp.join("; "), s.len()))
}

fn trie_cfg(name: &str) -> TrieBlobStoreConfig {
    match name { "perf" => TrieBlobStoreConfig::performance_optimized(), "mem" => TrieBlobStoreConfig::memory_optimized(), "sec" => TrieBlobStoreConfig::security_optimized(), _ => TrieBlobStoreConfig::default() }
}
fn nlt_key(i: usize) -> Vec<u8> { format!("k{:04}", (i * 7919) % 10007).into_bytes() }

/// The trie store's builder through its other entry points (add_batch, reserve, sort_entries, finish_with_progress, the
/// `builder` / `builder_default` constructors); then the finished (finalized) store: reads by key and by id, the bulk store
/// behind `blob_store()`, the refused writes.
pub fn nlt_builder_variant(cfgname: &str, recs: &[Vec<u8>], plan: u64) -> Option<String> {
    let cfg = trie_cfg(cfgname);
    let sorted_by_builder = cfg.enable_batch_optimization || plan % 5 == 4;
    let b = match plan % 3 {
        0 => NestLoudsTrieBlobStoreBuilder::<RankSelectInterleaved256>::new(cfg),
        1 => Nt::builder(cfg),
        _ => if cfgname.is_empty() || cfgname == "default" { Nt::builder_default() } else { Nt::builder(cfg) },
    };
    let mut b = match b { Ok(b) => b, Err(e) => return Some(format!("builder construction failed: {}", e)) };
    // plan bit 3: every key is added about three times (i, i + m, i + 2m share a key); the value added last is the key's value,
    // however many other entries the builder sorts with it
    let dup = plan / 8 % 2 == 1 && recs.len() >= 3;
    let m = (recs.len() / 3).max(1);
    let keys: Vec<Vec<u8>> = (0..recs.len()).map(|i| nlt_key(if dup { i % m } else { i })).collect();
    b.reserve(recs.len() / 2);
    let h = recs.len() / 3;
    for (k, d) in keys.iter().zip(recs.iter()).take(h) { if let Err(e) = b.add(k, d) { return Some(format!("add failed: {}", e)); } }
    if let Err(e) = b.add_batch(keys.iter().cloned().zip(recs.iter().cloned()).skip(h)) { return Some(format!("add_batch failed: {}", e)); }
    if b.len() != recs.len() || b.is_empty() != recs.is_empty() { return Some(format!("builder reports len {} after {} entries", b.len(), recs.len())); }
    let _ = b.config().key_cache_size;
    if plan % 5 == 4 { b.sort_entries(); }
    let mut calls = 0usize;
    let s = if plan % 2 == 0 { b.finish() } else { b.finish_with_progress(|_done, _total| { calls += 1; }) };
    let mut s = match s {
        Ok(s) => s,
        // the bulk store behind the trie has the capacity limits of its offset index
        Err(e) => return if e.to_string().contains("too large") { None } else { Some(format!("finish failed: {}", e)) },
    };
    let mut latest: HashMap<&[u8], &Vec<u8>> = HashMap::new();
    for (k, d) in keys.iter().zip(recs.iter()) { latest.insert(k, d); }
    for k in keys.iter() {
        let d = latest[&k[..]];
        match s.get_by_key(k) { Ok(g) => if &g != d { return Some(format!("get_by_key({}) returned {}, the value added last under this key is {}{}", String::from_utf8_lossy(k), hex(&g), hex(d), if dup { " (key added more than once)" } else { "" })); }, Err(e) => return Some(format!("get_by_key({}) failed: {}", String::from_utf8_lossy(k), e)) }
        if !s.contains_key(k) { return Some(format!("contains_key({}) is false for a key that was added", String::from_utf8_lossy(k))); }
    }
    // ids 0..n hold the records in the builder's insertion order (key order when it sorts): the same multiset
    let _ = sorted_by_builder;
    let mut want: Vec<Vec<u8>> = vec![];
    for i in 0..recs.len() { match s.get(i as RecordId) { Ok(g) => want.push(g), Err(e) => return Some(format!("get({}) failed: {}", i, e)) } }
    { let mut a = want.clone(); a.sort(); let mut b2 = recs.to_vec(); b2.sort(); if a != b2 { return Some("records under ids 0..n are not the records added".to_string()); } }
    if let Some(m) = check_built(&s, &want, "finished trie store") { return Some(m); }
    if !s.is_finalized() { return Some("the finished store is not finalized".into()); }
    match s.blob_store() {
        None => return Some("the finished store has no bulk store behind it".into()),
        Some(bs) => if let Some(m) = check_built(bs, &want, "blob_store() of the finished trie store") { return Some(m); },
    }
    let mut ids: Vec<RecordId> = s.iter_ids().collect(); ids.sort();
    if ids != (0..recs.len() as u32).collect::<Vec<_>>() { return Some(format!("iter_ids of the finished store lists {} ids", ids.len())); }
    COQ_OUT.with(|c| *c.borrow_mut() = nltb_coq_case(sorted_by_builder, &keys, recs, &mut s));
    // read-only now: writes may be refused, nothing changes
    let _ = s.put(b"late"); let _ = s.put_with_key(b"late-key", b"late"); let _ = s.remove(0); let _ = s.finalize();
    let mut shadow: HashMap<RecordId, Vec<u8>> = HashMap::new();
    for (i, w) in want.iter().enumerate() { shadow.insert(i as u32, w.clone()); }
    for id in 0..recs.len() as u32 { if !s.contains(id) { shadow.remove(&id); } }
    if shadow.len() + 1 < want.len() { return Some("more than the one removed record disappeared from the finalized store".into()); }
    for id in 0..recs.len() as u32 { if let Some(m) = probe(&s, id, &shadow) { return Some(format!("after the late writes: {}", m)); } }
    None
}

/// The constructors that take the trie configuration of the C++ API: every string is stored under itself.
pub fn nlt_build_from(which: &str, recs: &[Vec<u8>], plan: u64) -> Option<String> {
    use zipora::config::nest_louds_trie::{NestLoudsTrieConfig, OptimizationFlags};
    use zipora::containers::specialized::{FixedLenStrVec, SortableStrVec, ZoSortedStrVec};
    let mut nc = NestLoudsTrieConfig::default();
    match plan % 5 { 1 => nc.set_optimization_flag(OptimizationFlags::ENABLE_CACHE_OPTIMIZATION, true), 2 => nc.enable_queue_compression = true, 3 => nc.set_optimization_flag(OptimizationFlags::ENABLE_FAST_SEARCH, true), 4 => { nc.set_optimization_flag(OptimizationFlags::USE_HUGEPAGES, true); nc.node_cache_size = 0; nc.enable_statistics = false; } _ => {} }
    // distinct printable strings derived from the records
    let mut strs: Vec<String> = vec![];
    for (i, d) in recs.iter().enumerate() {
        let body: String = d.iter().take(12).map(|b| (b'a' + (b % 26)) as char).collect();
        strs.push(format!("{:03}{}", i % 1000, body));
    }
    strs.dedup();
    let check = |s: &mut Nt, keys: &[Vec<u8>], vals: &[Vec<u8>]| -> Option<String> {
        if let Some(m) = check_built(s, vals, &format!("{} store", which)) { return Some(m); }
        for (k, v) in keys.iter().zip(vals.iter()) {
            match s.get_by_key(k) { Ok(g) => if &g != v { return Some(format!("{}: get_by_key({:?}) returned {}", which, String::from_utf8_lossy(k), hex(&g))); }, Err(e) => return Some(format!("{}: get_by_key({:?}) failed: {}", which, String::from_utf8_lossy(k), e)) }
        }
        None
    };
    let bytes: Vec<Vec<u8>> = strs.iter().map(|s| s.as_bytes().to_vec()).collect();
    let r = guarded(|| -> Option<String> {
        match which {
            "sortable" => {
                let mut v = SortableStrVec::new();
                for s in &strs { if v.push_str(s).is_err() { return None; } }
                match Nt::build_from_sortable_str_vec(&v, &nc) { Ok(mut s) => check(&mut s, &bytes, &bytes), Err(e) => Some(format!("build_from_sortable_str_vec failed: {}", e)) }
            }
            "zosorted" => {
                let mut sorted = strs.clone(); sorted.sort(); sorted.dedup();
                let v = match ZoSortedStrVec::from_sorted_strings(sorted.clone()) { Ok(v) => v, Err(_) => return None };
                let sb: Vec<Vec<u8>> = (0..v.len()).filter_map(|i| v.get(i).map(|s| s.as_bytes().to_vec())).collect();
                match Nt::build_from_zo_sorted_str_vec(&v, &nc) { Ok(mut s) => check(&mut s, &sb, &sb), Err(e) => Some(format!("build_from_zo_sorted_str_vec failed: {}", e)) }
            }
            "fixedlen" => {
                let mut v = FixedLenStrVec::<8>::new();
                let mut fb: Vec<Vec<u8>> = vec![];
                for (i, s) in strs.iter().enumerate() { let t = format!("{:03}{:5.5}", i % 1000, &s[3..].chars().chain("zzzzz".chars()).take(5).collect::<String>()); if v.push(&t).is_ok() { fb.push(t.into_bytes()); } }
                let stored: Vec<Vec<u8>> = (0..v.len()).filter_map(|i| v.get(i).map(|s| s.as_bytes().to_vec())).collect();
                if stored != fb { return None; }
                match Nt::build_from_fixed_len_str_vec(&v, &nc) { Ok(mut s) => check(&mut s, &stored, &stored), Err(e) => Some(format!("build_from_fixed_len_str_vec failed: {}", e)) }
            }
            "vec_u8" | "slice_u8" => {
                let data: Vec<u8> = recs.iter().flat_map(|d| d.iter().copied()).take(300).collect();
                let r = if which == "vec_u8" { Nt::build_from_vec_u8(&data, &nc) } else { Nt::build_from_slice_u8(&data, &nc) };
                match r { Ok(mut s) => check(&mut s, &[data.clone()], &[data.clone()]), Err(e) => if data.is_empty() { None } else { Some(format!("build_from_{} failed: {}", which, e)) } }
            }
            _ => {
                // key-value pairs: duplicate keys allowed, every pair gets its own id, the key resolves to the latest
                let pairs: Vec<(Vec<u8>, Vec<u8>)> = recs.iter().enumerate().map(|(i, d)| (format!("p{}", i % 7).into_bytes(), d.clone())).collect();
                match Nt::build_from_key_value_pairs(&pairs, &nc) {
                    Ok(mut s) => {
                        let vals: Vec<Vec<u8>> = pairs.iter().map(|p| p.1.clone()).collect();
                        if let Some(m) = check_built(&s, &vals, "key_value_pairs store") { return Some(m); }
                        let mut latest: HashMap<Vec<u8>, Vec<u8>> = HashMap::new();
                        for (k, v) in &pairs { latest.insert(k.clone(), v.clone()); }
                        for (k, v) in &latest { match s.get_by_key(k) { Ok(g) => if &g != v { return Some(format!("key_value_pairs: get_by_key({:?}) returned {} but the latest value is {}", String::from_utf8_lossy(k), hex(&g), hex(v))); }, Err(e) => return Some(format!("key_value_pairs: get_by_key failed: {}", e)) } }
                        None
                    }
                    Err(e) => if pairs.is_empty() { None } else { Some(format!("build_from_key_value_pairs failed: {}", e)) },
                }
            }
        }
    });
    match r { Ok(x) => x, Err(p) => Some(format!("{}: panicked: {}", which, p)) }
}

pub fn values_of(case: &Value, recs: &[Vec<u8>]) -> Vec<u64> {
    // the offsets a store of these records would have, shifted by `base`
    let base = case["base"].as_u64().unwrap_or(0);
    let mut v = vec![base];
    for d in recs { let l = *v.last().unwrap(); v.push(l.saturating_add(d.len() as u64)); }
    if case["drop_first"].as_bool().unwrap_or(false) { v.remove(0); }
    v
}
