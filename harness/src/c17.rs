//! C17: caches stay within capacity, evict least-recently-used, never serve stale data.
//! M+S cells: LruMap (4 presets), ConcurrentLruMap (Hash / RoundRobin / ThreadAffinity routing), LruPageCache (read/prefetch/invalidate histories,
//! external rewrites with separate invalidation, close_file), SingleLruPageCache, CachedBlobStore (3 write strategies, own and shared cache).
//! S-only cells: FsaCache, the two-thread probe of one LruMap shard.
use crate::util::*;
use serde_json::{json, Value};
use std::collections::HashMap;
use std::sync::{Arc, Mutex};
use zipora::blob_store::cached_store::CacheWriteStrategy;
use zipora::blob_store::{BlobStore, CachedBlobStore, MemoryBlobStore};
use zipora::cache::{LruPageCache, PageCacheConfig, SingleLruPageCache, PAGE_SIZE};
use zipora::containers::specialized::{
    ConcurrentLruMap, ConcurrentLruMapConfig, EvictionCallback, LoadBalancingStrategy, LruMap, LruMapConfig,
};
use zipora::fsa::cache::{CacheStrategy, FsaCache, FsaCacheConfig};

const HEADER: &str = r#"From ZV.Common Require Import Base Run.
From ZV.C17 Require Import Spec Model ModelInval ModelBlob ModelRoute.
Open Scope N_scope.
Inductive case_t : Type :=
| CLru (cap : N) (ops : list (N * N * N)) (expect : list (list Z))
| CCmap (percap : N) (nshards : nat) (route : list (N * N)) (ops : list (N * N * N)) (expect : list (list Z))
| CPc (ps capbytes : N) (fs : list (N * (N * N))) (ops : list (N * N * N * N)) (expect : list (list N))
| CPx (ps capbytes : N) (fs : list (N * (N * N))) (ops : list (N * N * N * N)) (expect : list (list N))
| CPs (ps capbytes : N) (fs : list (N * (N * N))) (ops : list (N * N * N * N)) (expect : list (list N))
| CBlob (ps capbytes : N) (fs : list (N * (N * N))) (rf vfid strategy : N) (ops : list (N * N * N)) (expect : list (list N))
| CRr (percap : N) (nshards : nat) (ops : list (N * N * N)) (expect : list (list Z))
| CTa (percap : N) (nshards : nat) (route : list (N * N)) (tops : list (N * (N * N * N))) (expect : list (list Z)).
Fixpoint eqb_llz (a b : list (list Z)) : bool :=
  match a, b with
  | [], [] => true
  | x :: a', y :: b' => eqb_lz x y && eqb_llz a' b'
  | _, _ => false
  end.
Fixpoint eqb_lln (a b : list (list N)) : bool :=
  match a, b with
  | [], [] => true
  | x :: a', y :: b' => eqb_ln x y && eqb_lln a' b'
  | _, _ => false
  end.
Definition ok (c : case_t) : bool :=
  match c with
  | CLru cap ops expect => eqb_llz (lru_case cap ops) expect
  | CCmap percap n route ops expect => eqb_llz (cmap_case percap n route ops) expect
  | CPc ps capbytes fs ops expect => eqb_lln (pc_case ps capbytes fs ops) expect
  | CPx ps capbytes fs ops expect => eqb_lln (px_case ps capbytes fs ops) expect
  | CPs ps capbytes fs ops expect => eqb_lln (ps_case ps capbytes fs ops) expect
  | CBlob ps capbytes fs rf vfid strategy ops expect => eqb_lln (blob_case ps capbytes fs rf vfid strategy ops) expect
  | CRr percap n ops expect => eqb_llz (rr_case percap n ops) expect
  | CTa percap n route tops expect => eqb_llz (ta_case percap n route tops) expect
  end.
"#;

struct Ctx { sum: Summary, shards: CoqShards, terms: Vec<Vec<(String, Value)>>, budget_lru: usize, budget_cmap: usize, budget_pc: usize, n_lru: usize, n_cmap: usize, n_pc: usize, tmp: String, fileno: u64,
             /// budgets / counts of the cells modelled by the extension: 3 px (rewrite, close_file, read_with_prefetch), 4 ps (SingleLruPageCache), 5 blob, 6 round robin, 7 thread affinity
             budget_x: [usize; 8], n_x: [usize; 8] }
const T_PX: usize = 3;
const T_PS: usize = 4;
const T_BLOB: usize = 5;
const T_RR: usize = 6;
const T_TA: usize = 7;

// ---------------------------------------------------------------------------------------------
// the property, told as dumbly as possible: entries with the time of their last get/put
// ---------------------------------------------------------------------------------------------
struct RefLru { cap: usize, ents: Vec<(u64, u64, u64)>, tick: u64 }
impl RefLru {
    fn new(cap: usize) -> Self { RefLru { cap, ents: vec![], tick: 0 } }
    fn pos(&self, k: u64) -> Option<usize> { self.ents.iter().position(|e| e.0 == k) }
    fn get(&mut self, k: u64) -> Option<u64> {
        self.tick += 1;
        let t = self.tick;
        self.pos(k).map(|i| { self.ents[i].2 = t; self.ents[i].1 })
    }
    /// returns (previous value, evicted entry)
    fn put(&mut self, k: u64, v: u64) -> (Option<u64>, Option<(u64, u64)>) {
        self.tick += 1;
        let t = self.tick;
        if let Some(i) = self.pos(k) {
            let old = self.ents[i].1;
            self.ents[i] = (k, v, t);
            return (Some(old), None);
        }
        let mut ev = None;
        if self.ents.len() >= self.cap {
            let i = (0..self.ents.len()).min_by_key(|&i| self.ents[i].2).unwrap();
            let e = self.ents.remove(i);
            ev = Some((e.0, e.1));
        }
        self.ents.push((k, v, t));
        (None, ev)
    }
    fn remove(&mut self, k: u64) -> Option<u64> { self.tick += 1; self.pos(k).map(|i| self.ents.remove(i).1) }
    fn contains(&self, k: u64) -> bool { self.pos(k).is_some() }
}

#[derive(Clone)]
struct Rec(Arc<Mutex<Vec<(u64, u64)>>>);
impl EvictionCallback<u64, u64> for Rec {
    fn on_evict(&self, k: &u64, v: &u64) { self.0.lock().unwrap().push((*k, *v)); }
}

type Op = (u8, u64, u64); // 0 get k, 1 put k v, 2 remove k, 3 contains k, 4 clear, 5 len

fn enc_opt(o: Option<u64>) -> Vec<i128> { match o { None => vec![0], Some(v) => vec![1, v as i128] } }

fn lru_config(preset: u64, cap: usize) -> LruMapConfig {
    let mut c = match preset { 1 => LruMapConfig::performance_optimized(), 2 => LruMapConfig::memory_optimized(), 3 => LruMapConfig::security_optimized(), _ => LruMapConfig::default() };
    c.capacity = cap;
    c
}
const PRESETS: [&str; 4] = ["default", "performance", "memory", "security"];

/// Apply one operation to a map-like object and to the reference; report disagreement with the property.
/// `m_*` closures are the implementation.  Returns the Coq observation.
#[allow(clippy::too_many_arguments)]
fn step_check(
    op: Op, refs: &mut [RefLru], shard_of: &dyn Fn(u64) -> usize, log: Option<&Rec>, seen: &mut usize,
    get: &dyn Fn(u64) -> Option<u64>, put: &dyn Fn(u64, u64) -> Result<Option<u64>, String>, remove: &dyn Fn(u64) -> Option<u64>,
    contains: &dyn Fn(u64) -> bool, clear: &dyn Fn() -> Result<(), String>, len: &dyn Fn() -> usize,
    fails: &mut Vec<String>,
) -> Vec<i128> {
    let (c, k, v) = op;
    let mut expect_cb: Vec<(u64, u64)> = vec![];
    // entries an explicit remove/clear takes out: the property neither demands nor forbids a callback for them
    let mut tolerated: Vec<(u64, u64)> = vec![];
    let mut obs: Vec<i128> = match c {
        0 => { let w = refs[shard_of(k)].get(k); let g = get(k);
               if g != w { fails.push(format!("get({}) = {:?}, the most recent value put and not evicted/removed is {:?}", k, g, w)); }
               enc_opt(g) }
        1 => { let (wold, wev) = refs[shard_of(k)].put(k, v);
               if let Some(e) = wev { expect_cb.push(e); }
               match put(k, v) {
                   Ok(g) => { if g != wold { fails.push(format!("put({},{}) returned previous value {:?}, expected {:?}", k, v, g, wold)); } enc_opt(g) }
                   Err(e) => { fails.push(format!("put({},{}) refused: {}", k, v, e)); vec![-1] }
               } }
        2 => { let w = refs[shard_of(k)].remove(k); let g = remove(k);
               if let Some(wv) = w { tolerated.push((k, wv)); }
               if g != w { fails.push(format!("remove({}) = {:?}, expected {:?}", k, g, w)); }
               enc_opt(g) }
        3 => { let w = refs[shard_of(k)].contains(k); let g = contains(k);
               if g != w { fails.push(format!("contains_key({}) = {}, expected {}", k, g, w)); }
               vec![g as i128] }
        4 => { for r in refs.iter_mut() { tolerated.extend(r.ents.iter().map(|e| (e.0, e.1))); r.ents.clear(); }
               if let Err(e) = clear() { fails.push(format!("clear refused: {}", e)); }
               vec![0] }
        _ => { let w: usize = refs.iter().map(|r| r.ents.len()).sum(); let g = len();
               if g != w { fails.push(format!("len() = {}, expected {}", g, w)); }
               vec![g as i128] }
    };
    // eviction callback: exactly the entries evicted to make room, with their key and value, once
    // a map built without a callback (LruMap::new / with_config) cannot be observed here: nothing to compare
    let new_cb: Vec<(u64, u64)> = match log {
        Some(log) => { let lg = log.0.lock().unwrap(); let v = lg[*seen..].to_vec(); *seen = lg.len(); v }
        None => expect_cb.clone(),
    };
    let cb_ok = if c == 2 || c == 4 {
        let mut pool = tolerated.clone();
        new_cb.iter().all(|e| match pool.iter().position(|p| p == e) { Some(i) => { pool.remove(i); true } None => false })
    } else { new_cb == expect_cb };
    if !cb_ok {
        fails.push(format!("op {:?}: eviction callback got {:?}, the least recently used entry to evict was {:?}", op, new_cb, expect_cb));
    }
    for (ek, _) in &new_cb {
        if contains(*ek) { fails.push(format!("eviction callback invoked for key {} which is still retrievable", ek)); }
    }
    for (j, r) in refs.iter().enumerate() {
        let _ = j;
        if r.ents.len() > r.cap { fails.push("reference exceeded capacity (harness bug)".into()); }
    }
    let total_cap: usize = refs.iter().map(|r| r.cap).sum();
    if len() > total_cap { fails.push(format!("holds {} entries, capacity {}", len(), total_cap)); }
    // callbacks on an explicit remove/clear are not constrained by the property: keep them out of the model comparison too
    if c != 2 && c != 4 { for (ek, ev) in new_cb { obs.push(ek as i128); obs.push(ev as i128); } }
    obs
}

fn ops_json(ops: &[Op]) -> Value { json!(ops.iter().map(|o| json!([o.0, o.1, o.2])).collect::<Vec<_>>()) }
fn ops_coq(ops: &[Op]) -> String { format!("[{}]", ops.iter().map(|o| format!("({}, {}, {})", o.0, o.1, o.2)).collect::<Vec<_>>().join("; ")) }
fn obs_coq(obs: &[Vec<i128>]) -> String { format!("[{}]", obs.iter().map(|o| coq_z_list(o.iter().copied())).collect::<Vec<_>>().join("; ")) }
fn parse_ops(v: &Value) -> Vec<Op> {
    v.as_array().map(|a| a.iter().filter_map(|o| { let o = o.as_array()?; Some((o.get(0)?.as_u64()? as u8, o.get(1)?.as_u64()?, o.get(2)?.as_u64()?)) }).collect()).unwrap_or_default()
}

fn lru_history(cx: &mut Ctx, cap: usize, preset: u64, nkeys: u64, ops: &[Op], force: bool) {
    let cell = format!("LruMap/{}", PRESETS[(preset % 4) as usize]);
    cx.sum.eval(&cell, &format!("lru {} {} {:?}", cap, preset, ops), ops.iter().filter(|o| o.0 == 1).count() > cap);
    let cj = json!({"cell": "lru", "cap": cap, "preset": preset, "nkeys": nkeys, "ops": ops_json(ops)});
    let log = Rec(Arc::new(Mutex::new(vec![])));
    let m = match guarded(|| if preset % 4 == 0 { LruMap::<u64, u64, Rec>::with_eviction_callback(cap, log.clone()) }
                             else { LruMap::<u64, u64, Rec>::with_config_and_callback(lru_config(preset, cap), log.clone()) }) {
        Ok(Ok(m)) => m,
        Ok(Err(e)) => { if cap >= 1 { cx.sum.fail(&cell, None, cj, &format!("constructor refused capacity {}: {:?}", cap, e)); } return; }
        Err(p) => { cx.sum.fail(&cell, None, cj, &format!("constructor panicked: {}", p)); return; }
    };
    let mut refs = vec![RefLru::new(cap)];
    let mut seen = 0usize;
    let mut fails: Vec<String> = vec![];
    let mut obs: Vec<Vec<i128>> = vec![];
    let r = guarded(|| {
        for &op in ops {
            let o = step_check(op, &mut refs, &|_| 0, Some(&log), &mut seen,
                &|k| m.get(&k), &|k, v| m.put(k, v).map_err(|e| format!("{:?}", e)), &|k| m.remove(&k),
                &|k| m.contains_key(&k), &|| m.clear().map_err(|e| format!("{:?}", e)), &|| m.len(), &mut fails);
            obs.push(o);
        }
        // what is retrievable at the end
        for k in 0..nkeys.max(1) + 1 {
            if m.contains_key(&k) != refs[0].contains(k) { fails.push(format!("at the end contains_key({}) = {}", k, m.contains_key(&k))); }
        }
    });
    if let Err(p) = r { fails.push(format!("panicked: {}", p)); }
    let before = log.0.lock().unwrap().len();
    drop(m);
    {   // dropping the map may or may not report what it still held, but nothing else and nothing twice
        let lg = log.0.lock().unwrap();
        let mut pool: Vec<(u64, u64)> = refs[0].ents.iter().map(|e| (e.0, e.1)).collect();
        if !lg[before..].iter().all(|e| match pool.iter().position(|p| p == e) { Some(i) => { pool.remove(i); true } None => false }) {
            fails.push(format!("dropping the map invoked the eviction callback with {:?}, which it did not hold", &lg[before..]));
        }
    }
    let modelled = fails.iter().all(|f| !f.contains("panicked"));
    if let Some(f) = fails.first() { cx.sum.fail(&cell, None, cj.clone(), f); }
    if modelled && (force || cx.n_lru < cx.budget_lru) {
        cx.n_lru += 1;
        cx.terms[0].push((format!("CLru {} {} {}", cap, ops_coq(ops), obs_coq(&obs)), cj));
    }
}

fn strategy_of(s: u64) -> (LoadBalancingStrategy, &'static str) {
    match s { 1 => (LoadBalancingStrategy::RoundRobin, "RoundRobin"), 2 => (LoadBalancingStrategy::ThreadAffinity, "ThreadAffinity"), _ => (LoadBalancingStrategy::Hash, "Hash") }
}
fn cmap_config(preset: u64, total: usize, nshards: usize, strat: u64) -> ConcurrentLruMapConfig {
    let mut c = match preset { 1 => ConcurrentLruMapConfig::performance_optimized(), 2 => ConcurrentLruMapConfig::memory_optimized(), _ => ConcurrentLruMapConfig::default() };
    c.base_config.capacity = total / nshards.max(1);
    c.shard_count = nshards;
    c.load_balancing = strategy_of(strat).0;
    c
}

fn cmap_history(cx: &mut Ctx, total: usize, nshards: usize, preset: u64, strat: u64, nkeys: u64, ops: &[Op], force: bool) {
    let sname = strategy_of(strat).1;
    let cell = format!("ConcurrentLruMap/{}", sname);
    let percap = total / nshards.max(1);
    cx.sum.eval(&cell, &format!("cmap {} {} {} {} {:?}", total, nshards, preset, strat, ops), ops.iter().filter(|o| o.0 == 1).count() > percap);
    let cj = json!({"cell": "cmap", "total": total, "nshards": nshards, "preset": preset, "strategy": strat, "nkeys": nkeys, "ops": ops_json(ops)});
    let class: Option<&str> = if strat == 1 && nshards > 1 { Some("concurrent_round_robin_routing") } else { None };
    let log = Rec(Arc::new(Mutex::new(vec![])));
    let valid_cfg = nshards >= 1 && nshards.is_power_of_two() && percap >= 1;
    let m = match guarded(|| if preset == 0 && strat == 0 { ConcurrentLruMap::<u64, u64, Rec>::with_eviction_callback(total, nshards, log.clone()) }
                             else { ConcurrentLruMap::<u64, u64, Rec>::with_config_and_callback(cmap_config(preset, total, nshards, strat), log.clone()) }) {
        Ok(Ok(m)) => m,
        Ok(Err(e)) => { if valid_cfg { cx.sum.fail(&cell, None, cj, &format!("constructor refused a valid configuration: {:?}", e)); } else { cx.sum.dist("cmap_config_refused"); } return; }
        Err(p) => { cx.sum.fail(&cell, None, cj, &format!("constructor panicked: {}", p)); return; }
    };
    if !valid_cfg { cx.sum.dist("cmap_invalid_config_accepted"); return; }
    // which shard a key lives in: observed on a fresh map through shard_sizes()
    let mut route: HashMap<u64, usize> = HashMap::new();
    let keyspace: Vec<u64> = { let mut ks: Vec<u64> = (0..nkeys + 1).collect(); for o in ops { if !ks.contains(&o.1) { ks.push(o.1); } } ks };
    for &k in &keyspace {
        let probe = guarded(|| {
            let p = ConcurrentLruMap::<u64, u64>::with_config(cmap_config(preset, total, nshards, if strat == 1 { 0 } else { strat })).ok()?;
            p.put(k, 0).ok()?;
            p.shard_sizes().iter().position(|&n| n == 1)
        });
        match probe { Ok(Some(j)) => { route.insert(k, j); } _ => { cx.sum.fail(&cell, class, cj, &format!("cannot observe the shard of key {}", k)); return; } }
    }
    let mut refs: Vec<RefLru> = (0..nshards).map(|_| RefLru::new(percap)).collect();
    let mut seen = 0usize;
    let mut fails: Vec<String> = vec![];
    let mut obs: Vec<Vec<i128>> = vec![];
    let r = guarded(|| {
        for &op in ops {
            let o = step_check(op, &mut refs, &|k| route[&k], Some(&log), &mut seen,
                &|k| m.get(&k), &|k, v| m.put(k, v).map_err(|e| format!("{:?}", e)), &|k| m.remove(&k),
                &|k| m.contains_key(&k), &|| m.clear().map_err(|e| format!("{:?}", e)), &|| m.len(), &mut fails);
            obs.push(o);
        }
        for &k in &keyspace {
            if m.contains_key(&k) != refs[route[&k]].contains(k) { fails.push(format!("at the end contains_key({}) = {}", k, m.contains_key(&k))); }
        }
        if m.capacity() != percap * nshards { fails.push(format!("capacity() = {}", m.capacity())); }
    });
    if let Err(p) = r { fails.push(format!("panicked: {}", p)); }
    if let Some(f) = fails.first() { cx.sum.fail(&cell, class, cj.clone(), f); }
    if strat == 0 && fails.iter().all(|f| !f.contains("panicked")) && (force || cx.n_cmap < cx.budget_cmap) {
        cx.n_cmap += 1;
        let mut rt: Vec<(u64, usize)> = route.iter().map(|(k, j)| (*k, *j)).collect();
        rt.sort();
        let rts = format!("[{}]", rt.iter().map(|(k, j)| format!("({}, {})", k, j)).collect::<Vec<_>>().join("; "));
        cx.terms[1].push((format!("CCmap {} {}%nat {} {} {}", percap, nshards, rts, ops_coq(ops), obs_coq(&obs)), cj));
    }
}


/// RoundRobin routing, one implementation call per operation (every keyed call moves the global counter), compared with the
/// Coq model of the counter.  The oracle here only demands what holds for any routing: a value returned for a key was put for
/// that key, the total stays within the capacity, nothing is reported evicted that was never put, no operation fails.
/// (That get(k) finds the latest put(k) is checked by cmap_history and is the recorded finding.)
fn rr_history(cx: &mut Ctx, total: usize, nshards: usize, preset: u64, ops: &[Op], force: bool) {
    let cell = "ConcurrentLruMap/RoundRobin";
    let percap = total / nshards.max(1);
    cx.sum.eval(cell, &format!("rr {} {} {} {:?}", total, nshards, preset, ops), ops.iter().filter(|o| o.0 == 1).count() > percap);
    let cj = json!({"cell": "rr", "total": total, "nshards": nshards, "preset": preset, "ops": ops_json(ops)});
    let log = Rec(Arc::new(Mutex::new(vec![])));
    let m = match guarded(|| ConcurrentLruMap::<u64, u64, Rec>::with_config_and_callback(cmap_config(preset, total, nshards, 1), log.clone())) {
        Ok(Ok(m)) => m,
        Ok(Err(e)) => { cx.sum.fail(cell, None, cj, &format!("constructor refused a valid configuration: {:?}", e)); return; }
        Err(p) => { cx.sum.fail(cell, None, cj, &format!("constructor panicked: {}", p)); return; }
    };
    let mut put_for: HashMap<u64, Vec<u64>> = HashMap::new();
    let mut fails: Vec<String> = vec![];
    let mut obs: Vec<Vec<i128>> = vec![];
    let mut seen = 0usize;
    let r = guarded(|| {
        for &(c, k, v) in ops {
            let known = |put_for: &HashMap<u64, Vec<u64>>, k: u64, x: Option<u64>| x.map_or(true, |x| put_for.get(&k).map_or(false, |l| l.contains(&x)));
            let mut o: Vec<i128> = match c {
                0 => { let g = m.get(&k); if !known(&put_for, k, g) { fails.push(format!("get({}) = {:?}, a value never put for that key", k, g)); } enc_opt(g) }
                1 => { put_for.entry(k).or_default().push(v);
                       match m.put(k, v) { Ok(g) => { if !known(&put_for, k, g) { fails.push(format!("put({},{}) returned previous value {:?}, never put for that key", k, v, g)); } enc_opt(g) }
                                           Err(e) => { fails.push(format!("put({},{}) refused: {:?}", k, v, e)); vec![-1] } } }
                2 => { let g = m.remove(&k); if !known(&put_for, k, g) { fails.push(format!("remove({}) = {:?}, a value never put for that key", k, g)); } enc_opt(g) }
                3 => vec![m.contains_key(&k) as i128],
                4 => { if let Err(e) = m.clear() { fails.push(format!("clear refused: {:?}", e)); }
                       put_for.clear();   // nothing put before a clear may come back
                       if m.len() != 0 { fails.push(format!("len() = {} right after clear()", m.len())); }
                       vec![0] }
                _ => { let n = m.len(); if n > percap * nshards { fails.push(format!("holds {} entries, capacity {}", n, percap * nshards)); } vec![n as i128] }
            };
            let lg = log.0.lock().unwrap();
            let new_cb: Vec<(u64, u64)> = lg[seen..].to_vec();
            seen = lg.len();
            drop(lg);
            if c != 4 { for (ek, ev) in &new_cb { if !known(&put_for, *ek, Some(*ev)) { fails.push(format!("eviction callback got ({}, {}), never put", ek, ev)); } } }
            if c == 0 && !new_cb.is_empty() { fails.push(format!("get({}) invoked the eviction callback with {:?}", k, new_cb)); }
            if c == 1 && new_cb.len() > 1 { fails.push(format!("put({},{}) evicted {} entries", k, v, new_cb.len())); }
            if c != 2 && c != 4 { for (ek, ev) in new_cb { o.push(ek as i128); o.push(ev as i128); } }
            obs.push(o);
        }
    });
    if let Err(p) = r { fails.push(format!("panicked: {}", p)); }
    if let Some(f) = fails.first() { cx.sum.fail(cell, None, cj.clone(), f); }
    if fails.iter().all(|f| !f.contains("panicked")) && obs.len() == ops.len() && (force || cx.n_x[T_RR] < cx.budget_x[T_RR]) {
        cx.n_x[T_RR] += 1;
        cx.terms[T_RR].push((format!("CRr {} {}%nat {} {}", percap, nshards, ops_coq(ops), obs_coq(&obs)), cj));
    }
}

/// ThreadAffinity routing: the operations are made by `nthreads` worker threads, one at a time (a sequential history with a
/// thread per operation).  The shard of a thread is observed (a put on a fresh map from that thread, then shard_sizes()).
/// Oracle: each shard is an LRU of the per-shard capacity on the operations of the threads that hash to it.
fn ta_history(cx: &mut Ctx, total: usize, nshards: usize, nthreads: usize, tops: &[(u64, Op)], force: bool) {
    use std::sync::mpsc::{channel, Receiver, Sender};
    let cell = "ConcurrentLruMap/ThreadAffinity";
    let percap = total / nshards.max(1);
    cx.sum.eval(cell, &format!("ta {} {} {} {:?}", total, nshards, nthreads, tops), tops.iter().filter(|o| o.1 .0 == 1).count() > percap);
    let cj = json!({"cell": "ta", "total": total, "nshards": nshards, "nthreads": nthreads,
                    "ops": tops.iter().map(|(t, o)| json!([t, o.0, o.1, o.2])).collect::<Vec<_>>()});
    let log = Rec(Arc::new(Mutex::new(vec![])));
    let m = match guarded(|| ConcurrentLruMap::<u64, u64, Rec>::with_config_and_callback(cmap_config(0, total, nshards, 2), log.clone())) {
        Ok(Ok(m)) => Arc::new(m),
        Ok(Err(e)) => { cx.sum.fail(cell, None, cj, &format!("constructor refused a valid configuration: {:?}", e)); return; }
        Err(p) => { cx.sum.fail(cell, None, cj, &format!("constructor panicked: {}", p)); return; }
    };
    let mut workers: Vec<(Sender<Op>, Receiver<Result<Vec<i128>, String>>)> = vec![];
    let mut route: Vec<usize> = vec![];
    for _ in 0..nthreads.max(1) {
        let (txo, rxo) = channel::<Op>();
        let (txr, rxr) = channel::<Result<Vec<i128>, String>>();
        let m = m.clone();
        std::thread::spawn(move || {
            let probe = guarded(|| {
                let p = ConcurrentLruMap::<u64, u64>::with_config(cmap_config(0, total, nshards, 2)).ok()?;
                p.put(0, 0).ok()?;
                p.shard_sizes().iter().position(|&n| n == 1)
            });
            let _ = txr.send(match probe { Ok(Some(j)) => Ok(vec![j as i128]), _ => Err("cannot observe the shard of the thread".into()) });
            while let Ok((c, k, v)) = rxo.recv() {
                let r = guarded(|| match c {
                    0 => enc_opt(m.get(&k)),
                    1 => match m.put(k, v) { Ok(o) => enc_opt(o), Err(_) => vec![-1] },
                    2 => enc_opt(m.remove(&k)),
                    3 => vec![m.contains_key(&k) as i128],
                    4 => match m.clear() { Ok(()) => vec![0], Err(_) => vec![-2] },
                    _ => vec![m.len() as i128],
                });
                if txr.send(r).is_err() { break; }
            }
        });
        match rxr.recv_timeout(std::time::Duration::from_secs(5)) {
            Ok(Ok(v)) => route.push(v[0] as usize),
            _ => { cx.sum.fail(cell, None, cj, "cannot observe the shard of a worker thread"); return; }
        }
        workers.push((txo, rxr));
    }
    let hung = std::cell::Cell::new(false);
    let call = |t: usize, op: Op| -> Vec<i128> {
        if hung.get() || workers[t].0.send(op).is_err() { hung.set(true); return vec![-3]; }
        match workers[t].1.recv_timeout(std::time::Duration::from_secs(5)) { Ok(Ok(v)) => v, Ok(Err(_)) => vec![-4], Err(_) => { hung.set(true); vec![-3] } }
    };
    let dec_opt = |v: Vec<i128>| -> Option<u64> { if v.len() == 2 && v[0] == 1 { Some(v[1] as u64) } else { None } };
    let mut refs: Vec<RefLru> = (0..nshards).map(|_| RefLru::new(percap)).collect();
    let mut seen = 0usize;
    let mut fails: Vec<String> = vec![];
    let mut obs: Vec<Vec<i128>> = vec![];
    for &(tid, op) in tops {
        let t = (tid as usize) % workers.len();
        let j = route[t];
        let o = step_check(op, &mut refs, &|_| j, Some(&log), &mut seen,
            &|k| dec_opt(call(t, (0, k, 0))),
            &|k, v| { let r = call(t, (1, k, v)); if r == vec![-1] { Err("put refused".into()) } else if r[0] < -1 { Err("panicked or hung".into()) } else { Ok(dec_opt(r)) } },
            &|k| dec_opt(call(t, (2, k, 0))), &|k| call(t, (3, k, 0)) == vec![1],
            &|| { let r = call(t, (4, 0, 0)); if r == vec![0] { Ok(()) } else { Err("clear refused".into()) } },
            &|| { let r = call(t, (5, 0, 0)); if r[0] >= 0 { r[0] as usize } else { usize::MAX } }, &mut fails);
        obs.push(o);
        if hung.get() { fails.push(format!("thread {} never returned from {:?}", t, op)); break; }
    }
    drop(workers);
    if let Some(f) = fails.first() { cx.sum.fail(cell, None, cj.clone(), f); }
    if !hung.get() && fails.iter().all(|f| !f.contains("panicked")) && obs.len() == tops.len() && (force || cx.n_x[T_TA] < cx.budget_x[T_TA]) {
        cx.n_x[T_TA] += 1;
        let rts = format!("[{}]", route.iter().enumerate().map(|(t, j)| format!("({}, {})", t, j)).collect::<Vec<_>>().join("; "));
        let tops_coq = format!("[{}]", tops.iter().map(|(t, o)| format!("({}, ({}, {}, {}))", (*t as usize) % route.len(), o.0, o.1, o.2)).collect::<Vec<_>>().join("; "));
        cx.terms[T_TA].push((format!("CTa {} {}%nat {} {} {}", percap, nshards, rts, tops_coq, obs_coq(&obs)), cj));
    }
}

/// ThreadAffinity routing: a value put by one thread must be visible to another thread.
fn affinity_case(cx: &mut Ctx, nshards: usize, nthreads: usize) {
    let cell = "ConcurrentLruMap/ThreadAffinity";
    cx.sum.eval(cell, &format!("affinity {} {}", nshards, nthreads), true);
    let cj = json!({"cell": "affinity", "nshards": nshards, "nthreads": nthreads});
    let class = if nshards > 1 { Some("concurrent_thread_affinity_routing") } else { None };
    let r = guarded(|| {
        let m = Arc::new(ConcurrentLruMap::<u64, u64>::with_config(cmap_config(0, 4 * nshards, nshards, 2)).ok()?);
        m.put(7, 70).ok()?;
        let mut seen = vec![];
        for _ in 0..nthreads {
            let m2 = m.clone();
            seen.push(std::thread::spawn(move || m2.get(&7)).join().ok()?);
        }
        Some(seen)
    });
    match r {
        Ok(Some(seen)) => { if seen.iter().any(|g| *g != Some(70)) { cx.sum.fail(cell, class, cj, &format!("put(7,70) on one thread, get(7) on others = {:?}", seen)); } }
        Ok(None) => cx.sum.fail(cell, None, cj, "construction / put / thread join failed"),
        Err(p) => cx.sum.fail(cell, None, cj, &format!("panicked: {}", p)),
    }
}

/// Two threads on one shard: one keeps updating an existing key, the other keeps inserting new keys into the
/// full map (eviction on every put).  Every operation must return, every get must return a value put for that
/// key, the map must stay within capacity.  The threads are abandoned if they do not finish in time.
fn threads_case(cx: &mut Ctx, nshards: usize, iters: u64) {
    let cell = "ConcurrentLruMap/threads";
    cx.sum.eval(cell, &format!("threads {} {}", nshards, iters), true);
    cx.sum.cell_status(cell, "S-only");
    let cj = json!({"cell": "threads", "nshards": nshards, "iters": iters});
    let m = match ConcurrentLruMap::<u64, u64>::with_config(cmap_config(0, 2 * nshards, nshards, 0)) { Ok(m) => Arc::new(m), Err(_) => return };
    let (tx, rx) = std::sync::mpsc::channel::<Result<(), String>>();
    for t in 0..2u64 {
        let m = m.clone();
        let tx = tx.clone();
        std::thread::spawn(move || {
            let r = guarded(|| -> Result<(), String> {
                for i in 0..iters {
                    let k = if t == 0 { 1 } else { 2 + i % 6 };
                    m.put(k, k * 1_000_000 + i % 1000).map_err(|e| format!("put refused: {:?}", e))?;
                    let g = 1 + (i * 7 + t) % 7;
                    if let Some(v) = m.get(&g) { if v / 1_000_000 != g { return Err(format!("get({}) returned {}, a value put for key {}", g, v, v / 1_000_000)); } }
                }
                Ok(())
            });
            let _ = tx.send(match r { Ok(x) => x, Err(p) => Err(format!("panicked: {}", p)) });
        });
    }
    let mut done = 0;
    let deadline = std::time::Instant::now() + std::time::Duration::from_secs(4);
    while done < 2 {
        let left = deadline.saturating_duration_since(std::time::Instant::now());
        match rx.recv_timeout(left) {
            Ok(Ok(())) => done += 1,
            Ok(Err(e)) => { cx.sum.fail(cell, Some("lru_map_concurrent_put_race"), cj, &e); return; }
            Err(_) => { cx.sum.fail(cell, Some("lru_map_concurrent_put_deadlock"), cj, &format!("{} of 2 threads never returned from put/get ({} iterations each, 4 s)", 2 - done, iters)); return; }
        }
    }
    if m.len() > 2 * nshards { cx.sum.fail(cell, Some("lru_map_concurrent_put_race"), cj, &format!("holds {} entries, capacity {}", m.len(), 2 * nshards)); }
}

fn gen_ops(r: &mut Rng, nkeys: u64, n: usize) -> Vec<Op> {
    let mut ops = vec![];
    let mut val = 100u64;
    let hot = r.below(nkeys);
    for _ in 0..n {
        let k = if r.chance(1, 5) { hot } else { r.below(nkeys) };
        let c = r.below(100);
        if c < 42 { val += 1; ops.push((1, k, if r.chance(1, 6) { r.below(3) } else { val })); }
        else if c < 72 { ops.push((0, k, 0)); }
        else if c < 82 { ops.push((2, k, 0)); }
        else if c < 90 { ops.push((3, k, 0)); }
        else if c < 97 { ops.push((5, 0, 0)); }
        else { ops.push((4, 0, 0)); }
    }
    ops
}

// ---------------------------------------------------------------------------------------------
// page cache
// ---------------------------------------------------------------------------------------------
fn file_byte(seed: u64, i: u64) -> u8 { ((i * 31 + (i >> 8) * 7 + seed) & 255) as u8 }
fn gen_file(seed: u64, len: u64) -> Vec<u8> { (0..len).map(|i| file_byte(seed, i)).collect() }
fn digest_vals(b: &[u128]) -> Vec<u128> {
    let mut acc: u128 = 0;
    for (i, &x) in b.iter().enumerate() { acc += ((i as u128 % 251) + 1) * x; }
    let mut d = vec![b.len() as u128, acc];
    d.extend(b.iter().take(8).copied());
    d.extend(b.iter().rev().take(8).copied());
    d
}
fn digest(b: &[u8]) -> Vec<u128> { digest_vals(&b.iter().map(|&x| x as u128).collect::<Vec<_>>()) }

type POp = (u8, u64, u64, u64); // 0 read f off len | 1 prefetch f off len | 2 invalidate_page f page | 3 invalidate_range f off len
                                // 4 read_with_prefetch f off len (ahead = len) | 5 read_batch of this one read (Single: read into a used buffer)
                                // 6 overwrite f off len (+ invalidate_range of exactly that range) | 7 overwrite f off len only (somebody else rewrites the
                                // file; the cache is told later, if at all) | 8 close_file f | 9 size() (Single only)

fn pc_config(preset: u64, capbytes: usize) -> PageCacheConfig {
    let c = match preset { 1 => PageCacheConfig::performance_optimized(), 2 => PageCacheConfig::memory_optimized(), 3 => PageCacheConfig::security_optimized(), _ => PageCacheConfig::balanced() };
    if capbytes == 0 { return c; } // the preset as shipped (64 MB / 256 MB with huge pages / 32 MB / 64 MB)
    c.with_huge_pages(false).with_capacity(capbytes).with_shards([1u32, 2, 4, 8, 64][(capbytes / 7 + preset as usize) % 5])
}

fn pops_json(ops: &[POp]) -> Value { json!(ops.iter().map(|o| json!([o.0, o.1, o.2, o.3])).collect::<Vec<_>>()) }
fn parse_pops(v: &Value) -> Vec<POp> {
    v.as_array().map(|a| a.iter().filter_map(|o| { let o = o.as_array()?; Some((o.get(0)?.as_u64()? as u8, o.get(1)?.as_u64()?, o.get(2)?.as_u64()?, o.get(3)?.as_u64()?)) }).collect()).unwrap_or_default()
}

enum Pc { Multi(LruPageCache), Single(SingleLruPageCache) }
impl Pc {
    fn open(&self, p: &str) -> Result<u32, String> { match self { Pc::Multi(c) => c.open_file(p), Pc::Single(c) => c.open_file(p) }.map_err(|e| format!("{:?}", e)) }
    fn read(&self, f: u32, off: u64, len: usize, how: u8) -> Result<Vec<u8>, String> {
        match self {
            Pc::Multi(c) => match how {
                4 => c.read_with_prefetch(f, off, len, len).map(|b| b.data().to_vec()),
                5 => c.read_batch(vec![(f, off, len)]).map(|mut v| v.pop().map(|b| b.data().to_vec()).unwrap_or_default()),
                _ => c.read(f, off, len).map(|b| b.data().to_vec()),
            },
            Pc::Single(c) => match how {
                // read(.., &mut buffer) replaces what the buffer held
                5 => { let mut b = zipora::cache::CacheBuffer::from_data(vec![7u8; len.min(64)]); c.read(f, off, len, &mut b).map(|_| b.data().to_vec()) }
                4 => c.prefetch(f, off + len as u64, len).and_then(|_| c.read_new(f, off, len)).map(|b| b.data().to_vec()),
                _ => c.read_new(f, off, len).map(|b| b.data().to_vec()),
            },
        }.map_err(|e| format!("{:?}", e))
    }
    fn prefetch(&self, f: u32, off: u64, len: usize) -> Result<(), String> { match self { Pc::Multi(c) => c.prefetch(f, off, len), Pc::Single(c) => c.prefetch(f, off, len) }.map_err(|e| format!("{:?}", e)) }
    fn inv_page(&self, f: u32, p: u32) -> Result<(), String> { match self { Pc::Multi(c) => c.invalidate_page(f, p), Pc::Single(c) => c.invalidate_page(f, p) }.map_err(|e| format!("{:?}", e)) }
    fn inv_range(&self, f: u32, off: u64, len: usize) -> Result<(), String> { match self { Pc::Multi(c) => c.invalidate_range(f, off, len), Pc::Single(c) => c.invalidate_range(f, off, len) }.map_err(|e| format!("{:?}", e)) }
    fn close(&self, f: u32) -> Result<(), String> { match self { Pc::Multi(c) => c.close_file(f), Pc::Single(c) => c.close_file(f) }.map_err(|e| format!("{:?}", e)) }
}

/// files: (seed, len) per file; file ids are handed out 1,2,.. in order by the implementation (observed, not assumed).
/// The oracle works on bytes, not on pages: a byte returned by a read must be the byte the file holds now; only a byte
/// that somebody rewrote without telling the cache (op 7) may still show a value it held since the last invalidation
/// (invalidate_range / invalidate_page / close_file) that covered it.
fn pc_history(cx: &mut Ctx, single: bool, preset: u64, capbytes: usize, files: &[(u64, u64)], ops: &[POp], force: bool) {
    let has_ow = ops.iter().any(|o| o.0 == 6);
    let has_rw = ops.iter().any(|o| o.0 == 7);
    let has_close = ops.iter().any(|o| o.0 == 8);
    let cell = if single { "SingleLruPageCache".to_string() }
               else if has_close { "LruPageCache/close_file".to_string() }
               else if has_rw { "LruPageCache/rewrite-then-invalidate_range".to_string() }
               else if has_ow { "LruPageCache/overwrite+invalidate".to_string() }
               else { format!("LruPageCache/{}", ["balanced", "performance", "memory", "security"][(preset % 4) as usize]) };
    cx.sum.eval(&cell, &format!("pc {} {} {} {:?} {:?}", single, preset, capbytes, files, ops), ops.len() >= 3);
    let cj = json!({"cell": "pc", "single": single, "preset": preset, "capbytes": capbytes,
                    "files": files.iter().map(|f| json!([f.0, f.1])).collect::<Vec<_>>(), "ops": pops_json(ops)});
    let cache = match guarded(|| if single { SingleLruPageCache::new(pc_config(preset, capbytes)).map(Pc::Single) } else { LruPageCache::new(pc_config(preset, capbytes)).map(Pc::Multi) }) {
        Ok(Ok(c)) => c,
        Ok(Err(e)) => { cx.sum.fail(&cell, None, cj, &format!("constructor refused: {:?}", e)); return; }
        Err(p) => { cx.sum.fail(&cell, None, cj, &format!("constructor panicked: {}", p)); return; }
    };
    let mut contents: Vec<Vec<u8>> = vec![];
    let mut paths: Vec<String> = vec![];
    let mut fids: Vec<u32> = vec![];
    let mut fails: Vec<String> = vec![];
    // Refused requests: a request that names a file id the cache has not handed out (op 11: before any file is opened, so that the ids
    // it names are the ones the files of this history are about to get; op 10: in the middle of the history, ids above every id in use).
    // Whether such a request is answered by an error or by "nothing there" is the library's business; it must not panic, must not
    // return bytes, and must leave the cache as it was: everything the history does afterwards is judged as in any other history (and
    // the Coq replay does not see these requests at all, so a trace of them in the cache state is a disagreement with the model too).
    let refused_request = |cache: &Pc, id: u32, kind: u64, arg: u64, fails: &mut Vec<String>| {
        let what = ["read", "prefetch", "invalidate_page", "invalidate_range", "close_file", "read of three pages", "read into a buffer", "read_batch-style second read"][(kind % 8) as usize];
        let r = guarded(|| -> Result<usize, String> { match kind % 8 {
            0 => cache.read(id, arg, 100, 0).map(|g| g.len()),
            1 => cache.prefetch(id, arg, 5000).map(|_| 0),
            2 => cache.inv_page(id, (arg / PAGE_SIZE as u64) as u32).map(|_| 0),
            3 => cache.inv_range(id, arg, 5000).map(|_| 0),
            4 => cache.close(id).map(|_| 0),
            5 => cache.read(id, 0, 3 * PAGE_SIZE, 0).map(|g| g.len()),
            6 => cache.read(id, arg, 64, 5).map(|g| g.len()),
            _ => { let _ = cache.read(id, arg, 10, 0); cache.read(id, arg, 10, 4).map(|g| g.len()) } } });
        match r { Err(p) => fails.push(format!("{} on file id {} (never handed out) panicked: {}", what, id, p)),
                  Ok(Ok(n)) if n > 0 => fails.push(format!("{} on file id {} (never handed out) returned {} bytes", what, id, n)),
                  _ => {} }
    };
    for &(c, id, kind, arg) in ops { if c == 11 { refused_request(&cache, 1 + (id % 3) as u32, kind, arg, &mut fails); cx.sum.dist("pc_refused_before_open"); } }
    for (seed, len) in files {
        cx.fileno += 1;
        let p = format!("{}/f{}", cx.tmp, cx.fileno);
        let data = gen_file(*seed, *len);
        std::fs::write(&p, &data).expect("write test file");
        match cache.open(&p) { Ok(f) => fids.push(f), Err(e) => { cx.sum.fail(&cell, None, cj, &format!("open_file failed: {}", e)); return; } }
        contents.push(data);
        paths.push(p);
    }
    // per file: byte index -> values the byte held since the cache was last told about it
    let mut alts: Vec<HashMap<u64, Vec<u8>>> = files.iter().map(|_| HashMap::new()).collect();
    let mut closed: Vec<bool> = files.iter().map(|_| false).collect();
    let mut mops: Vec<String> = vec![]; // model ops, encoding of Model.pc_step_h
    let mut mobs: Vec<String> = vec![];
    let mut xops: Vec<String> = vec![]; // model ops, encoding of ModelInval.x_step_h / s_step_h
    let mut xobs: Vec<String> = vec![];
    let mut modelled = files.len() <= 2;
    let legacy = !single && !has_rw && !has_close;
    let size_deterministic = capbytes / PAGE_SIZE >= 32;   // nothing is evicted, so the page count does not depend on which page a tie evicts
    let unit = coq_n_list(digest(&[]));
    for &(c, fi, a, b) in ops {
        if c == 11 { continue; }
        if c == 10 {
            let id = fids.iter().copied().max().unwrap_or(0).saturating_add(1 + (fi % 3) as u32);
            let before = if let Pc::Single(sc) = &cache { guarded(|| sc.size()).ok() } else { None };
            refused_request(&cache, id, a, b, &mut fails);
            cx.sum.dist("pc_refused_in_history");
            if let (Pc::Single(sc), Some(n0)) = (&cache, before) {
                if let Ok(n1) = guarded(|| sc.size()) { if n1 > n0 { fails.push(format!("a refused request on file id {} (never handed out) left {} pages in the cache where {} were", id, n1, n0)); } }
            }
            continue;
        }
        let fi = (fi as usize) % files.len().max(1);
        let fid = fids[fi];
        match c {
            0 | 4 | 5 => {
                // a closed id has no underlying file: the property says nothing about absurd requests on it (the code does not clamp them)
                if closed[fi] && (a >= 1 << 40 || b >= 1 << 22) { continue; }
                let want: Vec<u8> = if closed[fi] { vec![] } else { let d = &contents[fi]; let s = (a as usize).min(d.len()); let e = (a as usize).saturating_add(b as usize).min(d.len()); d[s..e].to_vec() };
                match guarded(|| cache.read(fid, a, b as usize, c)) {
                    Ok(Ok(got)) => {
                        let base = (a as usize).min(contents[fi].len()) as u64;
                        let fresh = got.len() == want.len() && got.iter().enumerate().all(|(i, &g)| g == want[i] || alts[fi].get(&(base + i as u64)).map_or(false, |v| v.contains(&g)));
                        if !fresh {
                            fails.push(if closed[fi] { format!("read(closed file {}, offset {}, length {}) returned {} bytes", fi, a, b, got.len()) }
                                       else { format!("read(file {} of {} bytes, offset {}, length {}) returned {} bytes, the file has {} in that range{}", fi, contents[fi].len(), a, b, got.len(), want.len(),
                                if got.len() == want.len() { " (different bytes)" } else { "" }) });
                        }
                        if c == 4 { mops.push(format!("(1, {}, {}, {})", fid, a + b, b)); mobs.push(unit.clone()); }
                        mops.push(format!("(0, {}, {}, {})", fid, a, b));
                        mobs.push(coq_n_list(digest(&got)));
                        if single {
                            if c == 4 { xops.push(format!("(1, {}, {}, {})", fid, a + b, b)); xobs.push(unit.clone()); }
                            xops.push(format!("({}, {}, {}, {})", if c == 5 { 8 } else { 0 }, fid, a, b));
                        } else { xops.push(format!("({}, {}, {}, {})", if c == 4 { 7 } else { 0 }, fid, a, b)); }
                        xobs.push(coq_n_list(digest(&got)));
                    }
                    Ok(Err(e)) => { if !closed[fi] { fails.push(format!("read(offset {}, length {}) failed: {}", a, b, e)); } modelled = false; }
                    Err(p) => { fails.push(format!("read(offset {}, length {}) panicked: {}", a, b, p)); modelled = false; }
                }
            }
            1 => { match guarded(|| cache.prefetch(fid, a, b as usize)) { Ok(Ok(())) => {}, Ok(Err(e)) => { fails.push(format!("prefetch failed: {}", e)); modelled = false; } Err(p) => { fails.push(format!("prefetch panicked: {}", p)); modelled = false; } }
                   mops.push(format!("(1, {}, {}, {})", fid, a, b)); mobs.push(unit.clone());
                   xops.push(format!("(1, {}, {}, {})", fid, a, b)); xobs.push(unit.clone()); }
            2 => { match guarded(|| cache.inv_page(fid, a as u32)) { Ok(Ok(())) => { let lo = a * PAGE_SIZE as u64; alts[fi].retain(|&i, _| !(i >= lo && i < lo + PAGE_SIZE as u64)); }, Ok(Err(e)) => { fails.push(format!("invalidate_page failed: {}", e)); modelled = false; } Err(p) => { fails.push(format!("invalidate_page panicked: {}", p)); modelled = false; } }
                   mops.push(format!("(2, {}, {}, 0)", fid, a)); mobs.push(unit.clone());
                   xops.push(format!("(2, {}, {}, 0)", fid, a)); xobs.push(unit.clone()); }
            3 => { match guarded(|| cache.inv_range(fid, a, b as usize)) { Ok(Ok(())) => { alts[fi].retain(|&i, _| !(i >= a && (i as u128) < a as u128 + b as u128)); }, Ok(Err(e)) => { fails.push(format!("invalidate_range failed: {}", e)); modelled = false; } Err(p) => { fails.push(format!("invalidate_range panicked: {}", p)); modelled = false; } }
                   mops.push(format!("(3, {}, {}, {})", fid, a, b)); mobs.push(unit.clone());
                   xops.push(format!("(3, {}, {}, {})", fid, a, b)); xobs.push(unit.clone()); }
            6 | 7 => {
                // rewrite [a, a+b) inside the file (same size); 6: then the explicit invalidation the property speaks of
                if closed[fi] { continue; }
                let d = &mut contents[fi];
                let s = (a as usize).min(d.len()); let e = (a as usize).saturating_add(b as usize).min(d.len());
                if s < e {
                    for (i, x) in d[s..e].iter_mut().enumerate() { alts[fi].entry((s + i) as u64).or_default().push(*x); *x = x.wrapping_mul(3).wrapping_add(i as u8).wrapping_add(101); }
                    std::fs::write(&paths[fi], &*d).expect("rewrite test file");
                    if c == 6 {
                        match guarded(|| cache.inv_range(fid, s as u64, e - s)) { Ok(Ok(())) => { alts[fi].retain(|&i, _| !(i >= s as u64 && i < e as u64)); }, Ok(Err(er)) => { fails.push(format!("invalidate_range failed: {}", er)); modelled = false; } Err(p) => { fails.push(format!("invalidate_range panicked: {}", p)); modelled = false; } }
                        mops.push(format!("(4, {}, {}, {})", fid, s, e - s)); mobs.push(unit.clone());
                    }
                    xops.push(format!("({}, {}, {}, {})", if c == 6 { 4 } else { 5 }, fid, s, e - s)); xobs.push(unit.clone());
                }
            }
            8 => {
                match guarded(|| cache.close(fid)) {
                    Ok(r) => {
                        if r.is_err() && !closed[fi] { fails.push(format!("close_file(file {}) failed: {:?}", fi, r)); }
                        if r.is_ok() { closed[fi] = true; alts[fi].clear(); }
                        xops.push(format!("(6, {}, 0, 0)", fid)); xobs.push(coq_n_list(digest(&[r.is_ok() as u8])));
                    }
                    Err(p) => { fails.push(format!("close_file panicked: {}", p)); modelled = false; }
                }
            }
            _ => {
                if let Pc::Single(sc) = &cache {
                    match guarded(|| (sc.size(), sc.capacity())) {
                        Ok((n, cap)) => {
                            if n > (cap / PAGE_SIZE).max(1) { fails.push(format!("size() = {} pages, capacity {} bytes", n, cap)); }
                            if size_deterministic { xops.push("(9, 0, 0, 0)".to_string()); xobs.push(coq_n_list(digest_vals(&[n as u128]))); }
                        }
                        Err(p) => { fails.push(format!("size() panicked: {}", p)); modelled = false; }
                    }
                }
            }
        }
    }
    for p in &paths { let _ = std::fs::remove_file(p); }
    if let Some(f) = fails.first() { cx.sum.fail(&cell, None, cj.clone(), f); }
    if !modelled { return; }
    let fs = format!("[{}]", files.iter().zip(fids.iter()).map(|((s, l), f)| format!("({}, ({}, {}))", f, s, l)).collect::<Vec<_>>().join("; "));
    if legacy {
        if force || cx.n_pc < cx.budget_pc {
            cx.n_pc += 1;
            cx.terms[2].push((format!("CPc {} {} {} [{}] [{}]", PAGE_SIZE, pc_config(preset, capbytes).capacity, fs, mops.join("; "), mobs.join("; ")), cj));
        }
    } else {
        let t = if single { T_PS } else { T_PX };
        if force || cx.n_x[t] < cx.budget_x[t] {
            cx.n_x[t] += 1;
            cx.terms[t].push((format!("{} {} {} {} [{}] [{}]", if single { "CPs" } else { "CPx" }, PAGE_SIZE, pc_config(preset, capbytes).capacity, fs, xops.join("; "), xobs.join("; ")), cj));
        }
    }
}

/// extra: 0 the operations of the first version | 1 also rewrite-without-invalidation (7) and close_file (8) | 2 also size() (Single)
fn gen_pops(r: &mut Rng, files: &[(u64, u64)], n: usize, with_overwrite: bool, extra: u8) -> Vec<POp> {
    let ps = PAGE_SIZE as u64;
    let mut ops = vec![];
    // one history in six starts with requests on the ids its files are about to get (nothing is open yet)
    if r.chance(1, 6) { for _ in 0..r.range(1, 3) { ops.push((11, r.below(3), r.below(8), *r.pick(&[0u64, 1, ps - 1, ps, 2 * ps + 7]))); } }
    for _ in 0..n {
        let fi = r.below(files.len() as u64);
        let flen = files[fi as usize].1;
        let npages = flen / ps + 2;
        // offsets at page boundaries, at the end of file, inside the short last page, beyond EOF
        let off = match r.below(9) {
            0 => 0,
            1 => (r.below(npages) * ps).saturating_sub(r.below(3)),
            2 => r.below(npages) * ps + r.below(3),
            3 => flen.saturating_sub(r.below(300)),
            4 => flen + r.below(3),
            5 => (flen / ps) * ps + r.below(ps.min(flen % ps + 2)),
            6 => flen + ps * r.below(3) + r.below(100),
            _ => r.below(flen + 1),
        };
        let len = match r.below(9) {
            0 => 0,
            1 => 1,
            2 => ps - off % ps,                         // up to the page boundary
            3 => ps - off % ps + 1 + r.below(2),        // just across it
            4 => flen.saturating_sub(off),              // exactly to EOF
            5 => flen.saturating_sub(off) + 1 + r.below(200), // beyond EOF
            6 => ps + r.below(2 * ps),                  // several pages
            7 => r.below(300),
            _ => r.below(3 * ps),
        };
        if r.chance(1, 12) {
            // extreme requests: page ids that do not fit 32 bits, offset + length beyond u64, "read everything"
            let (o, l) = match r.below(5) {
                0 => ((1u64 << 44) + r.below(5000), 1 + r.below(5000)),
                1 => (u64::MAX - r.below(3), 1 + r.below(10)),
                2 => (r.below(ps), (1u64 << 44) + r.below(10)),
                3 => (1u64 << 63, r.below(100)),
                _ => (off, 64 * 1024 * 1024),
            };
            ops.push((if r.chance(1, 4) { 5 } else { 0 }, fi, o, l));
            continue;
        }
        if extra > 0 && r.chance(1, 7) {
            match r.below(if extra == 2 { 12 } else { 10 }) {
                0 => ops.push((8, fi, 0, 0)),
                1..=6 => { ops.push((7, fi, off, len.min(2 * ps)));
                           // the cache is told later, about a range that covers the rewrite, only part of it, or another one
                           if r.chance(1, 2) { ops.push((0, fi, off.saturating_sub(r.below(10)), len.min(2 * ps) + r.below(20))); }
                           match r.below(4) { 0 => ops.push((3, fi, off.saturating_sub(r.below(ps)), len.min(2 * ps) + ps)),
                                              1 => ops.push((3, fi, off, len.min(2 * ps))),
                                              2 => ops.push((3, fi, off + len.min(2 * ps) / 2, len)),
                                              _ => {} } }
                7..=9 => ops.push((0, fi, 0, flen)),
                _ => ops.push((9, 0, 0, 0)),
            }
            continue;
        }
        // a request on a file id that was never handed out, between the others (one operation in twenty-five)
        if r.chance(1, 25) { ops.push((10, r.below(3), r.below(8), *r.pick(&[0u64, 1, ps - 1, ps, flen, 3 * ps + 5]))); continue; }
        let c = r.below(100);
        let op = if c < 55 { 0 } else if c < 62 { 4 } else if c < 68 { 5 } else if c < 78 { 1 } else if c < 86 { 2 } else if c < 93 { 3 } else if with_overwrite { 6 } else { 0 };
        if op == 2 { ops.push((2, fi, r.below(npages + 1), 0)); } else { ops.push((op as u8, fi, off, len)); }
    }
    ops
}

// ---------------------------------------------------------------------------------------------
// cached blob store
// ---------------------------------------------------------------------------------------------
type BOp = (u8, u64, u64); // 0 put(len a, seed b) | 1 get(a-th id) | 2 remove(a-th id) | 3 flush | 4 prefetch_range(a, b) | 5 disable | 6 enable
                           // 7 set strategy a | 8 read the shared file through the shared cache (off a, len b)
                           // 9 rewrite [a, a+b) of the shared file and invalidate that range in the shared cache
fn bops_json(ops: &[BOp]) -> Value { json!(ops.iter().map(|o| json!([o.0, o.1, o.2])).collect::<Vec<_>>()) }

fn blob_history(cx: &mut Ctx, strategy: u64, preset: u64, capbytes: usize, shared: bool, ops: &[BOp], force: bool) {
    let sname = ["WriteThrough", "WriteBack", "WriteAround"][(strategy % 3) as usize];
    let cell = format!("CachedBlobStore/{}{}", sname, if shared { "/shared-cache" } else { "" });
    cx.sum.eval(&cell, &format!("blob {} {} {} {} {:?}", strategy, preset, capbytes, shared, ops), ops.len() >= 3);
    let cj = json!({"cell": "blob", "strategy": strategy, "preset": preset, "capbytes": capbytes, "shared": shared, "ops": bops_json(ops)});
    let strat = |s: u64| match s % 3 { 1 => CacheWriteStrategy::WriteBack, 2 => CacheWriteStrategy::WriteAround, _ => CacheWriteStrategy::WriteThrough };
    let mut fails: Vec<String> = vec![];
    let mut shared_file: Option<(String, Vec<u8>)> = None;
    // every call made on the store / the shared cache, in the encoding of ModelBlob.dec_bop, with what it returned
    let mut mops: Vec<String> = vec![];
    let mut mobs: Vec<String> = vec![];
    let mut real_fid: u32 = 0;
    let flen = 3 * PAGE_SIZE as u64 + 17;
    let r = guarded(|| -> Result<(), String> {
        let e = |x: zipora::error::ZiporaError| format!("{:?}", x);
        let mut shared_cache: Option<(Arc<LruPageCache>, u32)> = None;
        let mut store = if shared {
            let cache = Arc::new(LruPageCache::new(pc_config(preset, capbytes)).map_err(e)?);
            cx.fileno += 1;
            let p = format!("{}/b{}", cx.tmp, cx.fileno);
            let data = gen_file(5, flen);
            std::fs::write(&p, &data).map_err(|x| x.to_string())?;
            let fid = cache.open_file(&p).map_err(e)?;
            real_fid = fid;
            shared_file = Some((p, data));
            shared_cache = Some((cache.clone(), fid));
            CachedBlobStore::with_cache_and_strategy(MemoryBlobStore::new(), cache, strat(strategy)).map_err(e)?
        } else {
            CachedBlobStore::with_write_strategy(MemoryBlobStore::new(), pc_config(preset, capbytes), strat(strategy)).map_err(e)?
        };
        let mut ids: Vec<u32> = vec![];
        let mut shadow: HashMap<u32, Vec<u8>> = HashMap::new();
        let mut get = |store: &CachedBlobStore<MemoryBlobStore>, id: u32, mops: &mut Vec<String>, mobs: &mut Vec<String>| -> Option<Vec<u8>> {
            let got = store.get(id).ok();
            mops.push(format!("(1, {}, 0)", id));
            mobs.push(match &got { Some(g) => { let mut d = vec![1u128]; d.extend(digest(g)); coq_n_list(d) } None => coq_n_list(vec![0u128]) });
            got
        };
        for &(c, a, b) in ops {
            match c {
                0 => { let data = gen_file(b, a); let id = store.put(&data).map_err(e)?;
                       mops.push(format!("(0, {}, {})", a, b)); mobs.push(coq_n_list(vec![1u128, id as u128]));
                       if shadow.contains_key(&id) { fails.push(format!("put returned id {} which is still in use", id)); }
                       shadow.insert(id, data); ids.push(id); }
                1 | 2 if a >= 1000 => {
                    // refused requests inside the history: an id no put ever returned.  get / size / contains answer "not there", remove is
                    // an error, and the store is as it was (len() right below, every later get, the final read-back of all blobs); the
                    // Coq replay does not see these calls, so a trace of them in the store or the cache is a disagreement there too
                    let id = 0x7000_0000u32 + (a as u32 & 0xFFFF) + ids.iter().copied().max().unwrap_or(0);
                    if shadow.contains_key(&id) { continue; }
                    cx.sum.dist("blob_refused_unknown_id");
                    if c == 1 {
                        if let Ok(g) = store.get(id) { fails.push(format!("get({}) of an id that was never handed out returned {} bytes", id, g.len())); }
                        if let Ok(Some(n)) = store.size(id) { fails.push(format!("size({}) of an id that was never handed out = {}", id, n)); }
                        if store.contains(id) { fails.push(format!("contains({}) of an id that was never handed out", id)); }
                    } else if store.remove(id).is_ok() { fails.push(format!("remove({}) of an id that was never handed out succeeded", id)); }
                }
                1 | 2 => {
                    if ids.is_empty() { continue; }
                    let id = ids[(a as usize) % ids.len()];
                    if c == 1 {
                        let got = get(&store, id, &mut mops, &mut mobs);
                        let inner = store.inner().get(id).ok();
                        let want = shadow.get(&id).cloned();
                        if got != inner { fails.push(format!("get({}) returned {:?} bytes, the wrapped store returns {:?} bytes{}", id, got.as_ref().map(|g| g.len()), inner.as_ref().map(|g| g.len()),
                            if got.as_ref().map(|g| g.len()) == inner.as_ref().map(|g| g.len()) { " (different bytes)" } else { "" })); }
                        else if got != want { fails.push(format!("get({}) differs from the bytes put", id)); }
                        let sz = store.size(id).ok().flatten();
                        mops.push(format!("(9, {}, 0)", id)); mobs.push(coq_n_list(match sz { Some(n) => vec![1u128, n as u128], None => vec![0u128] }));
                        if sz != want.as_ref().map(|w| w.len()) { fails.push(format!("size({}) wrong", id)); }
                        let has = store.contains(id);
                        mops.push(format!("(10, {}, 0)", id)); mobs.push(coq_n_list(vec![has as u128]));
                        if has != want.is_some() { fails.push(format!("contains({}) wrong", id)); }
                    } else {
                        let was = shadow.remove(&id).is_some();
                        let r = store.remove(id);
                        mops.push(format!("(2, {}, 0)", id)); mobs.push(coq_n_list(vec![r.is_ok() as u128]));
                        if r.is_ok() != was { fails.push(format!("remove({}) = {:?}, present = {}", id, r.is_ok(), was)); }
                        if get(&store, id, &mut mops, &mut mobs).is_some() { fails.push(format!("get({}) after remove still returns data", id)); }
                    }
                }
                3 => { store.flush().map_err(e)?; mops.push("(3, 0, 0)".into()); mobs.push(coq_n_list(Vec::<u128>::new())); }
                4 => { store.prefetch_range(a, b as usize).map_err(e)?; mops.push(format!("(4, {}, {})", a, b)); mobs.push(coq_n_list(Vec::<u128>::new())); }
                5 => { store.disable_cache(); mops.push("(5, 0, 0)".into()); mobs.push(coq_n_list(Vec::<u128>::new())); }
                6 => { store.enable_cache(); mops.push("(6, 0, 0)".into()); mobs.push(coq_n_list(Vec::<u128>::new())); }
                7 => { store.set_write_strategy(strat(a)); mops.push(format!("(7, {}, 0)", a % 3)); mobs.push(coq_n_list(Vec::<u128>::new())); }
                8 => { if let (Some((cache, fid)), Some((_, data))) = (&shared_cache, &shared_file) {
                           let got = cache.read(*fid, a, b as usize).map_err(e)?.data().to_vec();
                           mops.push(format!("(8, {}, {})", a, b)); mobs.push(coq_n_list(digest(&got)));
                           let s = (a as usize).min(data.len()); let en = (a as usize + b as usize).min(data.len());
                           if got != data[s..en] { fails.push(format!("shared cache: read(real file, {}, {}) returned {} bytes, the file has {}{}", a, b, got.len(), en - s, if got.len() == en - s { " (different bytes)" } else { "" })); }
                       } }
                _ => { if let (Some((cache, fid)), Some((p, data))) = (&shared_cache, &mut shared_file) {
                           let s = (a as usize).min(data.len()); let en = (a as usize + b as usize).min(data.len());
                           if s < en {
                               for (i, x) in data[s..en].iter_mut().enumerate() { *x = x.wrapping_mul(3).wrapping_add(i as u8).wrapping_add(101); }
                               std::fs::write(&*p, &*data).map_err(|x| x.to_string())?;
                               cache.invalidate_range(*fid, s as u64, en - s).map_err(e)?;
                               mops.push(format!("(12, {}, {})", s, en - s)); mobs.push(coq_n_list(Vec::<u128>::new()));
                           }
                       } }
            }
            let n = store.len();
            mops.push("(11, 0, 0)".into()); mobs.push(coq_n_list(vec![n as u128]));
            if n != shadow.len() { fails.push(format!("len() = {}, {} blobs stored", n, shadow.len())); }
        }
        let mut left: Vec<u32> = shadow.keys().copied().collect();
        left.sort();
        for id in left {
            if get(&store, id, &mut mops, &mut mobs).as_ref() != shadow.get(&id) { fails.push(format!("at the end get({}) differs from the bytes put", id)); break; }
        }
        Ok(())
    });
    if let Some((p, _)) = &shared_file { let _ = std::fs::remove_file(p); }
    let mut modelled = true;
    match r { Ok(Ok(())) => {}, Ok(Err(e)) => { fails.push(format!("operation failed: {}", e)); modelled = false; } Err(p) => { fails.push(format!("panicked: {}", p)); modelled = false; } }
    if let Some(f) = fails.first() { cx.sum.fail(&cell, None, cj.clone(), f); }
    if modelled && (force || cx.n_x[T_BLOB] < cx.budget_x[T_BLOB]) {
        cx.n_x[T_BLOB] += 1;
        // register_file(-1) takes the next file id: 1 on a cache of its own, 2 behind the one real file of the shared cache
        let (fs, rf, vfid) = if shared { (format!("[({}, (5, {}))]", real_fid, flen), real_fid, real_fid + 1) } else { ("[]".to_string(), 0, 1) };
        cx.terms[T_BLOB].push((format!("CBlob {} {} {} {} {} {} [{}] [{}]", PAGE_SIZE, pc_config(preset, capbytes).capacity, fs, rf, vfid, strategy % 3, mops.join("; "), mobs.join("; ")), cj));
    }
}

fn gen_bops(r: &mut Rng, n: usize, shared: bool) -> Vec<BOp> {
    let ps = PAGE_SIZE as u64;
    let mut ops = vec![];
    for _ in 0..n {
        let c = r.below(100);
        if c < 35 { let len = *r.pick(&[0u64, 1, 7, 100, ps - 1, ps, ps + 1, 2 * ps + 5, 300]); ops.push((0, len, r.below(250))); }
        else if c < 65 { ops.push((1, if r.chance(1, 12) { 1000 + r.below(5) } else { r.below(16) }, 0)); }
        else if c < 75 { ops.push((2, if r.chance(1, 8) { 1000 + r.below(5) } else { r.below(16) }, 0)); }
        else if c < 79 { ops.push((3, 0, 0)); }
        else if c < 84 { ops.push((4, r.below(3 * ps), r.below(2 * ps))); }
        else if c < 87 { ops.push((5, 0, 0)); }
        else if c < 91 { ops.push((6, 0, 0)); }
        else if c < 94 { ops.push((7, r.below(3), 0)); }
        else if shared { if r.chance(1, 4) { ops.push((9, r.below(3 * ps + 17), 1 + r.below(ps + 200))); } ops.push((8, r.below(3 * ps + 40), r.below(2 * ps))); }
        else { ops.push((1, r.below(16), 0)); }
    }
    ops
}

// ---------------------------------------------------------------------------------------------
// FsaCache: bounded, and get_state never returns another state's data
// ---------------------------------------------------------------------------------------------
fn fsa_history(cx: &mut Ctx, max_states: usize, strategy: u64, ops: &[(u8, u64, u64)]) {
    let cell = "FsaCache";
    cx.sum.eval(cell, &format!("fsa {} {} {:?}", max_states, strategy, ops), ops.len() > max_states);
    cx.sum.cell_status(cell, "S-only");
    let cj = json!({"cell": "fsa", "max_states": max_states, "strategy": strategy, "ops": bops_json(ops)});
    let mut fails: Vec<String> = vec![];
    let r = guarded(|| -> Result<(), String> {
        let cfg = FsaCacheConfig { max_states, strategy: match strategy % 3 { 1 => CacheStrategy::DepthFirst, 2 => CacheStrategy::CacheFriendly, _ => CacheStrategy::BreadthFirst }, ..FsaCacheConfig::small() };
        let mut c = FsaCache::with_config(cfg).map_err(|e| format!("{:?}", e))?;
        let mut last: HashMap<u32, (u32, u32, bool)> = HashMap::new(); // id -> most recent state cached under it
        let mut ids: Vec<u32> = vec![];
        for &(op, a, b) in ops {
            match op {
                0 => { let n0 = c.stats().cached_states;
                       let id = c.cache_state(a as u32 & 0xFF_FFFF, b as u32, a % 2 == 1).map_err(|e| format!("{:?}", e))?;
                       // below max_states nothing is evicted: one more state is cached (an id handed out twice would overwrite one instead)
                       if n0 < max_states && c.stats().cached_states != n0 + 1 { fails.push(format!("cache_state with {} of {} states cached returned id {} and left {} states cached", n0, max_states, id, c.stats().cached_states)); }
                       last.insert(id, (a as u32 & 0xFF_FFFF, b as u32, a % 2 == 1)); if !ids.contains(&id) { ids.push(id); } }
                1 => { if ids.is_empty() { continue; } let id = ids[(a as usize) % ids.len()];
                       if let Some(s) = c.get_state(id) {
                           let w = last[&id];
                           if (s.parent(), s.child_base, s.is_terminal()) != w { fails.push(format!("get_state({}) = {:?}, most recently cached {:?}", id, (s.parent(), s.child_base, s.is_terminal()), w)); }
                       } }
                2 => { if ids.is_empty() { continue; } let id = ids[(a as usize) % ids.len()];
                       c.remove_state(id);
                       if c.get_state(id).is_some() { fails.push(format!("get_state({}) after remove_state returns a state", id)); } }
                _ => { c.clear(); for &id in &ids { if c.get_state(id).is_some() { fails.push(format!("get_state({}) after clear", id)); } } ids.clear(); last.clear(); }
            }
            if c.stats().cached_states > max_states.max(1) { fails.push(format!("{} states cached, max_states {}", c.stats().cached_states, max_states)); }
        }
        Ok(())
    });
    match r { Ok(Ok(())) => {}, Ok(Err(e)) => fails.push(format!("operation failed: {}", e)), Err(p) => fails.push(format!("panicked: {}", p)) }
    if let Some(f) = fails.first() { cx.sum.fail(cell, None, cj, f); }
}

#[path = "c17_wide.rs"]
mod wide;

// ---------------------------------------------------------------------------------------------
fn run_one(cx: &mut Ctx, c: &Value) {
    if wide::run_one_wide(cx, c) { return; }
    let u = |k: &str| c[k].as_u64().unwrap_or(0);
    match c["cell"].as_str() {
        Some("lru") => lru_history(cx, u("cap") as usize, u("preset"), u("nkeys"), &parse_ops(&c["ops"]), true),
        Some("cmap") => cmap_history(cx, u("total") as usize, u("nshards") as usize, u("preset"), u("strategy"), u("nkeys"), &parse_ops(&c["ops"]), true),
        Some("rr") => rr_history(cx, u("total") as usize, u("nshards") as usize, u("preset"), &parse_ops(&c["ops"]), true),
        Some("ta") => {
            let tops: Vec<(u64, Op)> = c["ops"].as_array().map(|a| a.iter().filter_map(|o| { let o = o.as_array()?; Some((o.get(0)?.as_u64()?, (o.get(1)?.as_u64()? as u8, o.get(2)?.as_u64()?, o.get(3)?.as_u64()?))) }).collect()).unwrap_or_default();
            ta_history(cx, u("total") as usize, u("nshards") as usize, u("nthreads") as usize, &tops, true)
        }
        Some("affinity") => affinity_case(cx, u("nshards") as usize, u("nthreads") as usize),
        Some("threads") => threads_case(cx, u("nshards") as usize, u("iters")),
        Some("pc") => {
            let files: Vec<(u64, u64)> = c["files"].as_array().map(|a| a.iter().map(|f| (f[0].as_u64().unwrap_or(0), f[1].as_u64().unwrap_or(0))).collect()).unwrap_or_default();
            if files.is_empty() { return; }
            pc_history(cx, c["single"].as_bool().unwrap_or(false), u("preset"), u("capbytes") as usize, &files, &parse_pops(&c["ops"]), true)
        }
        Some("blob") => blob_history(cx, u("strategy"), u("preset"), u("capbytes") as usize, c["shared"].as_bool().unwrap_or(false), &parse_ops(&c["ops"]), true),
        Some("fsa") => fsa_history(cx, u("max_states") as usize, u("strategy"), &parse_ops(&c["ops"])),
        _ => {}
    }
}

fn enumerate_lru(cx: &mut Ctx, maxlen: usize) {
    // every history of at most maxlen operations over 3 keys, capacity 2 (and capacity 1 for the short ones)
    let alphabet: Vec<(u8, u64)> = vec![(0, 0), (0, 1), (0, 2), (1, 0), (1, 1), (1, 2), (2, 0), (2, 1), (2, 2), (4, 0)];
    let mut idx = vec![0usize; maxlen];
    for len in 1..=maxlen {
        for cap in [1usize, 2] {
            if cap == 1 && len + 1 > maxlen && maxlen > 3 { continue; }
            for i in idx.iter_mut() { *i = 0; }
            loop {
                let ops: Vec<Op> = (0..len).map(|p| { let (c, k) = alphabet[idx[p]]; (c, k, 10 + p as u64) }).collect();
                lru_history(cx, cap, 0, 3, &ops, false);
                cx.sum.dist("lru_enumerated");
                let mut p = 0;
                while p < len { idx[p] += 1; if idx[p] < alphabet.len() { break; } idx[p] = 0; p += 1; }
                if p == len { break; }
            }
        }
    }
}

pub fn run(args: &Args) {
    let tmp = format!("{}/zv_c17_{}", std::env::temp_dir().display(), std::process::id());
    std::fs::create_dir_all(&tmp).expect("temp dir");
    let th = args.thorough;
    let mut cx = Ctx {
        sum: Summary::new("C17", "LruMap / ConcurrentLruMap: every get/put/remove/contains/clear/len history of <= 4 (quick) or 5 (thorough) operations over 3 keys at capacity 1 and 2, plus generated histories of up to 120 operations over cap+1..cap+3 keys at capacities 1..4 (eviction on most puts), 4 config presets, shard counts 1,2,4,8, three routing strategies, a recording eviction callback; each result, the callback invocations of each step, len and final retrievability compared with a time-stamped reference and with the Coq model. Page cache: files of 0, 1, PAGE-1, PAGE, PAGE+1, 2*PAGE+100, 3*PAGE+17, 5*PAGE bytes, cache of 0..3 pages and large, reads at offsets/lengths at page boundaries, inside the short last page, straddling, beyond EOF, with prefetch, invalidate_page/range, overwrite+invalidate, read_batch, read_with_prefetch; bytes compared with the file and (digest) with the Coq model. Also: the file rewritten without telling the cache and invalidate_range as a later call (same, covering, partial, other range or none), close_file, SingleLruPageCache with a used buffer and size(). CachedBlobStore: put/get/remove/flush/prefetch/enable/disable histories for 3 write strategies with own and shared cache (blobs of 0..2*PAGE+5 bytes, a real file read / rewritten through the shared cache), compared with the wrapped store and with the Coq model over a MemoryBlobStore model. RoundRobin: one call per operation against the counter model; ThreadAffinity: 1-4 worker threads, observed shard per thread, per-shard reference LRU. Oracle breadth (c17_wide.rs, oracle only): LruMap / ConcurrentLruMap through all four constructors each, 8 key / value type pairs (String, u8, signed, zero-sized, bool, tuples, byte vectors), is_empty / capacity / statistics bound, shard_sizes / shard_count / keys / rebalance / for_each_shard / shard_stats after every kind of operation, presets as shipped (4 x 512, 16 x 1024 filled; 2 x CPUs x 8192 constructed), capacities 255..257, 65535..65537, 2^20+1 and 512 / 1024 / 8192 as shipped through 10^4..10^6 generated operations (kind, n, seed); page cache histories with mark_dirty / flush_file / file_size / register_file / a second id of one path / reopen after close / multi-request read_batch / read_with_prefetch with any look-ahead and extreme offsets / reused, pooled and held buffers / config options (prefetch, statistics, page_size, huge pages, load factor, 64 shards), a sparse 4 GiB file (page ids beyond 2^16 and 2^20), files larger than the 2 MiB huge-page minimum and than the 32 MiB shipped preset; CacheBuffer + BufferPool against a Vec<u8>; FileManager directly; CachedBlobStore through the short constructors, over a nested CachedBlobStore and a PlainBlobStore, two stores and a real file on one cache, inner_mut, blobs of 64 KiB..1 MiB; FsaCache presets, zero paths, is_full, the state word. non-trivial = more puts than capacity / history of >= 3 operations"),
        shards: CoqShards::new(HEADER, 75),
        budget_lru: if th { 6000 } else { 700 }, budget_cmap: if th { 2000 } else { 250 }, budget_pc: if th { 1500 } else { 220 },
        terms: vec![vec![]; 8], n_lru: 0, n_cmap: 0, n_pc: 0, tmp: tmp.clone(), fileno: 0,
        budget_x: if th { [0, 0, 0, 600, 400, 600, 400, 200] } else { [0, 0, 0, 90, 50, 90, 50, 30] }, n_x: [0; 8],
    };
    let mut rng = Rng::new(args.seed);
    if let Some(f) = &args.replay {
        let v: Value = serde_json::from_str(&std::fs::read_to_string(f).expect("replay file")).expect("json");
        let c = if v.get("case").is_some() { v["case"].clone() } else { v };
        run_one(&mut cx, &c);
        finish(&mut cx, args);
        return;
    }
    if let Ok(rd) = std::fs::read_dir("corpus/C17") {
        let mut files: Vec<_> = rd.filter_map(|e| e.ok()).map(|e| e.path()).collect();
        files.sort();
        for p in files {
            if let Ok(v) = serde_json::from_str::<Value>(&std::fs::read_to_string(&p).unwrap_or_default()) {
                let c = if v.get("case").is_some() { v["case"].clone() } else { v };
                run_one(&mut cx, &c);
                cx.sum.dist("corpus_cases");
            }
        }
    }
    // generated LRU histories first (they get the Coq budget), then the enumerated family
    let n_lru = if th { 20000 } else { 1500 };
    for i in 0..n_lru {
        let cap = if rng.chance(1, 8) { rng.range(5, 8) } else { rng.range(1, 4) } as usize;
        let nkeys = cap as u64 + rng.range(1, 3);
        let n = if rng.chance(1, 10) { rng.range(60, 120) } else { rng.range(4, 40) } as usize;
        let ops = gen_ops(&mut rng, nkeys, n);
        if i < 2 { cx.sum.sample(json!({"lru": {"cap": cap, "ops": ops_json(&ops[..ops.len().min(10)])}})); }
        lru_history(&mut cx, cap, rng.below(4), nkeys, &ops, false);
    }
    enumerate_lru(&mut cx, if th { 5 } else { 4 });
    let n_cmap = if th { 8000 } else { 700 };
    for i in 0..n_cmap {
        let nshards = *rng.pick(&[1usize, 2, 2, 4, 4, 8]);
        let percap = rng.range(1, 3) as usize;
        let total = percap * nshards + if rng.chance(1, 4) { rng.below(nshards as u64) as usize } else { 0 };
        let nkeys = (percap * nshards) as u64 + rng.range(1, 4);
        let n = rng.range(4, 60) as usize;
        let ops = gen_ops(&mut rng, nkeys, n);
        let strat = if rng.chance(1, 6) { 1 } else if rng.chance(1, 6) { 2 } else { 0 };
        if i < 1 { cx.sum.sample(json!({"cmap": {"total": total, "nshards": nshards, "ops": ops_json(&ops[..ops.len().min(10)])}})); }
        cmap_history(&mut cx, total, nshards, rng.below(3), strat, nkeys, &ops, false);
    }
    // extension: round-robin and thread-affinity routing against the model of select_shard
    for _ in 0..(if th { 2000 } else { 160 }) {
        let nshards = *rng.pick(&[1usize, 2, 2, 4, 4, 8]);
        let percap = rng.range(1, 3) as usize;
        let nkeys = rng.range(2, 6);
        let n = rng.range(4, 50) as usize;
        let ops = gen_ops(&mut rng, nkeys, n);
        rr_history(&mut cx, percap * nshards, nshards, rng.below(3), &ops, false);
    }
    rr_history(&mut cx, 8, 4, 0, &[(1, 13, 102), (0, 13, 0)], true);
    for _ in 0..(if th { 400 } else { 45 }) {
        let nshards = *rng.pick(&[1usize, 2, 4, 4, 8]);
        let percap = rng.range(1, 3) as usize;
        let nthreads = rng.range(1, 4) as usize;
        let nkeys = rng.range(2, 5);
        let n = rng.range(4, 40) as usize;
        let tops: Vec<(u64, Op)> = gen_ops(&mut rng, nkeys, n).into_iter().map(|o| (rng.below(nthreads as u64), o)).collect();
        ta_history(&mut cx, percap * nshards, nshards, nthreads, &tops, false);
    }
    for n in [1usize, 2, 4, 8] { affinity_case(&mut cx, n, 4); }
    threads_case(&mut cx, 1, if th { 200_000 } else { 20_000 });
    threads_case(&mut cx, 2, if th { 200_000 } else { 20_000 });
    // a configuration that must be refused
    cmap_history(&mut cx, 4, 3, 0, 0, 3, &[(1, 0, 1)], false);
    cmap_history(&mut cx, 1, 2, 0, 0, 3, &[(1, 0, 1)], false);
    // page cache
    let ps = PAGE_SIZE as u64;
    let sizes = [0u64, 1, ps - 1, ps, ps + 1, 2 * ps + 100, 3 * ps + 17, 5 * ps];
    let n_pc = if th { 6000 } else { 600 };
    for i in 0..n_pc {
        let nf = if rng.chance(1, 3) { 2 } else { 1 };
        let files: Vec<(u64, u64)> = (0..nf).map(|_| (rng.below(200), if rng.chance(1, 10) { rng.below(4 * ps) } else { *rng.pick(&sizes) })).collect();
        let capbytes = *rng.pick(&[ps as usize, 2 * ps as usize, 2 * ps as usize, 3 * ps as usize, ps as usize - 1, 1, 64 * ps as usize, 0]);
        let n = rng.range(3, 14) as usize;
        let overwrite = rng.chance(1, 4);
        let ops = gen_pops(&mut rng, &files, n, overwrite, 0);
        if i < 1 { cx.sum.sample(json!({"page_cache": {"files": files.iter().map(|f| f.1).collect::<Vec<_>>(), "capbytes": capbytes, "ops": pops_json(&ops[..ops.len().min(8)])}})); }
        pc_history(&mut cx, rng.chance(1, 6), rng.below(4), capbytes, &files, &ops, false);
    }
    // overwrite + explicit invalidation with every page resident (a cache larger than the file, so that nothing
    // is reloaded by accident): the rewritten range sits inside a page, straddles a boundary or spans pages
    let n_ow = if th { 1500 } else { 150 };
    for iow in 0..n_ow {
        let flen = *rng.pick(&[2 * ps + 100, 3 * ps + 17, 5 * ps, 4 * ps - 1]);
        let files = vec![(rng.below(200), flen)];
        let mut ops: Vec<POp> = vec![(0, 0, 0, flen)];
        for _ in 0..rng.range(1, 4) {
            let p = rng.range(1, flen / ps);
            let (off, len) = match rng.below(4) {
                0 => (p * ps - 1 - rng.below(60), 2 + rng.below(120)),          // straddles a page boundary, short
                1 => (p * ps - rng.below(ps), ps + rng.below(ps)),              // spans pages
                2 => (rng.below(flen), 1 + rng.below(200)),
                _ => (p * ps - 1, 2),
            };
            ops.push((6, 0, off, len));
            if rng.chance(1, 2) { ops.push((0, 0, 0, flen)); } else { ops.push((0, 0, off.saturating_sub(10), len + 20)); ops.push((5, 0, (off + len).saturating_sub(5), 10)); }
        }
        ops.push((0, 0, 0, flen));
        pc_history(&mut cx, rng.chance(1, 5), rng.below(4), *rng.pick(&[16 * ps as usize, 64 * ps as usize]), &files, &ops, iow < n_ow / 3);
    }
    // refused requests inside histories (deterministic): each kind of request on an id that was never handed out, (11) before the files are
    // opened - on the very ids they are about to get - and (10) between the reads of a history, on both caches, small and large capacity;
    // the history goes on after every one of them and is judged (and replayed in the models) as if they had not been made
    for kind in 0..8u64 { for (v, &capbytes) in [2 * ps as usize, 64 * ps as usize].iter().enumerate() { for single in [false, true] {
        let files = vec![(7 + kind, 3 * ps + 17), (90 + kind, ps + 1)];
        let arg = [0u64, ps - 1, ps, 3 * ps + 16][(kind % 4) as usize];
        let mut ops: Vec<POp> = vec![(11, 0, kind, arg), (11, 1, kind, arg), (11, 2, (kind + 3) % 8, 0)];
        ops.extend_from_slice(&[(0, 0, 0, 3 * ps + 17), (0, 1, 0, ps + 1), (10, 0, kind, arg), (0, 0, ps - 5, 10), (10, 1, (kind + 1) % 8, arg), (5, 1, ps - 1, 2), (1, 0, ps, 2 * ps),
            (10, 2, kind, 0), (4, 0, 2 * ps - 1, 2), (2, 0, 1, 0), (10, 0, 4, 0), (0, 0, 0, 3 * ps + 17), (3, 1, 0, ps + 1), (10, 1, kind, arg), (0, 1, 0, ps + 1)]);
        if v == 1 { ops.extend_from_slice(&[(8, 1, 0, 0), (10, 0, 4, 0), (10, 0, kind, arg), (0, 0, 0, 3 * ps + 17), (0, 1, 0, 10), (8, 1, 0, 0), (0, 0, ps, ps)]); }
        pc_history(&mut cx, single, kind % 4, capbytes, &files, &ops, true);
        cx.sum.dist("refused_family_page_cache");
    } } }
    // the confirmed short-last-page witnesses, always
    pc_history(&mut cx, false, 0, 2 * ps as usize, &[(3, 2 * ps + 100)], &[(0, 0, 2 * ps, 200), (0, 0, 2 * ps - 92, 300), (0, 0, 0, 3 * ps)], true);
    // extension: somebody else rewrites the file and the cache is told later (or not at all, or about another range),
    // close_file, read_with_prefetch as one call, SingleLruPageCache with a used buffer and size()
    let n_px = if th { 3000 } else { 320 };
    for i in 0..n_px {
        let single = i % 3 == 2;
        let nf = if rng.chance(1, 3) { 2 } else { 1 };
        let files: Vec<(u64, u64)> = (0..nf).map(|_| (rng.below(200), if rng.chance(1, 10) { rng.below(4 * ps) } else { *rng.pick(&sizes) })).collect();
        // every page resident (nothing reloaded by accident) in two thirds of the histories
        let capbytes = *rng.pick(&[64 * ps as usize, 64 * ps as usize, 32 * ps as usize, 16 * ps as usize, 2 * ps as usize, 3 * ps as usize, ps as usize, 0]);
        let mut ops: Vec<POp> = vec![];
        if rng.chance(2, 3) { for f in 0..nf { ops.push((0, f as u64, 0, files[f].1)); } }
        let (n, ow) = (rng.range(3, 12) as usize, rng.chance(1, 3));
        ops.extend(gen_pops(&mut rng, &files, n, ow, if single { 2 } else { 1 }));
        if !single && !ops.iter().any(|o| o.0 == 7 || o.0 == 8) { ops.push((7, 0, rng.below(files[0].1 + 1), 1 + rng.below(200))); ops.push((0, 0, 0, files[0].1)); }
        pc_history(&mut cx, single, rng.below(4), capbytes, &files, &ops, false);
    }
    // the stale-last-page shape: all pages resident, an unaligned rewrite over a page boundary, the invalidation of exactly that range
    // as a separate call, then reads of the last page touched
    for i in 0..(if th { 400 } else { 40 }) {
        let flen = *rng.pick(&[2 * ps + 100, 3 * ps + 17, 5 * ps, 4 * ps - 1]);
        let p = rng.range(1, flen / ps);
        let (off, len) = match rng.below(3) { 0 => (p * ps - 1 - rng.below(60), 2 + rng.below(120)), 1 => (p * ps - 1, 2), _ => (p * ps - rng.range(1, ps - 1), ps + rng.below(ps)) };
        let ops: Vec<POp> = vec![(0, 0, 0, flen), (7, 0, off, len), (3, 0, off, len), (0, 0, off.saturating_sub(3), len + 6), (5, 0, off + len - 1, 1), (8, 0, 0, 0), (0, 0, 0, flen), (8, 0, 0, 0)];
        pc_history(&mut cx, i % 4 == 3, rng.below(4), 64 * ps as usize, &[(rng.below(200), flen)], &ops, i < 12);
    }
    // cached blob store
    // refused requests inside histories (deterministic): get / size / contains / remove of ids no put ever returned, between puts, gets,
    // removes (also the second remove of the same blob), a flush and a strategy change, on every write strategy, own and shared cache
    for strategy in 0..3u64 { for shared in [false, true] { for &capbytes in &[ps as usize, 16 * ps as usize] {
        let ops: Vec<BOp> = vec![(0, 100, 1), (0, ps + 1, 2), (1, 1000, 0), (2, 1001, 0), (1, 0, 0), (2, 0, 0), (2, 0, 0), (2, 1000, 0), (1, 1002, 0), (0, 7, 3), (3, 0, 0),
            (1, 1000, 0), (7, strategy + 1, 0), (2, 1003, 0), (1, 1, 0), (1, 2, 0), (5, 0, 0), (1, 1004, 0), (6, 0, 0), (0, 2 * ps + 5, 4), (2, 1004, 0), (1, 3, 0)];
        blob_history(&mut cx, strategy, strategy, capbytes, shared, &ops, true);
        cx.sum.dist("refused_family_blob");
    } } }
    let n_blob = if th { 3000 } else { 300 };
    for _ in 0..n_blob {
        let shared = rng.chance(1, 3);
        let n = rng.range(3, 30) as usize;
        let ops = gen_bops(&mut rng, n, shared);
        let capbytes = *rng.pick(&[ps as usize, 2 * ps as usize, 16 * ps as usize]);
        blob_history(&mut cx, rng.below(3), rng.below(4), capbytes, shared, &ops, false);
    }
    let n_fsa = if th { 2000 } else { 200 };
    for _ in 0..n_fsa {
        let max_states = rng.range(1, 25) as usize;
        let n = rng.range(3, 80) as usize;
        let ops: Vec<(u8, u64, u64)> = (0..n).map(|_| { let c = rng.below(100); (if c < 60 { 0 } else if c < 85 { 1 } else if c < 97 { 2 } else { 3 }, rng.below(1 << 20), rng.below(1 << 30)) }).collect();
        fsa_history(&mut cx, max_states, rng.below(3), &ops);
    }
    // oracle breadth: secondary entry points, presets, options, thresholds, rare element types (c17_wide.rs)
    wide::run_wide(&mut cx, &mut rng, th);
    cx.sum.dist_max("coq_cases_lru", cx.n_lru as u64);
    cx.sum.dist_max("coq_cases_cmap", cx.n_cmap as u64);
    cx.sum.dist_max("coq_cases_page_cache", cx.n_pc as u64);
    for (t, name) in [(T_PX, "coq_cases_page_cache_rewrite_close"), (T_PS, "coq_cases_single_page_cache"), (T_BLOB, "coq_cases_cached_blob_store"), (T_RR, "coq_cases_round_robin"), (T_TA, "coq_cases_thread_affinity")] {
        cx.sum.dist_max(name, cx.n_x[t] as u64);
    }
    finish(&mut cx, args);
}

/// Spread the (expensive) page-cache cases evenly over the shards, write everything, clean up.
fn finish(cx: &mut Ctx, args: &Args) {
    let mut all: Vec<(f64, String, Value)> = vec![];
    for l in cx.terms.iter_mut() {
        let n = l.len() as f64;
        for (i, (t, j)) in l.drain(..).enumerate() { all.push(((i as f64 + 0.5) / n, t, j)); }
    }
    all.sort_by(|a, b| a.0.partial_cmp(&b.0).unwrap());
    for (_, t, j) in all { cx.shards.push(t, j); }
    cx.sum.dist_max("coq_cases", cx.shards.len() as u64);
    let sh = cx.shards.write(&args.out);
    cx.sum.write(&args.out, sh);
    let _ = std::fs::remove_dir_all(&cx.tmp);
}
