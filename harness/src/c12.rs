//! C12: suffix arrays order all suffixes; LCP, BWT and pattern search are exact.
//! Oracle (independent of the Coq model): the returned array must be a permutation of 0..n whose
//! suffixes are strictly increasing; LCP / BWT / search results are recomputed naively.
//! Cells:
//!   build/<ALG>            algorithms::suffix_array::SuffixArray for the five algorithms x config variants
//!   lcp, search            LcpArray::new, SuffixArray::{search_range, search} on that array
//!   EnhancedSuffixArray    with_lcp / with_bwt (default configuration)
//!   SuffixArrayCompressor  compression::suffix_array (SA-IS + IntVec storage + own Kasai / binary search)
//!   SuffixArrayDictionary  dict_zip matcher built on the same array: sa_equal_range on every refinement step, sa_match_continuation, da_match_max_length
//! Every small case is also evaluated in Coq: the verified checker check_sa must agree with the
//! oracle's verdict, and the models of build / Kasai / BWT / search_range must reproduce the outputs.
use crate::util::*;
use serde_json::{json, Value};
use zipora::algorithms::suffix_array::{
    EnhancedSuffixArray, LcpArray, SuffixArray, SuffixArrayAlgorithm as Alg, SuffixArrayBuilder, SuffixArrayConfig,
};
use zipora::algorithms::Algorithm;
use zipora::compression::dict_zip::{DfaCacheConfig, SuffixArrayDictionary, SuffixArrayDictionaryConfig};
use zipora::compression::suffix_array::{EnhancedSuffixArray as CompEsa, SuffixArrayCompressor, SuffixArrayConfig as CompConfig};

#[path = "c12_wide.rs"]
mod wide;

const HEADER: &str = r#"From ZV.Common Require Import Base Run.
From ZV.C12 Require Import Spec Model ModelDict ModelEsa ModelSais ModelCases.
Open Scope nat_scope.
"#;

const ALGS: [(Alg, &str); 5] = [
    (Alg::SAIS, "SAIS"),
    (Alg::DivSufSort, "DivSufSort"),
    (Alg::DC3, "DC3"),
    (Alg::LarssonSadakane, "LarssonSadakane"),
    (Alg::Adaptive, "Adaptive"),
];
fn alg_index(a: Alg) -> usize { ALGS.iter().position(|(x, _)| *x == a).unwrap() }

struct Ctx {
    sum: Summary,
    shards: CoqShards,
    coq_budget: usize,
    big_certs: usize,
    big_cert_budget: usize,
    comps: Vec<(SuffixArrayCompressor, &'static str, bool)>,
    dict_coq: usize,
    dict_coq_budget: usize,
    core_coq: usize,
    esa_coq: usize,
    esa_coq_budget: usize,
    sais_coq: usize,
    sais_coq_budget: usize,
    sais_seen: usize,
    sais_stride: usize,
}

// ---------- the oracle: the property itself, naively ----------
fn is_suffix_array(t: &[u8], sa: &[usize]) -> Result<(), String> {
    let n = t.len();
    if sa.len() != n { return Err(format!("array has {} entries for a text of length {}", sa.len(), n)); }
    let mut seen = vec![false; n];
    for &s in sa {
        if s >= n { return Err(format!("entry {} is not a position of the text", s)); }
        if seen[s] { return Err(format!("position {} is listed twice", s)); }
        seen[s] = true;
    }
    for k in 1..n {
        if !(t[sa[k - 1]..] < t[sa[k]..]) {
            return Err(format!("rank {}: suffix {} is not below suffix {}", k, sa[k - 1], sa[k]));
        }
    }
    Ok(())
}
/// lcp[0] = 0 and lcp[k] = exact length of the common prefix of suffixes sa[k-1], sa[k]:
/// the first lcp[k] bytes agree and the next byte (if both suffixes have one) differs.
fn check_lcp(t: &[u8], sa: &[usize], lcp: &[usize]) -> Result<(), String> {
    let n = t.len();
    if lcp.len() != sa.len() { return Err(format!("LCP array has {} entries, the suffix array {}", lcp.len(), sa.len())); }
    for k in 0..sa.len() {
        let l = lcp[k];
        if k == 0 { if l != 0 { return Err(format!("lcp[0] = {}", l)); } continue; }
        let (a, b) = (sa[k - 1], sa[k]);
        let agree = a + l <= n && b + l <= n && t[a..a + l] == t[b..b + l];
        let maximal = agree && (a + l == n || b + l == n || t[a + l] != t[b + l]);
        if !maximal {
            let real = t[a..].iter().zip(t[b..].iter()).take_while(|(x, y)| x == y).count();
            return Err(format!("lcp[{}] = {} but suffixes {} and {} share exactly {} bytes", k, l, a, b, real));
        }
    }
    Ok(())
}
fn bwt_naive(t: &[u8], sa: &[usize]) -> Vec<u8> {
    let n = t.len();
    sa.iter().map(|&s| t[(s + n - 1) % n]).collect()
}
fn occurrences(t: &[u8], p: &[u8]) -> Vec<usize> {
    (0..t.len()).filter(|&i| t[i..].starts_with(p)).collect()
}

fn config_for(alg: Alg, variant: u64, n: usize) -> SuffixArrayConfig {
    let mut c = SuffixArrayConfig { algorithm: alg, ..SuffixArrayConfig::default() };
    match variant {
        1 => { c.parallel_threshold = 1; c.optimize_small_alphabet = false; }
        2 => { c.adaptive_threshold = 0; c.use_parallel = false; }
        3 => { c.adaptive_threshold = n; c.optimize_small_alphabet = false; }
        4 => { c.adaptive_threshold = n + 1; c.parallel_threshold = n; }
        // breadth: the parallel switch exactly at / just above the text length, the unused compute_lcp flag,
        // use_parallel off with a zero threshold, adaptive_threshold at the extremes
        5 => { c.use_parallel = true; c.parallel_threshold = n; }
        6 => { c.parallel_threshold = n + 1; c.compute_lcp = true; }
        7 => { c.use_parallel = false; c.parallel_threshold = 0; c.adaptive_threshold = usize::MAX; }
        8 => { c.parallel_threshold = 0; c.optimize_small_alphabet = false; c.adaptive_threshold = 1; c.compute_lcp = true; }
        _ => {}
    }
    c
}

fn coq_nat_list(xs: &[usize]) -> String {
    let v: Vec<String> = xs.iter().map(|x| x.to_string()).collect();
    format!("[{}]%nat", v.join("; "))
}

fn coq_opt_list(xs: &[Option<usize>]) -> String {
    let v: Vec<String> = xs.iter().map(|x| match x { Some(v) => format!("Some {}", v), None => "None".to_string() }).collect();
    format!("[{}]%N", v.join("; "))
}

/// What one construction + its queries returned, for the Coq side.
struct Obs {
    sa: Vec<usize>,
    sa_ok: bool,
    lcp: Option<Vec<usize>>,
    bwt: Option<Vec<u8>>,
    pats: Vec<(Vec<u8>, (usize, usize), (usize, usize))>,
}

fn push_coq(cx: &mut Ctx, alg: usize, thr: usize, resolved: usize, t: &[u8], o: &Obs, cj: &Value, force: bool) {
    // texts up to 300 bytes: everything is recomputed by the model; SA-IS outputs on texts up to 2600 bytes:
    // certificate only (check_sa), a bounded number per run
    let full = t.len() <= 300;
    if !full {
        let sais = resolved == 0 && (alg == 0 || alg == 4 || alg == 5);
        if !sais || t.len() > 2600 || cx.big_certs >= cx.big_cert_budget { return; }
        cx.big_certs += 1;
    } else if !force && cx.core_coq >= cx.coq_budget { return; }
    if full { cx.core_coq += 1; }
    let pats: Vec<String> = if full { o.pats.iter().map(|(p, (l, r), (l2, c))|
        format!("({}, ({}, {}), ({}, {}))", coq_bytes(p), l, r, l2, c)).collect() } else { vec![] };
    let term = format!("Core (({}%N, {}%N, {}%N), {}, {}, {}, {}, {}, {}, [{}])",
        alg, thr, resolved, coq_bytes(t), coq_n_list(o.sa.iter().map(|&x| x as u128)), coq_bool(o.sa_ok), coq_bool(full),
        coq_opt(if full { o.lcp.as_ref().map(|l| coq_nat_list(l)) } else { None }),
        coq_opt(if full { o.bwt.as_ref().map(|b| coq_bytes(b)) } else { None }),
        pats.join("; "));
    let mut cj = cj.clone();
    if !full { cj["text"] = json!(format!("<{} bytes, certificate-only case>", t.len())); cj["patterns"] = json!([]); }
    cx.shards.push(term, cj);
}

/// Known-finding class of a wrong array, if any.  Both classes of the pinned tree (SA-IS order,
/// DC3 length-2 tie) were repaired by fix: commits, so no failure is excused any more.
fn sais_class(_resolved: Alg) -> Option<&'static str> { None }

/// Check search results on a correct array.  `range` = (l, r) half-open rank range.
fn check_search(occ: &[usize], sa: &[usize], p: &[u8], range: (usize, usize), srch: Option<(usize, usize)>) -> Result<(), String> {
    let (l, r) = range;
    let n = sa.len();
    if l > r || r > n { return Err(format!("pattern {:?}: range ({}, {}) is not a rank range of 0..{}", p, l, r, n)); }
    let mut got: Vec<usize> = sa[l..r].to_vec();
    got.sort();
    if got[..] != occ[..] {
        return Err(format!("pattern {:?}: ranks [{}, {}) list positions {:?} but the pattern occurs exactly at {:?}", p, l, r, &got[..got.len().min(12)], &occ[..occ.len().min(12)]));
    }
    if let Some((l2, c)) = srch {
        if c != occ.len() || (c > 0 && l2 != l) {
            return Err(format!("pattern {:?}: search = ({}, {}) but there are {} occurrences starting at rank {}", p, l2, c, occ.len(), l));
        }
    }
    Ok(())
}

fn core_case(cx: &mut Ctx, alg_i: usize, variant: u64, t: &[u8], pats: &[Vec<u8>], force_coq: bool) {
    let cj = json!({"cell": "core", "alg": ALGS[alg_i].1, "variant": variant, "text": t, "patterns": pats});
    core_case_cj(cx, alg_i, variant, t, pats, force_coq, cj);
}

/// `cj` is the replayable description of the case (big texts are described, not spelled out).
fn core_case_cj(cx: &mut Ctx, alg_i: usize, variant: u64, t: &[u8], pats: &[Vec<u8>], force_coq: bool, cj: Value) {
    let (alg, aname) = ALGS[alg_i];
    let n = t.len();
    let cell = format!("build/{}", aname);
    cx.sum.eval(&cell, &format!("{} v{} {:?}", aname, variant, t), n >= 2);
    let cfg = config_for(alg, variant, n);
    let resolved = match guarded(|| SuffixArrayBuilder::new(cfg.clone()).select_algorithm(t)) {
        Ok(a) => a,
        Err(m) => { cx.sum.fail(&cell, None, cj, &format!("select_algorithm panicked: {}", m)); return; }
    };
    if alg == Alg::Adaptive { cx.sum.dist(&format!("adaptive_resolves_to_{}", ALGS[alg_index(resolved)].1)); }
    // three entry points for the same construction
    #[cfg(zipora_verif)]
    if resolved == Alg::SAIS { zipora::algorithms::suffix_array::verif_trace::start(); }
    let built = guarded(|| match (variant, alg) {
        (0, Alg::Adaptive) => SuffixArray::new(t),
        (0, Alg::DivSufSort) | (1, Alg::SAIS) => { let b = SuffixArrayBuilder::new(cfg.clone()); b.execute(&cfg, t.to_vec()) }
        (0, Alg::LarssonSadakane) | (1, Alg::DC3) => SuffixArrayBuilder::new(cfg.clone()).build(t),
        (v, _) if v >= 5 && (v as usize + alg_i) % 3 == 1 => SuffixArrayBuilder::new(cfg.clone()).build(t),
        // the trait entry point builds with the configuration it is handed, not with the builder's own
        (v, _) if v >= 5 && (v as usize + alg_i) % 3 == 2 => SuffixArrayBuilder::new(SuffixArrayConfig::default()).execute(&cfg, t.to_vec()),
        _ => SuffixArray::with_config(t, &cfg),
    });
    #[cfg(zipora_verif)]
    let trace: Option<String> = if resolved == Alg::SAIS {
        let lv = zipora::algorithms::suffix_array::verif_trace::take();
        let n_list = |v: &[usize]| coq_n_list(v.iter().map(|&x| x as u128));
        Some(format!("[{}]", lv.iter().map(|l| format!("[{}; {}; {}; {}; {}]",
            n_list(&[l.depth, l.n, l.alphabet_size, l.num_names, l.recursed as usize]),
            n_list(&l.suffix_types.iter().map(|&b| b as usize).collect::<Vec<_>>()),
            n_list(&l.lms_suffixes), n_list(&l.first_pass), n_list(&l.lms_names))).collect::<Vec<_>>().join("; ")))
    } else { None };
    #[cfg(not(zipora_verif))]
    let trace: Option<String> = None;
    let class = sais_class(resolved);
    let sa_obj = match built {
        Err(m) => { cx.sum.fail(&cell, class, cj, &format!("construction panicked: {}", m)); return; }
        Ok(Err(e)) => { cx.sum.fail(&cell, class, cj, &format!("construction refused: {:?}", e)); return; }
        Ok(Ok(s)) => s,
    };
    let sa: Vec<usize> = sa_obj.as_slice().to_vec();
    let verdict = is_suffix_array(t, &sa);
    let mut obs = Obs { sa: sa.clone(), sa_ok: verdict.is_ok(), lcp: None, bwt: None, pats: vec![] };
    if let Err(why) = &verdict {
        cx.sum.fail(&cell, class, cj.clone(), &format!("{} (resolved {}): {}; array {:?}", aname, ALGS[alg_index(resolved)].1, why, &sa[..sa.len().min(16)]));
    }
    // accessors
    if sa_obj.text_len() != n { cx.sum.fail(&cell, None, cj.clone(), &format!("text_len {} for a text of {}", sa_obj.text_len(), n)); }
    for k in 0..sa.len() {
        if sa_obj.suffix_at_rank(k) != Some(sa[k]) { cx.sum.fail(&cell, None, cj.clone(), &format!("suffix_at_rank({}) = {:?}, as_slice has {}", k, sa_obj.suffix_at_rank(k), sa[k])); break; }
    }
    if sa_obj.suffix_at_rank(sa.len()).is_some() { cx.sum.fail(&cell, None, cj.clone(), "suffix_at_rank(len) is not None"); }
    // LCP
    cx.sum.eval("lcp", &format!("{:?}", t), n >= 2);
    match guarded(|| LcpArray::new(t, &sa_obj)) {
        Err(m) => { if verdict.is_ok() || sa.len() == n { cx.sum.fail("lcp", if verdict.is_ok() { None } else { class }, cj.clone(), &format!("LcpArray::new panicked: {}", m)); } }
        Ok(Err(e)) => cx.sum.fail("lcp", if verdict.is_ok() { None } else { class }, cj.clone(), &format!("LcpArray::new refused: {:?}", e)),
        Ok(Ok(l)) => {
            let lv = l.as_slice().to_vec();
            if verdict.is_ok() {
                if let Err(why) = check_lcp(t, &sa, &lv) { cx.sum.fail("lcp", None, cj.clone(), &why); }
                for k in 0..=lv.len() { if l.lcp_at(k) != lv.get(k).copied() { cx.sum.fail("lcp", None, cj.clone(), &format!("lcp_at({}) disagrees with as_slice", k)); break; } }
                cx.sum.dist_max("max_lcp_value", lv.iter().copied().max().unwrap_or(0) as u64);
            }
            obs.lcp = Some(lv);
        }
    }
    // search
    for p in pats {
        cx.sum.eval("search", &format!("{:?} {:?}", t, p), !p.is_empty());
        let r = guarded(|| (sa_obj.search_range(t, p), sa_obj.search(t, p)));
        match r {
            Err(m) => { cx.sum.fail("search", if verdict.is_ok() { None } else { class }, cj.clone(), &format!("search({:?}) panicked: {}", p, m)); }
            Ok((range, srch)) => {
                if verdict.is_ok() {
                    let occ = occurrences(t, p);
                    if let Err(why) = check_search(&occ, &sa, p, range, Some(srch)) { cx.sum.fail("search", None, cj.clone(), &why); }
                    if occ.is_empty() { cx.sum.dist("patterns_absent"); } else { cx.sum.dist("patterns_present"); }
                }
                obs.pats.push((p.clone(), range, srch));
            }
        }
    }
    // SA-IS: the Gallina model of the algorithm must return the same array
    if resolved == Alg::SAIS && n >= 2 && n <= 300 { cx.sais_seen += 1; }
    if resolved == Alg::SAIS && n >= 2 && n <= 300 && (force_coq || (cx.sais_seen % cx.sais_stride == 0 && cx.sais_coq < cx.sais_coq_budget)) {
        cx.sais_coq += 1;
        let term = format!("Sais {} {} {} {}", coq_bool(cfg.optimize_small_alphabet), coq_bytes(t), coq_n_list(sa.iter().map(|&x| x as u128)),
            trace.clone().unwrap_or_else(|| "[]".to_string()));
        cx.shards.push(term, cj.clone());
    }
    push_coq(cx, alg_i, cfg.adaptive_threshold, alg_index(resolved), t, &obs, &cj, force_coq);
}

fn enhanced_case(cx: &mut Ctx, t: &[u8], force_coq: bool) {
    enhanced_case_cj(cx, t, force_coq, json!({"cell": "enhanced", "text": t}));
}

fn enhanced_case_cj(cx: &mut Ctx, t: &[u8], force_coq: bool, cj: Value) {
    let cell = "EnhancedSuffixArray";
    let n = t.len();
    cx.sum.eval(cell, &format!("{:?}", t), n >= 2);
    let thr = SuffixArrayConfig::default().adaptive_threshold;
    let resolved = match guarded(|| SuffixArrayBuilder::new(SuffixArrayConfig::default()).select_algorithm(t)) {
        Ok(a) => a,
        Err(m) => { cx.sum.fail(cell, None, cj, &format!("select_algorithm panicked: {}", m)); return; }
    };
    let class = sais_class(resolved);
    let mut esa_sa: [Option<Vec<usize>>; 2] = [None, None];
    let mut esa_probes: Option<Vec<Option<usize>>> = None;
    let mut esa_bw: Option<Vec<u8>> = None;
    for which in 0..2 {
        let r = guarded(|| if which == 0 { EnhancedSuffixArray::with_lcp(t) } else { EnhancedSuffixArray::with_bwt(t) });
        let e = match r {
            Err(m) => { cx.sum.fail(cell, class, cj.clone(), &format!("constructor {} panicked: {}", which, m)); continue; }
            Ok(Err(e)) => { cx.sum.fail(cell, class, cj.clone(), &format!("constructor {} refused: {:?}", which, e)); continue; }
            Ok(Ok(e)) => e,
        };
        let sa = e.suffix_array().as_slice().to_vec();
        let verdict = is_suffix_array(t, &sa);
        let mut obs = Obs { sa: sa.clone(), sa_ok: verdict.is_ok(), lcp: None, bwt: None, pats: vec![] };
        if let Err(why) = &verdict { cx.sum.fail(cell, class, cj.clone(), &format!("array: {}", why)); }
        if which == 0 {
            match e.lcp_array() {
                None => cx.sum.fail(cell, None, cj.clone(), "with_lcp has no LCP array"),
                Some(l) => {
                    if verdict.is_ok() { if let Err(why) = check_lcp(t, &sa, l.as_slice()) { cx.sum.fail(cell, None, cj.clone(), &why); } }
                    obs.lcp = Some(l.as_slice().to_vec());
                    // the accessor, one past the end included
                    let probes: Vec<Option<usize>> = (0..=sa.len()).map(|k| l.lcp_at(k)).collect();
                    if verdict.is_ok() {
                        for k in 0..=sa.len() {
                            let want = if k == sa.len() { None } else if k == 0 { Some(0) } else {
                                Some(t[sa[k - 1]..].iter().zip(t[sa[k]..].iter()).take_while(|(x, y)| x == y).count()) };
                            if probes[k] != want { cx.sum.fail(cell, None, cj.clone(), &format!("lcp_at({}) = {:?}, the common prefix of the suffixes at ranks {} and {} has length {:?}", k, probes[k], k.wrapping_sub(1), k, want)); break; }
                        }
                    }
                    esa_probes = Some(probes);
                }
            }
            if e.bwt().is_some() { cx.sum.fail(cell, None, cj.clone(), "with_lcp carries a BWT"); }
        } else {
            match e.bwt() {
                None => cx.sum.fail(cell, None, cj.clone(), "with_bwt has no BWT"),
                Some(b) => {
                    if verdict.is_ok() && b != &bwt_naive(t, &sa)[..] { cx.sum.fail(cell, None, cj.clone(), &format!("BWT {:?} is not the bytes preceding the sorted suffixes", &b[..b.len().min(16)])); }
                    obs.bwt = Some(b.to_vec());
                    esa_bw = Some(b.to_vec());
                }
            }
        }
        esa_sa[which] = Some(sa.clone());
        push_coq(cx, 4, thr, alg_index(resolved), t, &obs, &cj, force_coq);
    }
    if let (Some(s1), Some(s2), Some(pr), Some(bw)) = (&esa_sa[0], &esa_sa[1], &esa_probes, &esa_bw) {
        if n <= 200 && (force_coq || cx.esa_coq < cx.esa_coq_budget) {
            cx.esa_coq += 1;
            let term = format!("EsaAlg {}%N {} {} {} {} {}", alg_index(resolved), coq_bytes(t), coq_n_list(s1.iter().map(|&x| x as u128)),
                coq_opt_list(pr), coq_n_list(s2.iter().map(|&x| x as u128)), coq_bytes(bw));
            cx.shards.push(term, cj.clone());
        }
    }
}

fn compress_case(cx: &mut Ctx, preset: usize, t: &[u8], pats: &[Vec<u8>], force_coq: bool) {
    let cj = json!({"cell": "compress", "preset": preset, "text": t, "patterns": pats});
    compress_case_cj(cx, preset, 0, t, pats, force_coq, cj);
}

/// entry 0: `build_suffix_array`; 1: the `Algorithm::execute` trait entry point (it ignores the configuration it is handed).
fn compress_build(cx: &Ctx, preset: usize, entry: u64, t: &[u8]) -> Result<zipora::error::Result<CompEsa>, String> {
    let comp = &cx.comps[preset].0;
    guarded(|| if entry == 1 { comp.execute(&CompConfig::for_realtime(), t.to_vec()) } else { comp.build_suffix_array(t) })
}

fn compress_case_cj(cx: &mut Ctx, preset: usize, entry: u64, t: &[u8], pats: &[Vec<u8>], force_coq: bool, cj: Value) {
    let r = compress_build(cx, preset, entry, t);
    compress_check(cx, preset, r, t, pats, force_coq, cj);
}

fn compress_check(cx: &mut Ctx, preset: usize, r: Result<zipora::error::Result<CompEsa>, String>, t: &[u8], pats: &[Vec<u8>], force_coq: bool, cj: Value) {
    let n = t.len();
    let pname = cx.comps[preset].1;
    let with_lcp = cx.comps[preset].2;
    let cell = format!("SuffixArrayCompressor/{}", pname);
    cx.sum.eval(&cell, &format!("{} {:?}", pname, t), n >= 2);
    let class: Option<&str> = None;
    let e = match r {
        Err(m) => { cx.sum.fail(&cell, if n >= 2 { class } else { None }, cj, &format!("build_suffix_array panicked: {}", m)); return; }
        Ok(Err(e)) => { cx.sum.fail(&cell, if n >= 2 { class } else { None }, cj, &format!("build_suffix_array refused: {:?}", e)); return; }
        Ok(Ok(e)) => e,
    };
    // statistics accessors in the middle of the queries (never judged; they must not disturb what follows)
    let _ = guarded(|| (e.stats().lookup_count, e.memory_usage(), e.compression_ratio(), format!("{:?}", e).len()));
    // IntVec's delta layout makes lcp_at(k) cost O(k): on big arrays probe the ends and a stride
    let elen = e.len();
    let probes: Vec<usize> = if elen <= 5000 { (0..elen).collect() } else {
        let mut v: Vec<usize> = (0..64).chain(elen - 64..elen).collect();
        let step = elen / 1500 + 1; v.extend((0..elen).step_by(step)); v.sort(); v.dedup(); v };
    let got = guarded(|| {
        let sa: Vec<Option<usize>> = (0..e.len() + 1).map(|k| e.suffix_at_rank(k)).collect();
        let lcp: Vec<(usize, Option<usize>)> = probes.iter().map(|&k| (k, e.lcp_at(k))).collect();
        (e.len(), e.text_len(), e.is_empty(), sa, lcp, e.lcp_at(e.len()))
    });
    let (len, tl, empty, sa_o, lcp_o, lcp_end) = match got { Ok(x) => x, Err(m) => { cx.sum.fail(&cell, None, cj, &format!("accessor panicked: {}", m)); return; } };
    if tl != n || empty != (n == 0) { cx.sum.fail(&cell, None, cj.clone(), &format!("text_len {} / is_empty {} for a text of {}", tl, empty, n)); }
    if sa_o[..len].iter().any(|x| x.is_none()) || sa_o[len].is_some() { cx.sum.fail(&cell, None, cj.clone(), "suffix_at_rank is not Some exactly on 0..len"); return; }
    let sa: Vec<usize> = sa_o[..len].iter().map(|x| x.unwrap()).collect();
    let verdict = is_suffix_array(t, &sa);
    let mut obs = Obs { sa: sa.clone(), sa_ok: verdict.is_ok(), lcp: None, bwt: None, pats: vec![] };
    if let Err(why) = &verdict { cx.sum.fail(&cell, class, cj.clone(), &format!("array: {}; {:?}", why, &sa[..sa.len().min(16)])); }
    if with_lcp && n > 0 {
        if lcp_o.iter().any(|(_, x)| x.is_none()) || lcp_end.is_some() { cx.sum.fail(&cell, None, cj.clone(), "compute_lcp was requested but lcp_at is not Some exactly on 0..len"); }
        else if verdict.is_ok() {
            for (k, l) in &lcp_o {
                // judge each probed rank on its own: the pair (sa[k-1], sa[k]) and the reported length
                let pair = if *k == 0 { vec![sa[0]] } else { vec![sa[*k - 1], sa[*k]] };
                let vals = if *k == 0 { vec![l.unwrap()] } else { vec![0, l.unwrap()] };
                if let Err(why) = check_lcp(t, &pair, &vals) { cx.sum.fail(&cell, None, cj.clone(), &format!("at rank {}: {}", k, why)); break; }
            }
            cx.sum.dist_max("max_lcp_value", lcp_o.iter().map(|(_, l)| l.unwrap()).max().unwrap_or(0) as u64);
            if probes.len() == len { obs.lcp = Some(lcp_o.iter().map(|(_, l)| l.unwrap()).collect()); }
        } else if probes.len() == len { obs.lcp = Some(lcp_o.iter().map(|(_, l)| l.unwrap()).collect()); }
    }
    for p in pats {
        if p.is_empty() { // the wrapper documents "empty pattern -> no result": compared with the model only
            if let Ok(range) = guarded(|| e.find_pattern_range(t, p)) { obs.pats.push((p.clone(), range, (0, 0))); }
            continue;
        }
        let r = guarded(|| (e.find_pattern_range(t, p), e.find_pattern(t, p), e.count_pattern(t, p)));
        match r {
            Err(m) => cx.sum.fail(&cell, if verdict.is_ok() { None } else { class }, cj.clone(), &format!("find_pattern({:?}) panicked: {}", p, m)),
            Ok((range, found, cnt)) => {
                if verdict.is_ok() {
                    let occ = occurrences(t, p);
                    if let Err(why) = check_search(&occ, &sa, p, range, None) { cx.sum.fail(&cell, None, cj.clone(), &why); }
                    if found != occ { cx.sum.fail(&cell, None, cj.clone(), &format!("find_pattern({:?}) = {:?}, occurrences are {:?}", p, &found[..found.len().min(12)], &occ[..occ.len().min(12)])); }
                    if cnt != occ.len() { cx.sum.fail(&cell, None, cj.clone(), &format!("count_pattern({:?}) = {}, there are {}", p, cnt, occ.len())); }
                }
                obs.pats.push((p.clone(), range, (range.0, range.1.saturating_sub(range.0))));
            }
        }
    }
    if n <= 200 && probes.len() == len && (force_coq || cx.esa_coq < cx.esa_coq_budget) {
        cx.esa_coq += 1;
        let mut lp: Vec<Option<usize>> = lcp_o.iter().map(|(_, l)| *l).collect(); lp.push(lcp_end);
        let term = format!("EsaComp {} {} {} {} {} {}%N {}%N {}", coq_bool(with_lcp), coq_bytes(t), coq_n_list(sa.iter().map(|&x| x as u128)),
            coq_opt_list(&sa_o), coq_opt_list(&lp), tl, len, coq_bool(empty));
        cx.shards.push(term, cj.clone());
    }
    push_coq(cx, 5, 10_000, 0, t, &obs, &cj, force_coq);
}

/// Dictionary configurations.  0-3: the original four; 4-11 (breadth): the untouched default (memory pool on), every
/// construction algorithm, external mode, pattern-length windows, BFS depth 0 / deep, sampling ratio (no effect up to
/// 10 000 bytes), the small-dictionary preset for a dictionary size of 0.
fn dict_cfg(variant: u64, n: usize) -> SuffixArrayDictionaryConfig {
    let mut cfg = SuffixArrayDictionaryConfig { use_memory_pool: false, ..SuffixArrayDictionaryConfig::default() };
    match variant {
        1 => { cfg.min_frequency = 1; cfg.max_bfs_depth = 2; }
        2 => { cfg.suffix_array_config.algorithm = Alg::SAIS; cfg.min_frequency = 2; }
        3 => { cfg.dfa_cache_config = DfaCacheConfig::small_dictionary(n); cfg.min_frequency = 1; } // double-array trie
        4 => { cfg = SuffixArrayDictionaryConfig::default(); }
        5 => { cfg.suffix_array_config.algorithm = Alg::DivSufSort; cfg.external_mode = true; cfg.min_pattern_length = 1; cfg.max_pattern_length = 3; }
        6 => { cfg.suffix_array_config.algorithm = Alg::LarssonSadakane; cfg.suffix_array_config.optimize_small_alphabet = false; cfg.max_bfs_depth = 0; cfg.min_pattern_length = 0; }
        7 => { cfg.suffix_array_config.algorithm = Alg::DC3; cfg.min_frequency = 1; cfg.max_bfs_depth = 9; cfg.dfa_cache_config = DfaCacheConfig::small_dictionary(n); cfg.min_pattern_length = 2; cfg.max_pattern_length = 2; }
        8 => { cfg.suffix_array_config.adaptive_threshold = 0; cfg.suffix_array_config.parallel_threshold = 1; cfg.sample_ratio = 0.5; cfg.enable_simd = !cfg.enable_simd; }
        9 => { cfg.suffix_array_config.algorithm = Alg::SAIS; cfg.suffix_array_config.optimize_small_alphabet = false; cfg.min_frequency = 0; cfg.max_cache_states = 1; cfg.max_dict_size = 1; cfg.min_pattern_length = 3; cfg.max_pattern_length = 300; }
        10 => { cfg.dfa_cache_config = DfaCacheConfig::small_dictionary(0); cfg.min_frequency = 3; cfg.max_bfs_depth = 1; cfg.sample_ratio = 0.0; }
        11 => { cfg.use_memory_pool = true; cfg.dfa_cache_config.use_memory_pool = false; cfg.dfa_cache_config.initial_capacity = 1; cfg.dfa_cache_config.min_node_frequency = 0; cfg.min_frequency = 1; cfg.max_bfs_depth = 3; cfg.sample_ratio = 2.0; }
        _ => {}
    }
    cfg
}
pub const DICT_VARIANTS: u64 = 12;

/// The PA-Zip dictionary's matcher: the rank range it reports for the longest prefix of `q` that
/// occurs in the dictionary text must be the range of the suffix array of that text; and every
/// refinement step `sa_equal_range(lo, hi, depth, c)` on a range whose suffixes share their first
/// `depth` bytes must return exactly the ranks of the range with byte `c` at that depth.
/// All calls are derived from (text, queries) alone, so a replay repeats them.
fn dict_case(cx: &mut Ctx, variant: u64, t: &[u8], queries: &[Vec<u8>], to_coq: bool) {
    let n = t.len();
    let cj = json!({"cell": "dict", "variant": variant, "text": t, "patterns": queries});
    let cfg = dict_cfg(variant, n);
    let cells = ["SuffixArrayDictionary/sa_match_continuation", "SuffixArrayDictionary/da_match_max_length"];
    let rcell = "SuffixArrayDictionary/sa_equal_range";
    let d = match guarded(|| SuffixArrayDictionary::new(t, cfg.clone())) {
        Err(m) => { cx.sum.fail(cells[0], None, cj, &format!("SuffixArrayDictionary::new panicked: {}", m)); return; }
        Ok(Err(_)) => { cx.sum.dist("dict_build_refused"); return; }
        Ok(Ok(d)) => d,
    };
    if d.dictionary_text() != t { cx.sum.dist("dict_text_sampled"); return; }
    cx.sum.dist_max("dict_max_cache_states", d.cache_states() as u64);
    let mut sa: Vec<usize> = (0..n).collect();
    sa.sort_by(|&a, &b| t[a..].cmp(&t[b..]));
    let mut conts: Vec<String> = vec![];
    let mut das: Vec<String> = vec![];
    let mut ranges: Vec<String> = vec![];
    let mut seen_calls: std::collections::HashSet<(usize, usize, usize, u8)> = std::collections::HashSet::new();
    for q in queries {
        // the longest prefix of q that occurs in t, and its rank range
        let mut depth = 0;
        while depth < q.len() && !occurrences(t, &q[..depth + 1]).is_empty() { depth += 1; }
        let occ = occurrences(t, &q[..depth]);
        for (ci, cell) in cells.iter().enumerate() {
            cx.sum.eval(cell, &format!("{} {:?} {:?}", variant, t, q), !q.is_empty() && n >= 2);
            if ci == 1 && q.is_empty() { continue; } // documented: empty input -> (0, 0, 0)
            let r = guarded(|| if ci == 0 { d.sa_match_continuation(0, n, 0, q) } else { d.da_match_max_length(q) });
            match r {
                Err(m) => cx.sum.fail(cell, None, cj.clone(), &format!("query {:?} panicked: {}", q, m)),
                Ok(ms) => {
                    let mut why = String::new();
                    if ms.depth != depth { why = format!("depth {} but the longest prefix of the query that occurs has length {}", ms.depth, depth); }
                    else if depth == 0 { /* nothing matched: the range is not constrained */ }
                    else if ms.lo > ms.hi || ms.hi > n { why = format!("range ({}, {}) is not a rank range", ms.lo, ms.hi); }
                    else { let mut got = sa[ms.lo..ms.hi].to_vec(); got.sort(); if got != occ { why = format!("ranks [{}, {}) list {:?}, the matched prefix occurs at {:?}", ms.lo, ms.hi, &got[..got.len().min(10)], &occ[..occ.len().min(10)]); }
                        else if ms.match_count() != occ.len() || ms.is_empty() { why = format!("match_count {} / is_empty {} for {} occurrences", ms.match_count(), ms.is_empty(), occ.len()); } }
                    if !why.is_empty() { cx.sum.fail(cell, None, cj.clone(), &format!("query {:?}: {}", &q[..q.len().min(16)], why)); }
                    if ci == 0 { conts.push(format!("([0; {}; 0; {}; {}; {}]%N, {})", n, ms.lo, ms.hi, ms.depth, coq_bytes(q))); }
                    else { das.push(format!("([{}; {}; {}]%N, {})", ms.lo, ms.hi, ms.depth, coq_bytes(q))); }
                }
            }
        }
        // ---- the refinement steps along q: [lo, hi) = ranks whose suffixes start with q[..pos] ----
        let (mut lo, mut hi) = (0usize, n);
        for pos in 0..q.len().min(depth + 1) {
            if lo >= hi { break; }
            let next = q[pos];
            let others = [next, next.wrapping_add(1), next.wrapping_sub(1), 0u8, 255u8, t[sa[hi - 1]..].get(pos).copied().unwrap_or(7), t[sa[lo]..].get(pos).copied().unwrap_or(9)];
            // the full range and sub-ranges of it (they still share the prefix)
            let subs = [(lo, hi), (lo + 1, hi), (lo, hi - 1), (lo + (hi - lo) / 2, hi), (lo, if hi == n { hi + 3 } else { hi })];
            for (si, &(a, b)) in subs.iter().enumerate() {
                for (oi, &c) in others.iter().enumerate() {
                    if si > 0 && oi > 2 && oi < 5 { continue; }
                    if !seen_calls.insert((a, b, pos, c)) { continue; }
                    cx.sum.eval(rcell, &format!("{:?} {} {} {} {}", t, a, b, pos, c), b > a + 3);
                    match guarded(|| d.sa_equal_range(a, b, pos, c)) {
                        Err(m) => cx.sum.fail(rcell, None, cj.clone(), &format!("sa_equal_range({}, {}, {}, {}) panicked: {}", a, b, pos, c, m)),
                        Ok((l, r)) => {
                            let want: Vec<usize> = (a..b.min(n)).filter(|&k| sa[k] + pos < n && t[sa[k] + pos] == c).collect();
                            let good = if want.is_empty() { l >= r } else { l == want[0] && r == want[want.len() - 1] + 1 && r - l == want.len() };
                            if !good { cx.sum.fail(rcell, None, cj.clone(), &format!("sa_equal_range({}, {}, depth {}, byte {}) = ({}, {}), the ranks of that range with that byte at that depth are {:?}", a, b, pos, c, l, r, &want[..want.len().min(12)])); }
                            if want.len() == 1 && want[0] + 1 == b.min(n) && b.min(n) - a > 3 { cx.sum.dist("equal_range_only_hit_is_last_rank_binary_path"); }
                            if ranges.len() < 60 { ranges.push(format!("[{}; {}; {}; {}; {}; {}]%N", a, b, pos, c, l, r)); }
                        }
                    }
                }
            }
            // calls outside the documented use (empty / reversed / out-of-range arguments): model comparison only
            for &(a, b, p2) in &[(hi, lo, pos), (n, n + 1, pos), (lo, hi, pos + n + 1), (n.saturating_sub(1), n + 2, 0), (lo, hi + 3, pos), (lo.saturating_sub(1), hi, pos)] {
                if !seen_calls.insert((a, b, p2, next)) { continue; }
                if let Ok((l, r)) = guarded(|| d.sa_equal_range(a, b, p2, next)) {
                    if ranges.len() < 70 { ranges.push(format!("[{}; {}; {}; {}; {}; {}]%N", a, b, p2, next, l, r)); }
                }
            }
            // continuation from the middle of the walk
            if let Ok(ms) = guarded(|| d.sa_match_continuation(lo, hi, pos, q)) {
                if ms.depth != depth && pos <= depth { cx.sum.fail(cells[0], None, cj.clone(), &format!("sa_match_continuation({}, {}, {}, {:?}) stops at depth {}, the longest occurring prefix has length {}", lo, hi, pos, &q[..q.len().min(16)], ms.depth, depth)); }
                if conts.len() < 30 { conts.push(format!("([{}; {}; {}; {}; {}; {}]%N, {})", lo, hi, pos, ms.lo, ms.hi, ms.depth, coq_bytes(q))); }
            }
            let want: Vec<usize> = (lo..hi).filter(|&k| sa[k] + pos < n && t[sa[k] + pos] == next).collect();
            if want.is_empty() { break; }
            lo = want[0]; hi = want[want.len() - 1] + 1;
        }
    }
    if to_coq && n <= 120 && cx.dict_coq < cx.dict_coq_budget {
        cx.dict_coq += 1;
        let term = format!("Dict {} {} [{}] [{}] [{}]", coq_bytes(t), coq_n_list(sa.iter().map(|&x| x as u128)), ranges.join("; "), conts.join("; "), das.join("; "));
        cx.shards.push(term, cj);
    }
}

// ---------- generators ----------
fn all_strings(alpha: &[u8], max_len: usize) -> Vec<Vec<u8>> {
    let mut out: Vec<Vec<u8>> = vec![vec![]];
    let mut level: Vec<Vec<u8>> = vec![vec![]];
    for _ in 0..max_len {
        let mut next = vec![];
        for s in &level { for &a in alpha { let mut x = s.clone(); x.push(a); next.push(x); } }
        out.extend(next.iter().cloned());
        level = next;
    }
    out
}
fn fibonacci_word(n: usize, a: u8, b: u8) -> Vec<u8> {
    let (mut x, mut y) = (vec![b], vec![a]);
    while y.len() < n { let mut z = y.clone(); z.extend_from_slice(&x); x = y; y = z; }
    y.truncate(n); y
}
fn thue_morse(n: usize, a: u8, b: u8) -> Vec<u8> { (0..n).map(|i| if (i as u64).count_ones() % 2 == 0 { a } else { b }).collect() }

fn gen_text(r: &mut Rng, max_n: usize) -> (Vec<u8>, &'static str) {
    let n = match r.below(8) { 0 => r.below(4) as usize, 1 => r.range(4, 12) as usize, 2..=5 => r.range(2, max_n.min(90) as u64) as usize, _ => r.range(2, max_n as u64) as usize };
    let base = *r.pick(&[0u8, 1, 97, 127, 128, 200, 254]);
    match r.below(10) {
        0 => (vec![*r.pick(&[0u8, 97, 255]); n], "single_symbol"),
        1 => { // long runs
            let mut t = vec![]; let k = r.range(1, 4) as u8;
            while t.len() < n { let c = base.wrapping_add(r.below(k as u64 + 1) as u8); let run = r.range(1, 40) as usize; for _ in 0..run { t.push(c); } }
            t.truncate(n); (t, "long_runs") }
        2 => { // periodic, periods 1..7, possibly with one defect
            let p = r.range(1, 7) as usize; let unit: Vec<u8> = (0..p).map(|_| base.wrapping_add(r.below(3) as u8)).collect();
            let mut t: Vec<u8> = (0..n).map(|i| unit[i % p]).collect();
            if n > 0 && r.chance(1, 3) { let i = r.below(n as u64) as usize; t[i] = t[i].wrapping_add(1); }
            (t, "periodic") }
        3 => (fibonacci_word(n, base, base.wrapping_add(1)), "fibonacci"),
        4 => (thue_morse(n, base.wrapping_add(1), base), "thue_morse"),
        5 => { let k = r.range(1, 256); ((0..n).map(|_| r.below(k) as u8).collect(), "random_alphabet_k") }
        6 => { let k = *r.pick(&[2u64, 3, 4]); ((0..n).map(|_| base.wrapping_add(r.below(k) as u8)).collect(), "random_small_alphabet") }
        7 => { // descending / ascending ramps (all-L / all-S type strings) with ties
            let up = r.chance(1, 2); let step = r.range(1, 3) as usize;
            ((0..n).map(|i| { let v = (i / step) as u8; if up { v } else { 255 - v } }).collect(), "monotone") }
        8 => { // values at the byte extremes
            ((0..n).map(|_| *r.pick(&[0u8, 0, 1, 254, 255, 255])).collect(), "byte_extremes") }
        _ => { // a text repeated twice with a separator smaller/larger than everything
            let h: Vec<u8> = (0..n / 2).map(|_| base.wrapping_add(r.below(3) as u8)).collect();
            let mut t = h.clone(); if n % 2 == 1 { t.push(*r.pick(&[0u8, 255])); } t.extend_from_slice(&h); (t, "square") }
    }
}

fn gen_patterns(r: &mut Rng, t: &[u8], k: usize) -> Vec<Vec<u8>> {
    let n = t.len();
    let mut ps: Vec<Vec<u8>> = vec![vec![]];
    if n > 0 {
        ps.push(t.to_vec());                                  // the whole text
        ps.push(t[n - 1..].to_vec());                         // the last suffix
        let mut longer = t.to_vec(); longer.push(t[0]); ps.push(longer); // longer than the text
        ps.push(vec![t[n / 2]]);
    }
    ps.push(vec![0]); ps.push(vec![255]);
    for _ in 0..k {
        if n == 0 { let m = r.range(1, 3) as usize; ps.push(r.bytes(m)); continue; }
        let i = r.below(n as u64) as usize;
        let len = (r.range(1, 6) as usize).min(n - i);
        let mut p = t[i..i + len].to_vec();
        match r.below(5) {
            0 => { let j = r.below(p.len() as u64) as usize; p[j] = p[j].wrapping_add(1); }       // probably absent
            1 => { p.push(*r.pick(&[0u8, 255, t[0]])); }                                              // extended
            2 => { let l2 = (n - i).min(r.range(1, 40) as usize); p = t[i..i + l2].to_vec(); }      // long present
            3 => { p = t[i..].to_vec(); }                                                             // a full suffix
            _ => {}
        }
        ps.push(p);
    }
    ps
}

fn small_patterns(alpha: &[u8], absent: u8) -> Vec<Vec<u8>> {
    let mut a = alpha.to_vec(); a.push(absent);
    all_strings(&a, 3)
}

fn u8s(v: &Value) -> Vec<u8> { v.as_array().map(|a| a.iter().map(|x| x.as_u64().unwrap_or(0) as u8).collect()).unwrap_or_default() }
fn pats_of(v: &Value) -> Vec<Vec<u8>> { v.as_array().map(|a| a.iter().map(u8s).collect()).unwrap_or_default() }

fn run_one(cx: &mut Ctx, c: &Value) {
    // big texts are described by {"big": {"kind", "n", "seed"}}, patterns may be {"sub": [start, len], "push": byte}
    let t = wide::text_of(c);
    let pats = wide::pats_from(&c["patterns"], &t);
    let alg_of = |c: &Value| ALGS.iter().position(|(_, n)| Some(*n) == c["alg"].as_str()).unwrap_or(0);
    let preset = (c["preset"].as_u64().unwrap_or(0) as usize).min(cx.comps.len() - 1);
    match c["cell"].as_str() {
        Some("core") => core_case_cj(cx, alg_of(c), c["variant"].as_u64().unwrap_or(0), &t, &pats, true, c.clone()),
        Some("enhanced") => enhanced_case_cj(cx, &t, true, c.clone()),
        Some("compress") => compress_case_cj(cx, preset, c["entry"].as_u64().unwrap_or(0), &t, &pats, true, c.clone()),
        Some("dict") => dict_case(cx, c["variant"].as_u64().unwrap_or(0), &t, &pats, true),
        Some("compress_pair") => wide::compress_pair_case(cx, preset, c["entry"].as_u64().unwrap_or(0), &t, &u8s(&c["text2"]), &pats, c.clone()),
        Some("reuse") => wide::reuse_case(cx, alg_of(c), c["variant"].as_u64().unwrap_or(0), &t, &u8s(&c["text2"]), &pats, c.clone()),
        Some("dict_hist") => wide::dict_hist_case(cx, c),
        _ => {}
    }
}

pub fn run(args: &Args) {
    let comps = vec![
        (SuffixArrayCompressor::new(CompConfig::default()).expect("compressor"), "default", false),
        (SuffixArrayCompressor::new(CompConfig::for_dictionary_compression()).expect("compressor"), "dictionary", true),
        (SuffixArrayCompressor::new(CompConfig { use_secure_pool: false, ..CompConfig::for_large_text() }).expect("compressor"), "large_text", false),
        (SuffixArrayCompressor::new(CompConfig { compute_lcp: true, ..CompConfig::for_realtime() }).expect("compressor"), "realtime+lcp", true),
        // breadth: the Default impl, the presets exactly as shipped, and a configuration with every field off its default
        (SuffixArrayCompressor::default(), "Default::default", false),
        (SuffixArrayCompressor::new(CompConfig::for_large_text()).expect("compressor"), "for_large_text", false),
        (SuffixArrayCompressor::new(CompConfig::for_realtime()).expect("compressor"), "for_realtime", false),
        (SuffixArrayCompressor::new(CompConfig { use_compressed_storage: false, use_simd: !CompConfig::default().use_simd, use_secure_pool: true, secure_pool_threshold: 0,
            use_parallel: true, parallel_threshold: 1, compute_lcp: true, optimize_for_dictionary: true, bucket_cache_size: 0, enable_streaming: true, memory_budget: 0 }).expect("compressor"), "all_fields_off_default", true),
    ];
    for (c, _, _) in &comps { // accessors of the compressor itself (never judged)
        let _ = guarded(|| (c.memory_pool().is_some(), c.estimate_memory(1000), c.supports_parallel(), c.supports_simd(), Algorithm::stats(c).used_parallel, c.config().compute_lcp));
    }
    let mut cx = Ctx {
        sum: Summary::new("C12", "enumerated: every string of length <= 9 over 2 letters, <= 7 over 3, <= 5 over 4 (<= 12/8/6 thorough) x the five algorithms x every pattern of length <= 3 over the alphabet plus one absent letter; generated: single symbol, long runs, periodic (periods 1-7, optional defect), Fibonacci / Thue-Morse words, random over alphabets of size 1..256, monotone ramps, byte extremes 0/255, squares, lengths 0-3 and up to 2000 (> 256 LMS suffixes), x algorithms x configuration variants (parallel path, optimize_small_alphabet off, adaptive_threshold 0 / n / n+1) x patterns (present substrings, mutated, extended, whole text, longer than text, empty, full suffix); each array is checked to be a permutation in strictly increasing suffix order, LCP/BWT/search against naive recomputation; non-trivial = text of >= 2 bytes / non-empty pattern"),
        shards: CoqShards::new(HEADER, 250),
        coq_budget: if args.thorough { 6000 } else { 1250 },
        big_certs: 0,
        big_cert_budget: if args.thorough { 200 } else { 40 },
        comps,
        dict_coq: 0,
        core_coq: 0,
        esa_coq: 0,
        sais_coq: 0,
        sais_coq_budget: if args.thorough { 1500 } else { 110 },
        sais_seen: 0,
        sais_stride: 1,
        esa_coq_budget: if args.thorough { 400 } else { 50 },
        dict_coq_budget: if args.thorough { 900 } else { 120 },
    };
    for (cell, st) in [("build/SAIS", "M+S"), ("EnhancedSuffixArray", "M+S"), ("lcp", "M+S"), ("search", "M+S"),
        ("SuffixArrayDictionary/sa_equal_range", "M+S"), ("SuffixArrayDictionary/sa_match_continuation", "M+S"), ("SuffixArrayDictionary/da_match_max_length", "M+S")] { cx.sum.cell_status(cell, st); }
    let mut rng = Rng::new(args.seed);
    if let Some(f) = &args.replay {
        if std::env::var("ZV_C12_TRACE").is_ok() { std::panic::set_hook(Box::new(|info| eprintln!("panic: {}", info))); }
        let v: Value = serde_json::from_str(&std::fs::read_to_string(f).expect("replay file")).expect("json");
        let c = if v.get("case").is_some() { v["case"].clone() } else { v };
        run_one(&mut cx, &c);
        let sh = cx.shards.write(&args.out);
        cx.sum.write(&args.out, sh);
        return;
    }
    if let Ok(rd) = std::fs::read_dir("corpus/C12") {
        let mut files: Vec<_> = rd.filter_map(|e| e.ok()).map(|e| e.path()).collect();
        files.sort();
        for p in files {
            if let Ok(v) = serde_json::from_str::<Value>(&std::fs::read_to_string(&p).unwrap_or_default()) {
                let c = if v.get("case").is_some() { v["case"].clone() } else { v };
                run_one(&mut cx, &c);
                cx.sum.dist("corpus_cases");
            }
        }
    }
    // ---- enumerated universe ----
    let (l2, l3, l4) = if args.thorough { (12, 8, 6) } else { (9, 7, 5) };
    let mut universe: Vec<(Vec<u8>, Vec<Vec<u8>>)> = vec![];
    for (alpha, maxl, absent) in [(vec![97u8, 98], l2, 99u8), (vec![97u8, 98, 99], l3, 96), (vec![0u8, 1, 254, 255], l4, 128)] {
        let pats = small_patterns(&alpha, absent);
        for s in all_strings(&alpha, maxl) { universe.push((s, pats.clone())); }
    }
    cx.sum.dist_max("enumerated_texts", universe.len() as u64);
    cx.sais_stride = (universe.len() / (cx.sais_coq_budget / 2)).max(1);
    let stride = (universe.len() * 5 / (cx.coq_budget * 2 / 3)).max(1);
    let mut k = 0usize;
    let only_wide = std::env::var("ZV_C12_ONLY_WIDE").is_ok(); // development switch: run the breadth families only
    if only_wide { wide::families(&mut cx, &mut rng, &universe, args.thorough); let sh = cx.shards.write(&args.out); cx.sum.write(&args.out, sh); return; }
    for (t, pats) in &universe {
        for a in 0..5 {
            k += 1;
            // all patterns for one algorithm per text (search does not depend on the algorithm), a few for the others
            let ps: &[Vec<u8>] = if a == (t.len() % 5) { &pats[..] } else { &pats[..pats.len().min(5)] };
            let to_coq = k % stride == 0;
            let before = cx.coq_budget;
            if !to_coq { cx.coq_budget = 0; }
            let ps_coq: Vec<Vec<u8>> = if to_coq { ps.iter().take(14).cloned().collect() } else { ps.to_vec() };
            core_case(&mut cx, a, 0, t, if to_coq { &ps_coq } else { ps }, false);
            cx.coq_budget = before;
        }
    }
    // ---- the dictionary matcher on the enumerated universe (every refinement step along every small pattern) ----
    {
        let dstride = (universe.len() / (cx.dict_coq_budget * 2 / 3)).max(1);
        for (ui, (t, pats)) in universe.iter().enumerate() {
            if t.is_empty() { continue; }
            let qs: Vec<Vec<u8>> = pats.iter().filter(|p| p.len() == 3 || (ui % 7 == 0 && !p.is_empty())).cloned().collect();
            dict_case(&mut cx, (ui as u64) % DICT_VARIANTS, t, &qs, ui % dstride == 0);
        }
    }
    // ---- generated ----
    cx.sais_stride = if args.thorough { 17 } else { 23 };
    let ng = if args.thorough { 50000 } else { 2400 };
    for i in 0..ng {
        let (t, kind) = gen_text(&mut rng, if i % 16 == 0 { 2000 } else { 260 });
        cx.sum.dist(&format!("text_{}", kind));
        cx.sum.dist_max("max_text_len", t.len() as u64);
        let pats = gen_patterns(&mut rng, &t, 6);
        if i < 3 { cx.sum.sample(json!({"text": &t[..t.len().min(24)], "kind": kind, "patterns": pats.iter().take(3).collect::<Vec<_>>()})); }
        let a = (i % 5) as usize;
        let variant = if a == 4 { rng.below(9) } else { *rng.pick(&[0u64, 1, 0, 1, 5, 6, 7, 8]) };
        core_case(&mut cx, a, variant, &t, &pats, false);
        if i % 3 == 0 { core_case(&mut cx, 0, rng.below(2) * 3, &t, &pats[..pats.len().min(4)], false); }
        if i % 4 == 0 { enhanced_case(&mut cx, &t, false); }
        if i % 4 == 1 {
            let (preset, entry) = ((i / 4 % 8) as usize, (i / 32 % 2) as u64);
            let cj = json!({"cell": "compress", "preset": preset, "entry": entry, "text": t, "patterns": pats});
            compress_case_cj(&mut cx, preset, entry, &t, &pats, false, cj);
        }
        if i % 4 == 2 && !t.is_empty() && t.len() <= 400 { dict_case(&mut cx, (i / 4) as u64 % DICT_VARIANTS, &t, &pats, i % 8 == 2); }
    }
    // ---- breadth: secondary entry points, presets, thresholds, object reuse, dictionary histories ----
    wide::families(&mut cx, &mut rng, &universe, args.thorough);
    // ---- a few texts at and above the default adaptive threshold (10 000) ----
    let nbig = if args.thorough { 12 } else { 3 };
    for i in 0..nbig {
        let n = *rng.pick(&[9_999usize, 10_000, 10_001, 12_000]);
        let k = *rng.pick(&[2u64, 4, 5, 60, 256]);
        let t: Vec<u8> = match i % 3 { 0 => (0..n).map(|_| rng.below(k) as u8).collect(), 1 => { let mut t = vec![]; while t.len() < n { let c = rng.below(k) as u8; for _ in 0..rng.range(1, 30) { t.push(c); } } t.truncate(n); t } _ => fibonacci_word(n, 7, 9) };
        let pats = gen_patterns(&mut rng, &t, 3);
        cx.sum.dist("text_at_adaptive_threshold");
        core_case(&mut cx, 4, 0, &t, &pats, false);
        if i == 0 { enhanced_case(&mut cx, &t, false); }
    }
    // ---- LCP values beyond 16 bits (the arrays are stored as u32 / packed integers) ----
    let nrep = if args.thorough { 6 } else { 2 };
    for i in 0..nrep {
        let half = 65_536 + rng.below(600) as usize;
        let t: Vec<u8> = match i % 3 {
            0 => vec![*rng.pick(&[0u8, 97, 255]); half + 1],                                   // a^n: lcp[k] = k
            1 => { let k = rng.range(2, 200); let h: Vec<u8> = (0..half).map(|_| rng.below(k) as u8).collect(); let mut t = h.clone(); t.extend_from_slice(&h); t } // xx
            _ => { let p = rng.range(2, 7) as usize; (0..half + p).map(|j| (j % p) as u8 + 1).collect() }   // periodic
        };
        let n = t.len();
        let pats = vec![t[n / 3..n / 3 + 5].to_vec(), t[n - 65_540.min(n)..].to_vec(), vec![t[0], t[0].wrapping_add(9)]];
        cx.sum.dist("text_lcp_above_65535");
        let t0 = std::time::Instant::now();
        core_case(&mut cx, if i % 2 == 0 { 0 } else { 4 }, 0, &t, &pats, false);
        let t1 = std::time::Instant::now();
        compress_case(&mut cx, if i % 2 == 0 { 1 } else { 3 }, &t, &pats, false);
        if std::env::var("ZV_C12_TRACE").is_ok() { eprintln!("big case {}: core {:?} compress {:?}", i, t1 - t0, t1.elapsed()); }
    }
    cx.sum.dist_max("coq_cases", cx.shards.len() as u64);
    let sh = cx.shards.write(&args.out);
    cx.sum.write(&args.out, sh);
}
