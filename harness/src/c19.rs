//! C19: file-backed structures reopen as written; damaged files are refused.
//!
//! How the oracle works (independent of the Coq model):
//!  * the writer runs the real code in this process while an in-process tracer (libc symbol
//!    interposition: open64/write/pwrite64/ftruncate64/fsync/rename/unlink/mmap64/msync/...)
//!    records the sequence of file operations the code issues;
//!  * crash images are constructed from that trace and a simulated disk: every prefix of the
//!    operations, the last write torn (boundary-biased / exhaustive byte positions), one unsynced
//!    write dropped ("header written, data not" and vice versa), one 4 KiB block rolled back to its
//!    pre-write content; plus every truncation length of the finished file(s);
//!  * every image is reopened and read completely by the real code in a *different* process
//!    (a reader server exec'd before any writer ran, forking one worker per image so that
//!    SIGSEGV/SIGBUS/abort/timeouts are observed);
//!  * verdict per image: Err, or exactly a logical state the structure had at an operation
//!    boundary not later than the interrupted operation; anything else (a state that never
//!    existed, a fault, a panic, an inconsistent reader) fails.  After a clean sync/finish the
//!    reopened state must equal the shadow exactly.
//!
//! M+S cells (evaluated by the Coq model too, see coq/C19/ModelCases.v): MmapVec<u8|u16|u32|u64> open/read and the
//! state (len, capacity, file length) after every operation; ZReorderMap open/iterate, builder output and its write
//! sequence; ZipOffsetBlobStore image, save operations and loader (final, cut and bit-flipped images);
//! PlainBlobStore whole-history file operations; MemoryMappedOutput position/capacity/file.
//! S-only cell: SuffixArrayDictionary (bincode image; only its write protocol is compared).
use crate::util::*;
use serde_json::{json, Value};
use std::collections::{BTreeMap, HashMap};
use std::io::{BufRead, BufReader, Write};

// =====================================================================================
// file-operation tracer
// =====================================================================================
pub mod trace {
    use std::collections::HashMap;
    use std::os::raw::{c_char, c_int, c_long, c_uint, c_void};
    use std::sync::atomic::{AtomicBool, Ordering};
    use std::sync::Mutex;

    #[derive(Clone, Debug, PartialEq)]
    pub enum Op {
        Open { p: String, creat: bool, trunc: bool },
        SetLen { p: String, n: u64 },
        Write { p: String, off: u64, data: Vec<u8> },
        Fsync { p: String },
        Rename { a: String, b: String },
        Unlink { p: String },
    }
    struct Region { addr: usize, len: usize, p: String, off: u64 }
    struct St { root: Vec<u8>, fds: HashMap<c_int, (String, bool)>, regions: Vec<Region>, ops: Vec<Op> }
    static ON: AtomicBool = AtomicBool::new(false);
    static ST: Mutex<Option<St>> = Mutex::new(None);

    pub fn start(root: &str) {
        let mut r = root.as_bytes().to_vec();
        if !r.ends_with(b"/") { r.push(b'/'); }
        *ST.lock().unwrap() = Some(St { root: r, fds: HashMap::new(), regions: vec![], ops: vec![] });
        ON.store(true, Ordering::SeqCst);
    }
    pub fn pause() { ON.store(false, Ordering::SeqCst); }
    pub fn resume() { ON.store(true, Ordering::SeqCst); }
    pub fn len() -> usize { ST.lock().unwrap().as_ref().map(|s| s.ops.len()).unwrap_or(0) }
    pub fn stop() -> Vec<Op> {
        ON.store(false, Ordering::SeqCst);
        ST.lock().unwrap().take().map(|s| s.ops).unwrap_or_default()
    }
    fn rel(st: &St, path: *const c_char) -> Option<String> {
        if path.is_null() { return None; }
        let b = unsafe { std::ffi::CStr::from_ptr(path) }.to_bytes();
        if b.starts_with(&st.root) { Some(String::from_utf8_lossy(&b[st.root.len()..]).to_string()) } else { None }
    }
    fn with<R>(f: impl FnOnce(&mut St) -> R) -> Option<R> {
        if !ON.load(Ordering::Relaxed) { return None; }
        let mut g = match ST.lock() { Ok(g) => g, Err(_) => return None };
        g.as_mut().map(f)
    }

    unsafe fn raw_open(path: *const c_char, flags: c_int, mode: c_uint) -> c_int {
        libc::syscall(libc::SYS_openat, libc::AT_FDCWD, path, flags, mode) as c_int
    }
    unsafe fn do_open(path: *const c_char, flags: c_int, mode: c_uint) -> c_int {
        let fd = raw_open(path, flags, mode);
        if fd >= 0 {
            let acc = flags & libc::O_ACCMODE;
            let creat = flags & libc::O_CREAT != 0;
            let trunc = flags & libc::O_TRUNC != 0;
            if acc != libc::O_RDONLY || creat || trunc {
                with(|st| {
                    if let Some(p) = rel(st, path) {
                        if creat || trunc { st.ops.push(Op::Open { p: p.clone(), creat, trunc }); }
                        st.fds.insert(fd, (p, flags & libc::O_APPEND != 0));
                    }
                });
            }
        }
        fd
    }
    #[no_mangle]
    pub unsafe extern "C" fn open64(path: *const c_char, flags: c_int, mode: c_uint) -> c_int { do_open(path, flags, mode) }
    #[no_mangle]
    pub unsafe extern "C" fn open(path: *const c_char, flags: c_int, mode: c_uint) -> c_int { do_open(path, flags, mode) }

    unsafe fn tracked(fd: c_int) -> Option<(String, bool)> {
        with(|st| st.fds.get(&fd).cloned()).flatten()
    }
    unsafe fn cur_off(fd: c_int, append: bool) -> u64 {
        if append {
            let mut s: libc::stat = std::mem::zeroed();
            if libc::syscall(libc::SYS_fstat, fd, &mut s as *mut libc::stat) == 0 { s.st_size as u64 } else { 0 }
        } else {
            let r = libc::syscall(libc::SYS_lseek, fd, 0 as c_long, libc::SEEK_CUR);
            if r < 0 { 0 } else { r as u64 }
        }
    }
    #[no_mangle]
    pub unsafe extern "C" fn write(fd: c_int, buf: *const c_void, n: usize) -> isize {
        if !ON.load(Ordering::Relaxed) { return libc::syscall(libc::SYS_write, fd, buf, n) as isize; }
        match tracked(fd) {
            None => libc::syscall(libc::SYS_write, fd, buf, n) as isize,
            Some((p, app)) => {
                let off = cur_off(fd, app);
                let r = libc::syscall(libc::SYS_write, fd, buf, n) as isize;
                if r > 0 {
                    let data = std::slice::from_raw_parts(buf as *const u8, r as usize).to_vec();
                    with(|st| st.ops.push(Op::Write { p, off, data }));
                }
                r
            }
        }
    }
    unsafe fn do_pwrite(fd: c_int, buf: *const c_void, n: usize, off: i64) -> isize {
        let r = libc::syscall(libc::SYS_pwrite64, fd, buf, n, off) as isize;
        if r > 0 && ON.load(Ordering::Relaxed) {
            if let Some((p, _)) = tracked(fd) {
                let data = std::slice::from_raw_parts(buf as *const u8, r as usize).to_vec();
                with(|st| st.ops.push(Op::Write { p, off: off as u64, data }));
            }
        }
        r
    }
    #[no_mangle]
    pub unsafe extern "C" fn pwrite64(fd: c_int, buf: *const c_void, n: usize, off: i64) -> isize { do_pwrite(fd, buf, n, off) }
    #[no_mangle]
    pub unsafe extern "C" fn pwrite(fd: c_int, buf: *const c_void, n: usize, off: i64) -> isize { do_pwrite(fd, buf, n, off) }
    #[no_mangle]
    pub unsafe extern "C" fn writev(fd: c_int, iov: *const libc::iovec, cnt: c_int) -> isize {
        if !ON.load(Ordering::Relaxed) { return libc::syscall(libc::SYS_writev, fd, iov, cnt) as isize; }
        match tracked(fd) {
            None => libc::syscall(libc::SYS_writev, fd, iov, cnt) as isize,
            Some((p, app)) => {
                let off = cur_off(fd, app);
                let r = libc::syscall(libc::SYS_writev, fd, iov, cnt) as isize;
                if r > 0 {
                    let mut data = Vec::with_capacity(r as usize);
                    for i in 0..cnt as usize {
                        let v = &*iov.add(i);
                        data.extend_from_slice(std::slice::from_raw_parts(v.iov_base as *const u8, v.iov_len));
                    }
                    data.truncate(r as usize);
                    with(|st| st.ops.push(Op::Write { p, off, data }));
                }
                r
            }
        }
    }
    unsafe fn do_ftruncate(fd: c_int, n: i64) -> c_int {
        let r = libc::syscall(libc::SYS_ftruncate, fd, n) as c_int;
        if r == 0 && ON.load(Ordering::Relaxed) {
            if let Some((p, _)) = tracked(fd) { with(|st| st.ops.push(Op::SetLen { p, n: n as u64 })); }
        }
        r
    }
    #[no_mangle]
    pub unsafe extern "C" fn ftruncate64(fd: c_int, n: i64) -> c_int { do_ftruncate(fd, n) }
    #[no_mangle]
    pub unsafe extern "C" fn ftruncate(fd: c_int, n: i64) -> c_int { do_ftruncate(fd, n) }
    #[no_mangle]
    pub unsafe extern "C" fn fsync(fd: c_int) -> c_int {
        let r = libc::syscall(libc::SYS_fsync, fd) as c_int;
        if r == 0 && ON.load(Ordering::Relaxed) {
            if let Some((p, _)) = tracked(fd) { with(|st| st.ops.push(Op::Fsync { p })); }
        }
        r
    }
    #[no_mangle]
    pub unsafe extern "C" fn fdatasync(fd: c_int) -> c_int {
        let r = libc::syscall(libc::SYS_fdatasync, fd) as c_int;
        if r == 0 && ON.load(Ordering::Relaxed) {
            if let Some((p, _)) = tracked(fd) { with(|st| st.ops.push(Op::Fsync { p })); }
        }
        r
    }
    #[no_mangle]
    pub unsafe extern "C" fn close(fd: c_int) -> c_int {
        if ON.load(Ordering::Relaxed) { with(|st| st.fds.remove(&fd)); }
        libc::syscall(libc::SYS_close, fd) as c_int
    }
    #[no_mangle]
    pub unsafe extern "C" fn rename(a: *const c_char, b: *const c_char) -> c_int {
        let r = libc::syscall(libc::SYS_renameat, libc::AT_FDCWD, a, libc::AT_FDCWD, b) as c_int;
        if r == 0 {
            with(|st| { if let (Some(x), Some(y)) = (rel(st, a), rel(st, b)) { st.ops.push(Op::Rename { a: x, b: y }); } });
        }
        r
    }
    #[no_mangle]
    pub unsafe extern "C" fn unlink(p: *const c_char) -> c_int {
        let r = libc::syscall(libc::SYS_unlinkat, libc::AT_FDCWD, p, 0) as c_int;
        if r == 0 { with(|st| { if let Some(x) = rel(st, p) { st.ops.push(Op::Unlink { p: x }); } }); }
        r
    }
    // shared writable file mappings: what is stored through the mapping reaches the file at msync/munmap
    unsafe fn do_mmap(addr: *mut c_void, len: usize, prot: c_int, flags: c_int, fd: c_int, off: i64) -> *mut c_void {
        let r = libc::syscall(libc::SYS_mmap, addr, len, prot, flags, fd, off);
        if r != -1 && fd >= 0 && flags & libc::MAP_SHARED != 0 && prot & libc::PROT_WRITE != 0 && ON.load(Ordering::Relaxed) {
            if let Some((p, _)) = tracked(fd) {
                with(|st| st.regions.push(Region { addr: r as usize, len, p, off: off as u64 }));
            }
        }
        r as *mut c_void
    }
    #[no_mangle]
    pub unsafe extern "C" fn mmap64(addr: *mut c_void, len: usize, prot: c_int, flags: c_int, fd: c_int, off: i64) -> *mut c_void { do_mmap(addr, len, prot, flags, fd, off) }
    #[no_mangle]
    pub unsafe extern "C" fn mmap(addr: *mut c_void, len: usize, prot: c_int, flags: c_int, fd: c_int, off: i64) -> *mut c_void { do_mmap(addr, len, prot, flags, fd, off) }
    unsafe fn flush_region(addr: usize, len: usize, sync: bool, remove: bool) {
        with(|st| {
            let mut i = 0;
            while i < st.regions.len() {
                let (ra, rl) = (st.regions[i].addr, st.regions[i].len);
                if ra < addr + len.max(1) && addr < ra + rl.max(1) {
                    let lo = ra.max(addr); let mut hi = (ra + rl).min(addr + len);
                    // never touch mapped pages past the end of the file (SIGBUS)
                    let mut full = st.root.clone(); full.extend_from_slice(st.regions[i].p.as_bytes());
                    let fsz = std::fs::metadata(String::from_utf8_lossy(&full).to_string()).map(|m| m.len()).unwrap_or(0);
                    let limit = ra + (fsz.saturating_sub(st.regions[i].off) as usize).min(rl);
                    if hi > limit { hi = limit; }
                    if hi > lo {
                        let data = std::slice::from_raw_parts(lo as *const u8, hi - lo).to_vec();
                        let p = st.regions[i].p.clone();
                        st.ops.push(Op::Write { p: p.clone(), off: st.regions[i].off + (lo - ra) as u64, data });
                        if sync { st.ops.push(Op::Fsync { p }); }
                    }
                    if remove { st.regions.remove(i); continue; }
                }
                i += 1;
            }
        });
    }
    #[no_mangle]
    pub unsafe extern "C" fn msync(addr: *mut c_void, len: usize, flags: c_int) -> c_int {
        let r = libc::syscall(libc::SYS_msync, addr, len, flags) as c_int;
        if r == 0 && ON.load(Ordering::Relaxed) { flush_region(addr as usize, len, flags & libc::MS_SYNC != 0, false); }
        r
    }
    #[no_mangle]
    pub unsafe extern "C" fn munmap(addr: *mut c_void, len: usize) -> c_int {
        if ON.load(Ordering::Relaxed) { flush_region(addr as usize, len, false, true); }
        libc::syscall(libc::SYS_munmap, addr, len) as c_int
    }
}
use trace::Op;

// =====================================================================================
// simulated disk and crash images
// =====================================================================================
type Disk = BTreeMap<String, Vec<u8>>;

fn apply(d: &mut Disk, op: &Op) {
    match op {
        Op::Open { p, creat, trunc } => {
            if *trunc { if d.contains_key(p) || *creat { d.insert(p.clone(), vec![]); } }
            else if *creat && !d.contains_key(p) { d.insert(p.clone(), vec![]); }
        }
        Op::SetLen { p, n } => { d.entry(p.clone()).or_default().resize(*n as usize, 0); }
        Op::Write { p, off, data } => {
            let f = d.entry(p.clone()).or_default();
            let end = *off as usize + data.len();
            if f.len() < end { f.resize(end, 0); }
            f[*off as usize..end].copy_from_slice(data);
        }
        Op::Fsync { .. } => {}
        Op::Rename { a, b } => { if let Some(x) = d.remove(a) { d.insert(b.clone(), x); } }
        Op::Unlink { p } => { d.remove(p); }
    }
}
fn op_path(op: &Op) -> &str {
    match op { Op::Open { p, .. } | Op::SetLen { p, .. } | Op::Write { p, .. } | Op::Fsync { p } | Op::Unlink { p } => p, Op::Rename { a, .. } => a }
}
fn op_brief(op: &Op) -> Value {
    match op {
        Op::Open { p, creat, trunc } => json!(["open", p, creat, trunc]),
        Op::SetLen { p, n } => json!(["set_len", p, n]),
        Op::Write { p, off, data } => json!(["write", p, off, data.len()]),
        Op::Fsync { p } => json!(["fsync", p]),
        Op::Rename { a, b } => json!(["rename", a, b]),
        Op::Unlink { p } => json!(["unlink", p]),
    }
}

/// byte positions worth cutting at, for a buffer of length n starting at file offset `base`
fn cut_points(n: usize, base: usize, marks: &[usize], r: &mut Rng, exhaustive: bool, extra: usize) -> Vec<usize> {
    if n == 0 { return vec![]; }
    if exhaustive && n <= 20000 { return (0..n).collect(); }
    let mut v: Vec<usize> = vec![0, 1, 2, 7, 8, 9, 15, 16, 17, 23, 24, 25, 31, 32, 33, 63, 64, 65, 71, 72, 73, 79, 80, 81, 87, 88, 127, 128, 129, n - 1, n.saturating_sub(2), n.saturating_sub(8), n.saturating_sub(9), n / 2];
    for &m in marks { for d in [-1i64, 0, 1] { let x = m as i64 - base as i64 + d; if x >= 0 { v.push(x as usize); } } }
    let mut b = 4096usize;
    while b < base + n { for d in [-1i64, 0, 1] { let x = b as i64 - base as i64 + d; if x >= 0 { v.push(x as usize); } } b += 4096; }
    for _ in 0..extra { v.push(r.below(n as u64) as usize); }
    v.retain(|&x| x < n);
    v.sort_unstable(); v.dedup();
    v
}

struct Image { disk: Disk, when: usize, torn: bool, kind: String }

/// crash images of a trace over an initial disk (see the module comment for the relation)
fn crash_images(init: &Disk, ops: &[Op], marks: &[usize], r: &mut Rng, exhaustive: bool, extra: usize) -> Vec<Image> {
    let mut out = vec![];
    let mut states: Vec<Disk> = vec![init.clone()];
    for op in ops { let mut d = states.last().unwrap().clone(); apply(&mut d, op); states.push(d); }
    for k in 0..=ops.len() {
        out.push(Image { disk: states[k].clone(), when: k, torn: false, kind: format!("prefix:{}", k) });
        if k == ops.len() { break; }
        // op k torn
        if let Op::Write { p, off, data } = &ops[k] {
            for t in cut_points(data.len(), *off as usize, marks, r, exhaustive, extra) {
                if t == 0 { continue; }
                let mut d = states[k].clone();
                apply(&mut d, &Op::Write { p: p.clone(), off: *off, data: data[..t].to_vec() });
                out.push(Image { disk: d, when: k, torn: true, kind: format!("torn:{}@{}", k, t) });
            }
        }
    }
    // reordering inside the unsynced window: crash after op k-1, an earlier unsynced write/set_len j dropped,
    // or one 4 KiB block of write j still holding its pre-write content
    for k in 1..=ops.len() {
        // only the last few write operations before the crash are candidates (older unsynced writes have
        // been overwritten by whole-file rewrites in every structure looked at; keeps the image count linear)
        let mut window = 0;
        for j in (0..k).rev() {
            let pj = op_path(&ops[j]).to_string();
            let droppable = matches!(ops[j], Op::Write { .. } | Op::SetLen { .. });
            if !droppable { continue; }
            window += 1;
            if window > 4 { break; }
            // a later fsync of the same file (under whatever name it then has) pins op j
            let mut name = pj.clone();
            let mut pinned = false;
            for f in j + 1..k {
                match &ops[f] {
                    Op::Fsync { p } if *p == name => { pinned = true; break; }
                    Op::Rename { a, b } if *a == name => { name = b.clone(); }
                    _ => {}
                }
            }
            if pinned { continue; }
            // drop op j
            let mut d = states[j].clone();
            for f in j + 1..k { apply(&mut d, &ops[f]); }
            out.push(Image { disk: d, when: k - 1, torn: true, kind: format!("drop:{}@{}", j, k) });
            // block rollback
            if let Op::Write { off, data, .. } = &ops[j] {
                let (lo, hi) = (*off as usize, *off as usize + data.len());
                let nblocks = (hi + 4095) / 4096 - lo / 4096;
                let mut blocks: Vec<usize> = (lo / 4096..(hi + 4095) / 4096).collect();
                if nblocks > 6 && !exhaustive {
                    let mut pick = vec![blocks[0], blocks[1], *blocks.last().unwrap()];
                    for _ in 0..3 { pick.push(*r.pick(&blocks)); }
                    pick.sort_unstable(); pick.dedup(); blocks = pick;
                }
                for b in blocks {
                    let mut d = states[k].clone();
                    let before = states[j].get(&pj).cloned().unwrap_or_default();
                    if let Some(f) = d.get_mut(&name) {
                        let (s, e) = ((b * 4096).max(lo), ((b + 1) * 4096).min(hi).min(f.len()));
                        if s >= e { continue; }
                        for x in s..e { f[x] = before.get(x).copied().unwrap_or(0); }
                        out.push(Image { disk: d, when: k - 1, torn: true, kind: format!("block:{}#{}@{}", j, b, k) });
                    }
                }
            }
        }
    }
    out
}

// =====================================================================================
// reader side: what a fresh process sees (runs in a forked worker of the reader server)
// =====================================================================================
use zipora::blob_store::{BlobStore, IterableBlobStore, PlainBlobStore, ZReorderMap, ZReorderMapBuilder, ZipOffsetBlobStore, ZipOffsetBlobStoreBuilder};
use zipora::compression::{SuffixArrayDictionary, SuffixArrayDictionaryConfig};
use zipora::memory::{MmapVec, MmapVecConfig};
use zipora::{MemoryMappedInput, MemoryMappedOutput};

trait El: Copy + 'static { const ES: usize; fn from(v: u64) -> Self; fn to(self) -> u64; }
impl El for u8 { const ES: usize = 1; fn from(v: u64) -> Self { v as u8 } fn to(self) -> u64 { self as u64 } }
impl El for u16 { const ES: usize = 2; fn from(v: u64) -> Self { v as u16 } fn to(self) -> u64 { self as u64 } }
impl El for u32 { const ES: usize = 4; fn from(v: u64) -> Self { v as u32 } fn to(self) -> u64 { self as u64 } }
impl El for u64 { const ES: usize = 8; fn from(v: u64) -> Self { v } fn to(self) -> u64 { self } }

const READ_LIMIT: usize = 400_000;

fn mv_read<T: El>(path: &str) -> Value {
    match MmapVec::<T>::open(path, MmapVecConfig::default()) {
        Err(e) => json!({"err": e.to_string()}),
        Ok(v) => {
            let n = v.len();
            let lim = n.min(READ_LIMIT);
            let mut elems: Vec<u64> = Vec::with_capacity(lim);
            for i in 0..lim {
                match v.get(i) { Some(x) => elems.push(x.to()), None => return json!({"bad": format!("get({}) = None although len = {}", i, n)}) }
            }
            if n > lim { for i in [n - 1, n / 2, lim + (n - lim) / 3] { if v.get(i).is_none() { return json!({"bad": "get inside len = None"}); } } }
            if v.get(n).is_some() { return json!({"bad": "get(len) is Some"}); }
            let s = v.as_slice();
            if s.len() != n { return json!({"bad": "as_slice length differs from len"}); }
            for i in 0..lim { if s[i].to() != elems[i] { return json!({"bad": "as_slice differs from get"}); } }
            if n <= lim && (&v).into_iter().count() != n { return json!({"bad": "iterator count differs from len"}); }
            json!({"ok": {"len": n, "elems": elems}, "cap": v.capacity()})
        }
    }
}
fn hex(b: &[u8]) -> String { let mut s = String::with_capacity(b.len() * 2); for x in b { s.push_str(&format!("{:02x}", x)); } s }
fn unhex(s: &str) -> Vec<u8> { (0..s.len() / 2).map(|i| u8::from_str_radix(&s[2 * i..2 * i + 2], 16).unwrap_or(0)).collect() }

fn read_state(req: &Value) -> Value {
    let path = req["path"].as_str().unwrap_or("");
    match req["cell"].as_str().unwrap_or("") {
        "mmapvec" => match req["es"].as_u64().unwrap_or(8) { 1 => mv_read::<u8>(path), 2 => mv_read::<u16>(path), 4 => mv_read::<u32>(path), _ => mv_read::<u64>(path) },
        "plain" => match PlainBlobStore::new(path) {
            Err(e) => json!({"err": e.to_string()}),
            Ok(st) => {
                let mut m = serde_json::Map::new();
                let ids: Vec<u32> = st.iter_ids().collect();
                if ids.len() != st.len() { return json!({"bad": "len differs from number of ids"}); }
                for id in ids {
                    match st.get(id) { Ok(d) => { m.insert(id.to_string(), json!(hex(&d))); }
                                       Err(e) => return json!({"bad": format!("listed id {} unreadable: {}", id, e)}) }
                    if !st.contains(id) { return json!({"bad": "listed id not contained"}); }
                    if st.size(id).ok().flatten() != st.get(id).ok().map(|d| d.len()) { return json!({"bad": "size differs from get"}); }
                }
                json!({"ok": {"records": Value::Object(m)}})
            }
        },
        "reorder" => match ZReorderMap::open(path) {
            Err(e) => json!({"err": e.to_string()}),
            Ok(mut m) => {
                let size = m.size();
                let mut vals: Vec<u64> = vec![];
                let lim = size.min(READ_LIMIT);
                while vals.len() < lim { match m.next() { Some(v) => vals.push(v as u64), None => break } }
                if size > lim { return json!({"ok": {"size": size, "values": vals, "cut": true}}); }
                if m.next().is_some() { return json!({"bad": "yields more than size() values"}); }
                json!({"ok": {"size": size, "values": vals}})
            }
        },
        "zipoffset" => match ZipOffsetBlobStore::load_from_file(path) {
            Err(e) => json!({"err": e.to_string()}),
            Ok(st) => {
                let n = st.len();
                let mut recs = vec![];
                for id in 0..n.min(READ_LIMIT) { match st.get(id as u32) { Ok(d) => recs.push(hex(&d)), Err(e) => return json!({"bad": format!("record {} of {} unreadable: {}", id, n, e)}) } }
                json!({"ok": {"records": recs}})
            }
        },
        "zipoffset_full" => match ZipOffsetBlobStore::load_from_file(path) {
            Err(e) => json!({"err": e.to_string()}),
            Ok(st) => {
                let n = st.len();
                let gets: Vec<Value> = (0..n.min(READ_LIMIT)).map(|id| match st.get(id as u32) { Ok(d) => json!(hex(&d)), Err(_) => Value::Null }).collect();
                json!({"ok": {"len": n, "gets": gets, "compress": st.config().compress_level}})
            }
        },
        "dict" => match SuffixArrayDictionary::load_from_file(path) {
            Err(e) => json!({"err": e.to_string()}),
            Ok(d) => json!({"ok": {"text": hex(d.data()), "min": d.config().min_pattern_length, "max": d.config().max_pattern_length}}),
        },
        "mmio" => match MemoryMappedInput::from_path(path) {
            Err(e) => json!({"err": e.to_string()}),
            Ok(mut inp) => {
                let n = inp.len();
                let mut all = vec![];
                while all.len() < n {
                    let k = (n - all.len()).min(777);
                    match inp.read_slice(k) { Ok(b) => { if b.len() != k { return json!({"bad": "short read_slice"}); } all.extend_from_slice(&b) }, Err(e) => return json!({"bad": format!("read inside len failed: {}", e)}) }
                }
                if inp.read_slice(1).is_ok() { return json!({"bad": "read past the end succeeded"}); }
                json!({"ok": {"bytes": hex(&all)}})
            }
        },
        other => json!({"bad": format!("unknown cell {}", other)}),
    }
}

/// reader server: one request (JSON line) per image, each served by a forked worker
fn serve() {
    // initialise the library's lazy globals once, so that the forked workers do not each pay for it
    let _ = guarded(|| { for c in ["mmapvec", "reorder", "zipoffset", "dict", "mmio"] { let _ = read_state(&json!({"cell": c, "es": 8, "path": "/nonexistent/zv-c19-warmup"})); } });
    let stdin = std::io::stdin();
    let mut out = std::io::stdout();
    for line in stdin.lock().lines() {
        let line = match line { Ok(l) => l, Err(_) => break };
        if line.trim().is_empty() { continue; }
        let req: Value = serde_json::from_str(&line).unwrap_or(json!({}));
        let mut fds = [0i32; 2];
        unsafe { libc::pipe(fds.as_mut_ptr()); }
        let pid = unsafe { libc::fork() };
        if pid == 0 {
            unsafe {
                libc::close(fds[0]);
                libc::alarm(20);
                let lim = libc::rlimit { rlim_cur: 6 << 30, rlim_max: 6 << 30 };
                libc::setrlimit(libc::RLIMIT_AS, &lim);
                let core = libc::rlimit { rlim_cur: 0, rlim_max: 0 };
                libc::setrlimit(libc::RLIMIT_CORE, &core);
            }
            let res = match guarded(|| read_state(&req)) { Ok(v) => v, Err(p) => json!({"panic": p}) };
            let s = serde_json::to_string(&res).unwrap_or_else(|_| "{\"bad\":\"unprintable\"}".into());
            unsafe {
                let b = s.as_bytes();
                let mut o = 0;
                while o < b.len() { let w = libc::write(fds[1], b[o..].as_ptr() as *const _, b.len() - o); if w <= 0 { break; } o += w as usize; }
                libc::_exit(0);
            }
        }
        unsafe { libc::close(fds[1]); }
        let mut buf = vec![];
        let mut tmp = [0u8; 65536];
        loop { let n = unsafe { libc::read(fds[0], tmp.as_mut_ptr() as *mut _, tmp.len()) }; if n <= 0 { break; } buf.extend_from_slice(&tmp[..n as usize]); }
        unsafe { libc::close(fds[0]); }
        let mut status = 0i32;
        unsafe { libc::waitpid(pid, &mut status, 0); }
        let reply = if libc::WIFSIGNALED(status) {
            let sig = libc::WTERMSIG(status);
            serde_json::to_string(&json!({"fault": format!("signal {}{}", sig, if sig == libc::SIGALRM { " (timeout)" } else { "" })})).unwrap()
        } else if buf.is_empty() { "{\"fault\":\"worker exited without a result\"}".to_string() }
        else { String::from_utf8_lossy(&buf).to_string() };
        let _ = writeln!(out, "{}", reply);
        let _ = out.flush();
    }
}

struct Server { child: std::process::Child, inp: std::process::ChildStdin, out: BufReader<std::process::ChildStdout> }
impl Server {
    fn start(dir: &str) -> Server {
        let f = format!("{}/server.json", dir);
        std::fs::write(&f, "{\"case\": {\"c19_server\": true}}").unwrap();
        let mut child = std::process::Command::new(std::env::current_exe().unwrap())
            .args(["C19", "--replay", &f, "--out", &format!("{}/server_out", dir)])
            .stdin(std::process::Stdio::piped()).stdout(std::process::Stdio::piped()).spawn().expect("reader server");
        let inp = child.stdin.take().unwrap();
        let out = BufReader::new(child.stdout.take().unwrap());
        Server { child, inp, out }
    }
    fn ask(&mut self, req: &Value) -> Value {
        let _ = writeln!(self.inp, "{}", serde_json::to_string(req).unwrap());
        let _ = self.inp.flush();
        let mut line = String::new();
        loop {
            line.clear();
            match self.out.read_line(&mut line) { Ok(0) | Err(_) => return json!({"fault": "reader server died"}), Ok(_) => {} }
            if line.starts_with('{') { break; }   // zipora prints debug lines to stdout in places
        }
        serde_json::from_str(&line).unwrap_or(json!({"bad": "unparsable reply"}))
    }
}
impl Drop for Server { fn drop(&mut self) { let _ = self.child.kill(); let _ = self.child.wait(); } }

// =====================================================================================
// the check proper
// =====================================================================================
const HEADER: &str = r#"From ZV.Common Require Import Base Run.
From ZV.C19 Require Import Model ModelZo ModelPlainDir ModelMvOps ModelRoW ModelMvHist ModelCases.
Open Scope N_scope.
Definition case_t : Type := ModelCases.xcase.
Definition ok (c : case_t) : bool := ModelCases.xcase_ok c.
"#;

struct Ctx {
    sum: Summary, shards: CoqShards, budget: usize, srv: Server, root: String, seq: u64, thorough: bool,
    cache: HashMap<u64, Value>, images: u64, coq_seen: std::collections::HashSet<u64>, proto: usize, n_mv: usize, n_ro: usize,
    n_zo: usize, n_zosave: usize, n_row: usize, n_row_big: usize, n_plain: usize, n_mvops: usize, n_mmio: usize, n_units: usize,
}
fn dbg_case(cj: &Value) { if std::env::var("ZV_C19_DEBUG").is_ok() { let s = cj.to_string(); eprintln!("[{:?}] case {}", std::time::SystemTime::now().duration_since(std::time::UNIX_EPOCH).map(|d| d.as_millis() % 1000000).unwrap_or(0), &s[..s.len().min(400)]); } }
fn fnv64(b: &[u8], mut h: u64) -> u64 { for x in b { h ^= *x as u64; h = h.wrapping_mul(0x100000001b3); } h }

impl Ctx {
    /// Coq cases of the first generation (images, encodings, single-write protocol): they keep their own budget
    fn old_used(&self) -> usize { self.shards.len() - (self.n_zo + 2 * self.n_zosave + self.n_row + self.n_plain + self.n_mvops + self.n_mmio + self.n_units) }
    fn fresh_dir(&mut self, tag: &str) -> String {
        self.seq += 1;
        let d = format!("{}/{}{}", self.root, tag, self.seq);
        let _ = std::fs::remove_dir_all(&d);
        std::fs::create_dir_all(&d).unwrap();
        d
    }
    /// materialise a disk image and let the reader process open and read it
    fn observe(&mut self, cell: &str, extra: &Value, disk: &Disk, target: &str, dir_target: bool) -> Value {
        let mut h = fnv64(cell.as_bytes(), 0xcbf29ce484222325);
        h = fnv64(extra.to_string().as_bytes(), h);
        // a single-file reader only ever opens `target`: other files (temporaries) do not matter to what it sees
        let relevant = |p: &str| dir_target || p == target;
        for (p, b) in disk { if !relevant(p) { continue; } h = fnv64(p.as_bytes(), h); h = fnv64(&[0xff], h); h = fnv64(b, h); h = fnv64(&(b.len() as u64).to_le_bytes(), h); }
        if let Some(v) = self.cache.get(&h) { return v.clone(); }
        let d = self.fresh_dir("img");
        for (p, b) in disk {
            if !relevant(p) { continue; }
            let fp = format!("{}/{}", d, p);
            if let Some(par) = std::path::Path::new(&fp).parent() { let _ = std::fs::create_dir_all(par); }
            std::fs::write(&fp, b).unwrap();
        }
        let path = if dir_target { format!("{}/{}", d, target).trim_end_matches('/').to_string() } else { format!("{}/{}", d, target) };
        if dir_target { let _ = std::fs::create_dir_all(&path); }
        let mut req = extra.clone();
        req["cell"] = json!(cell);
        req["path"] = json!(path);
        let v = self.srv.ask(&req);
        let _ = std::fs::remove_dir_all(&d);
        self.images += 1;
        if self.cache.len() < 200_000 { self.cache.insert(h, v.clone()); }
        v
    }
}

/// verdict on one observed outcome; `allowed` are the logical states that existed not later than the crash
fn judge(out: &Value, allowed: &[Value], must_be: Option<&Value>) -> Result<(), String> {
    if let Some(f) = out.get("fault") { return Err(format!("reopen faulted: {}", f)); }
    if let Some(p) = out.get("panic") { return Err(format!("reopen panicked: {}", p)); }
    if let Some(b) = out.get("bad") { return Err(format!("reopened structure is inconsistent: {}", b)); }
    if out.get("err").is_some() {
        return if must_be.is_some() { Err(format!("reopen after a clean sync/finish failed: {}", out["err"])) } else { Ok(()) };
    }
    let st = &out["ok"];
    if let Some(m) = must_be { return if st == m { Ok(()) } else { Err(format!("reopened content differs from what was synced: got {} want {}", brief(st), brief(m))) }; }
    if allowed.iter().any(|a| a == st) { Ok(()) } else { Err(format!("reopened state never existed at an earlier point of the history: {}{}", brief(st), allowed.last().map(|a| diff_hint(st, a)).unwrap_or_default())) }
}
/// where a reopened state first differs from the latest allowed one (diagnostics only)
fn diff_hint(got: &Value, want: &Value) -> String {
    for key in ["values", "elems", "records"] {
        if let (Some(g), Some(w)) = (got.get(key).and_then(|x| x.as_array()), want.get(key).and_then(|x| x.as_array())) {
            let i = (0..g.len().min(w.len())).find(|&i| g[i] != w[i]).unwrap_or(g.len().min(w.len()));
            return format!(" [{}: {} entries, latest state has {}; first difference at index {}: {} vs {}]", key, g.len(), w.len(), i,
                           g.get(i).map(|x| brief(x)).unwrap_or("-".into()), w.get(i).map(|x| brief(x)).unwrap_or("-".into()));
        }
    }
    String::new()
}
fn brief(v: &Value) -> String { let s = v.to_string(); if s.len() > 300 { format!("{}...", &s[..300]) } else { s } }

/// Shared driver: `states[i]` = logical state after history op i, `marks[i]` = trace length after op i.
/// Judges all crash images of the trace and all truncations of the final files.
#[allow(clippy::too_many_arguments)]
fn judge_trace(cx: &mut Ctx, cell: &str, rkey: &str, class_of: &dyn Fn(&Value, &str, &str) -> Option<&'static str>, cj: &Value, extra: &Value, target: &str, dir_target: bool,
               ops: &[Op], marks: &[usize], states: &[Value], final_must: Option<&Value>, byte_marks: &[usize], r: &mut Rng, exhaustive: bool,
               img_state: Option<&dyn Fn(&Disk) -> Vec<Value>>) -> Option<Disk> {
    judge_trace_from(cx, &Disk::new(), cell, rkey, class_of, cj, extra, target, dir_target, ops, marks, states, final_must, byte_marks, r, exhaustive, img_state)
}
/// the same, over files that exist before the traced history starts (`init`)
#[allow(clippy::too_many_arguments)]
fn judge_trace_from(cx: &mut Ctx, init: &Disk, cell: &str, rkey: &str, class_of: &dyn Fn(&Value, &str, &str) -> Option<&'static str>, cj: &Value, extra: &Value, target: &str, dir_target: bool,
               ops: &[Op], marks: &[usize], states: &[Value], final_must: Option<&Value>, byte_marks: &[usize], r: &mut Rng, exhaustive: bool,
               img_state: Option<&dyn Fn(&Disk) -> Vec<Value>>) -> Option<Disk> {
    let init = init.clone();
    let mut fin = init.clone();
    for op in ops { apply(&mut fin, op); }
    let extra_pts = if cx.thorough { 24 } else { 6 };
    let imgs = crash_images(&init, ops, byte_marks, r, exhaustive, extra_pts);
    cx.sum.dist_max("max_trace_ops", ops.len() as u64);
    if std::env::var("ZV_C19_DEBUG").is_ok() { eprintln!("trace: {}", serde_json::to_string(&ops.iter().map(op_brief).collect::<Vec<_>>()).unwrap_or_default()); }
    for im in imgs {
        // history op in progress at the crash
        let i = marks.iter().position(|&m| if im.torn { m > im.when } else { m >= im.when }).unwrap_or(marks.len().saturating_sub(1));
        let own: Vec<Value> = img_state.map(|f| f(&im.disk)).unwrap_or_default();
        let allowed: &[Value] = if img_state.is_some() { &own } else { &states[..(i + 1).min(states.len())] };
        let out = cx.observe(rkey, extra, &im.disk, target, dir_target);
        cx.sum.dist(&format!("images_{}", im.kind.split(':').next().unwrap_or("")));
        cx.sum.dist(if out.get("ok").is_some() { "reopen_ok" } else if out.get("err").is_some() { "reopen_err" } else { "reopen_other" });
        if let Err(why) = judge(&out, allowed, None) {
            let class = class_of(&out, &im.kind, &why);
            let mut c = cj.clone();
            c["image"] = json!(im.kind);
            cx.sum.fail(cell, class, c, &format!("crash image {} (history op {}): {}", im.kind, i, why));
            if class.is_none() { return Some(fin); }
        }
    }
    // the finished file(s): clean reopen, then every truncation
    let out = cx.observe(rkey, extra, &fin, target, dir_target);
    if let Err(why) = judge(&out, states, final_must) {
        let class = class_of(&out, "clean", &why);
        let mut c = cj.clone();
        c["image"] = json!("clean");
        cx.sum.fail(cell, class, c, &format!("clean reopen: {}", why));
        if class.is_none() { return Some(fin); }
    }
    let names: Vec<String> = fin.keys().cloned().collect();
    for p in names {
        let full = fin[&p].clone();
        let cuts = if dir_target && !exhaustive { let n = full.len(); let mut c = vec![0, 1, n / 2, n.saturating_sub(1), 4095, 4096]; c.retain(|&x| x < n); c.sort_unstable(); c.dedup(); c }
                   else { cut_points(full.len(), 0, byte_marks, r, exhaustive, extra_pts) };
        for t in cuts {
            let mut d = fin.clone();
            d.insert(p.clone(), full[..t].to_vec());
            let out = cx.observe(rkey, extra, &d, target, dir_target);
            cx.sum.dist("images_truncate");
            let own: Vec<Value> = img_state.map(|f| f(&d)).unwrap_or_default();
            if let Err(why) = judge(&out, if img_state.is_some() { &own } else { states }, None) {
                let kind = format!("truncate:{}@{}", p, t);
                let class = class_of(&out, &kind, &why);
                let mut c = cj.clone();
                c["image"] = json!(kind);
                cx.sum.fail(cell, class, c, &format!("file {} ({} bytes) cut to {} bytes: {}", p, full.len(), t, why));
                if class.is_none() { return Some(fin); }
            }
        }
    }
    Some(fin)
}

/// checks that the tracer saw everything: the simulated disk equals the real directory
fn tracer_in_sync(dir: &str, sim: &Disk) -> Result<(), String> {
    fn walk(base: &str, rel: &str, out: &mut Disk) {
        if let Ok(rd) = std::fs::read_dir(format!("{}/{}", base, rel)) {
            for e in rd.flatten() {
                let name = e.file_name().to_string_lossy().to_string();
                let r = if rel.is_empty() { name } else { format!("{}/{}", rel, name) };
                if e.path().is_dir() { walk(base, &r, out); } else { out.insert(r, std::fs::read(e.path()).unwrap_or_default()); }
            }
        }
    }
    let mut real = Disk::new();
    walk(dir, "", &mut real);
    if &real == sim { return Ok(()); }
    let mut why = String::new();
    for (p, b) in &real { match sim.get(p) { None => why.push_str(&format!(" [{} missing in trace]", p)), Some(s) if s != b => why.push_str(&format!(" [{}: real {} bytes, traced {} bytes{}]", p, b.len(), s.len(), if s.len() == b.len() { ", content differs" } else { "" })), _ => {} } }
    for p in sim.keys() { if !real.contains_key(p) { why.push_str(&format!(" [{} only in trace]", p)); } }
    Err(why)
}

/// a traced operation as a Coq `fop`, the file `main` numbered 1 and every other file 2
fn fop_term(op: &Op, main: &str) -> String {
    let num = |p: &str| if p == main { 1 } else { 2 };
    match op {
        Op::Open { p, creat, trunc } => format!("FOpen {} {} {}", num(p), coq_bool(*creat), coq_bool(*trunc)),
        Op::SetLen { p, n } => format!("FSetLen {} {}", num(p), n),
        Op::Write { p, off, data } => format!("FWrite {} {} {}", num(p), off, coq_bytes(data)),
        Op::Fsync { p } => format!("FFsync {}", num(p)),
        Op::Rename { a, b } => format!("FRename {} {}", num(a), num(b)),
        Op::Unlink { p } => format!("FUnlink {}", num(p)),
    }
}
fn coq_bytes_list(xs: &[Vec<u8>]) -> String { format!("[{}]", xs.iter().map(|b| coq_bytes(b)).collect::<Vec<_>>().join("; ")) }

/// Correspondence of the write protocol: the traced operations of one sync()/put()/save, with the target file
/// numbered 1 and the temporary file 2 and the writes that build the temporary file merged into one, must be the
/// modelled atomic-replace sequence.  Anything of another shape is emitted as traced.
fn protocol_case(cx: &mut Ctx, seg: &[Op], main: &str, what: &str) {
    if cx.proto >= 160 || cx.old_used() >= cx.budget { return; }
    let mut d = Disk::new();
    for op in seg { apply(&mut d, op); }
    let img = match d.get(main) { Some(b) if b.len() <= 1400 => b.clone(), _ => return };
    let num = |p: &str| if p == main { 1 } else { 2 };
    let term = |op: &Op| -> String { match op {
        Op::Open { p, creat, trunc } => format!("FOpen {} {} {}", num(p), coq_bool(*creat), coq_bool(*trunc)),
        Op::SetLen { p, n } => format!("FSetLen {} {}", num(p), n),
        Op::Write { p, off, data } => format!("FWrite {} {} {}", num(p), off, coq_bytes(data)),
        Op::Fsync { p } => format!("FFsync {}", num(p)),
        Op::Rename { a, b } => format!("FRename {} {}", num(a), num(b)),
        Op::Unlink { p } => format!("FUnlink {}", num(p)),
    } };
    // shape: open(tmp, create+truncate); writes/set_len/fsync on tmp only; fsync(tmp); rename(tmp, main)
    let n = seg.len();
    let mut terms: Vec<String> = vec![];
    let shaped = n >= 3 && matches!(&seg[0], Op::Open { p, creat: true, trunc: true } if p != main)
        && matches!((&seg[n - 2], &seg[n - 1]), (Op::Fsync { p }, Op::Rename { a, b }) if p == a && b == main && a == op_path(&seg[0]))
        && seg[1..n - 2].iter().all(|o| matches!(o, Op::Write { .. } | Op::SetLen { .. } | Op::Fsync { .. }) && op_path(o) == op_path(&seg[0]));
    if shaped {
        let tmp = op_path(&seg[0]).to_string();
        let mut t = Disk::new();
        for op in &seg[..n - 2] { apply(&mut t, op); }
        let content = t.get(&tmp).cloned().unwrap_or_default();
        terms.push(term(&seg[0]));
        terms.push(term(&Op::Write { p: tmp.clone(), off: 0, data: content }));
        terms.push(term(&seg[n - 2])); terms.push(term(&seg[n - 1]));
    } else { for op in seg { terms.push(term(op)); } }
    let mut h = fnv64(what.as_bytes(), 0x99);
    for t in &terms { h = fnv64(t.as_bytes(), h); }
    if !cx.coq_seen.insert(h) { return; }
    cx.proto += 1;
    cx.shards.push(format!("(XOld (COps [{}] {}))", terms.join("; "), coq_bytes(&img)), json!({"cell": "protocol", "what": what, "ops": seg.iter().map(op_brief).collect::<Vec<_>>()}));
}

// ------------------------------------------------------------------ MmapVec
// op codes: 0 push v | 1 pop | 2 set i v | 3 truncate n | 4 clear | 5 reserve n | 6 shrink_to_fit | 7 resize n v
//           8 extend count start | 9 push_bulk count start | 10 sync | 11 sync, drop, open again
//           12 copy_from_simd count start (the source vector holds start, start+1, ... and lives outside the traced directory)
fn mv_state(sh: &[u64]) -> Value { json!({"len": sh.len(), "elems": sh}) }

fn mv_case<T: El>(cx: &mut Ctx, ic: usize, growth: f64, sow: bool, ops: &[Vec<u64>], exhaustive: bool) {
    let cell = format!("MmapVec<u{}>", T::ES * 8);
    let cj = json!({"cell": "mmapvec", "es": T::ES, "ic": ic, "growth": growth, "sync_on_write": sow, "ops": ops, "exhaustive": exhaustive});
    dbg_case(&cj);
    cx.sum.eval(&cell, &cj.to_string(), ops.len() >= 3);
    let mut r = Rng::new(fnv64(cj.to_string().as_bytes(), 7));
    let dir = cx.fresh_dir("mv");
    let path = format!("{}/v.bin", dir);
    let src_path = format!("{}/mvsrc{}.bin", cx.root, cx.seq);
    let mk = || { let mut c = MmapVecConfig::default(); c.initial_capacity = ic; c.growth_factor = growth; c.sync_on_write = sow; c };
    let mask: u64 = if T::ES == 8 { u64::MAX } else { (1u64 << (T::ES * 8)) - 1 };
    let mut shadow: Vec<u64> = vec![];
    let mut states: Vec<Value> = vec![];
    let mut marks: Vec<usize> = vec![];
    let mut last_sync: Option<usize> = None;
    let mut problem: Option<String> = None;
    let mut sync_segs: Vec<(usize, usize)> = vec![];
    let mut obs: Vec<[u64; 3]> = vec![];          // len, capacity, file length after each operation
    let mut gtab: Vec<(u64, u64)> = vec![];       // capacity at the start of an operation -> (capacity as f64 * growth) as usize
    trace::start(&dir);
    let res = guarded(|| {
        let mut v = match MmapVec::<T>::create(&path, mk()) { Ok(v) => v, Err(e) => { problem = Some(format!("create failed: {}", e)); return; } };
        states.push(mv_state(&shadow)); marks.push(trace::len());
        for (k, op) in ops.iter().enumerate() {
            let a = op.get(1).copied().unwrap_or(0);
            let b = op.get(2).copied().unwrap_or(0);
            { let c = v.capacity() as u64; if !gtab.iter().any(|g| g.0 == c) { gtab.push((c, (c as f64 * growth) as usize as u64)); } }
            let rr: Result<(), String> = match op.first().copied().unwrap_or(99) {
                0 => v.push(T::from(a)).map(|_| shadow.push(a & mask)).map_err(|e| e.to_string()),
                1 => { let g = v.pop().map(|x| x.to()); let w = shadow.pop(); if g == w { Ok(()) } else { Err(format!("pop = {:?}, a Vec gives {:?}", g, w)) } }
                2 => { let i = a as usize; match v.get_mut(i) { Some(x) => { if i < shadow.len() { *x = T::from(b); shadow[i] = b & mask; Ok(()) } else { Err("get_mut past len is Some".into()) } }
                                                                 None => if i < shadow.len() { Err("get_mut inside len is None".into()) } else { Ok(()) } } }
                3 => v.truncate(a as usize).map(|_| if (a as usize) < shadow.len() { shadow.truncate(a as usize) }).map_err(|e| e.to_string()),
                4 => v.clear().map(|_| shadow.clear()).map_err(|e| e.to_string()),
                5 => v.reserve(a as usize).map_err(|e| e.to_string()),
                6 => v.shrink_to_fit().map_err(|e| e.to_string()),
                7 => v.resize(a as usize, T::from(b)).map(|_| shadow.resize(a as usize, b & mask)).map_err(|e| e.to_string()),
                8 => { let it: Vec<T> = (0..a).map(|i| T::from(b.wrapping_add(i))).collect();
                       // extend is a sequence of pushes: with sync_on_write every one of them is a sync point
                       let before = marks.last().copied().unwrap_or(0);
                       v.extend(it).map(|_| for i in 0..a { shadow.push(b.wrapping_add(i) & mask); if sow && i + 1 < a { states.push(mv_state(&shadow)); marks.push(before); } }).map_err(|e| e.to_string()) }
                9 => { let it: Vec<T> = (0..a).map(|i| T::from(b.wrapping_add(i))).collect(); v.push_bulk_simd(&it).map(|_| for i in 0..a { shadow.push(b.wrapping_add(i) & mask) }).map_err(|e| e.to_string()) }
                10 => { last_sync = Some(states.len()); let t0 = trace::len(); let r = v.sync().map_err(|e| e.to_string()); sync_segs.push((t0, trace::len())); r }
                11 => { last_sync = Some(states.len());
                        match v.sync() { Err(e) => Err(e.to_string()), Ok(()) => { drop(v); match MmapVec::<T>::open(&path, mk()) { Ok(nv) => { v = nv; Ok(()) } Err(e) => { problem = Some(format!("op {}: open after sync failed: {}", k, e)); return; } } } } }
                12 => { let it: Vec<T> = (0..a).map(|i| T::from(b.wrapping_add(i))).collect();
                        let mut sc = MmapVecConfig::default(); sc.initial_capacity = (a as usize).max(1);
                        let r = MmapVec::<T>::create(&src_path, sc).and_then(|mut src| { src.extend(it)?; v.copy_from_simd(&src) }).map_err(|e| e.to_string());
                        let _ = std::fs::remove_file(&src_path);
                        r.map(|_| { shadow.clear(); for i in 0..a { shadow.push(b.wrapping_add(i) & mask) } }) }
                _ => Ok(()),
            };
            if let Err(e) = rr { problem = Some(format!("op {} {:?} failed: {}", k, op, e)); return; }
            if v.len() != shadow.len() { problem = Some(format!("op {} {:?}: len {} but a Vec holds {}", k, op, v.len(), shadow.len())); return; }
            if let Some(&w) = shadow.last() { if v.get(shadow.len() - 1).map(|x| x.to()) != Some(w) { problem = Some(format!("op {} {:?}: last element differs in the live vector", k, op)); return; } }
            states.push(mv_state(&shadow)); marks.push(trace::len());
            obs.push([v.len() as u64, v.capacity() as u64, std::fs::metadata(&path).map(|m| m.len()).unwrap_or(u64::MAX)]);
        }
        drop(v);
    });
    let tr = trace::stop();
    if let Err(p) = res { problem = Some(format!("writer panicked: {}", p)); }
    if let Some(p) = problem {
        cx.sum.fail(&cell, None, cj.clone(), &p);
        return;
    }
    // the final clean-reopen expectation: exactly a state at or after the last explicit sync
    let extra = json!({"es": T::ES});
    let es = T::ES;
    let mut bm: Vec<usize> = vec![80];
    for st in states.iter().rev().take(3) { let n = st["len"].as_u64().unwrap_or(0) as usize; bm.push(80 + n * es); bm.push(80 + n.saturating_sub(1) * es); }
    let mut sim = Disk::new();
    for op in &tr { apply(&mut sim, op); }
    if let Err(w) = tracer_in_sync(&dir, &sim) { panic!("C19 tracer out of sync with the file system:{}", w); }
    let none = |_: &Value, _: &str, _: &str| -> Option<&'static str> { None };
    let fin = judge_trace(cx, &cell, "mmapvec", &none, &cj, &extra, "v.bin", false, &tr, &marks, &states, None, &bm, &mut r, exhaustive, None);
    // clean reopen must show a state at or after the last explicit sync
    if let (Some(ls), Some(fin)) = (last_sync, fin.as_ref()) {
        let out = cx.observe("mmapvec", &extra, fin, "v.bin", false);
        let ok = out.get("ok").map(|st| states[ls..].iter().any(|a| a == st)).unwrap_or(false);
        if !ok {
            let mut c = cj.clone(); c["image"] = json!("clean");
            cx.sum.fail(&cell, None, c, &format!("reopen after sync: {} is not the content at the last sync (op {}) or later", brief(&out), ls));
        }
    }
    for (a, b) in sync_segs { if b <= tr.len() && a < b { protocol_case(cx, &tr[a..b], "v.bin", "MmapVec::sync"); } }
    // the whole traced history = create, then syncs and resize_to_capacity units over well-formed images
    // (the decidable hypotheses of mv_traced_history_crash_safe)
    {
        let bytes: usize = tr.iter().map(|o| if let Op::Write { data, .. } = o { data.len() } else { 0 }).sum();
        if bytes <= 9000 && cx.n_units < if cx.thorough { 300 } else { 36 } && cx.coq_seen.insert(fnv64(cj.to_string().as_bytes(), 0x756e)) {
            cx.n_units += 1;
            cx.shards.push(format!("(XMvUnits {} {} [{}])", es, ic, tr.iter().map(|o| fop_term(o, "v.bin")).collect::<Vec<_>>().join("; ")),
                           json!({"cell": "mmapvec_units", "es": es, "ic": ic, "growth": growth, "sync_on_write": sow, "ops": ops}));
        }
    }
    // correspondence of the operation state machine: header fields and file length after every operation, the elements at the end
    {
        let vals = |count: u64, start: u64| -> String { coq_n_list((0..count).map(|i| (start.wrapping_add(i) & mask) as u128)) };
        let volume: u64 = ops.iter().map(|o| match o[0] { 8 | 9 | 12 => o[1], 7 => o[1], _ => 1 }).sum::<u64>() + shadow.len() as u64;
        if obs.len() == ops.len() && volume <= 700 && cx.n_mvops < if cx.thorough { 900 } else { 150 } && cx.coq_seen.insert(fnv64(cj.to_string().as_bytes(), 0x4d76)) {
            let terms: Vec<String> = ops.iter().map(|o| { let a = o.get(1).copied().unwrap_or(0); let b = o.get(2).copied().unwrap_or(0); match o[0] {
                0 => format!("OPush {}", a & mask), 1 => "OPop".into(), 2 => format!("OSet {} {}", a, b & mask), 3 => format!("OTruncate {}", a), 4 => "OClear".into(),
                5 => format!("OReserve {}", a), 6 => "OShrink".into(), 7 => format!("OResize {} {}", a, b & mask), 8 => format!("OExtend {} {}", a, vals(a, b)),
                9 => format!("OBulk {}", vals(a, b)), 10 => "OSync".into(), 11 => "OReopen".into(), 12 => format!("OCopyFrom {}", vals(a, b)), _ => "OSync".into() } }).collect();
            cx.n_mvops += 1;
            cx.shards.push(format!("(XMvOps {} {} {} [{}] [{}] [{}] {})", es, ic, coq_bool(sow),
                                   gtab.iter().map(|g| format!("({}, {})", g.0, g.1)).collect::<Vec<_>>().join("; "), terms.join("; "),
                                   obs.iter().map(|o| format!("[{}; {}; {}]", o[0], o[1], o[2])).collect::<Vec<_>>().join("; "),
                                   coq_n_list(shadow.iter().map(|&x| x as u128))),
                           json!({"cell": "mmapvec_ops", "es": es, "ic": ic, "growth": growth, "sync_on_write": sow, "ops": ops}));
        }
    }
    // correspondence cases: small final images and a few damaged ones, with what the real reader saw
    if let Some(fin) = fin {
        if let Some(f) = fin.get("v.bin") {
            let mut imgs: Vec<Vec<u8>> = vec![f.clone()];
            for t in [f.len() / 2, 80 + shadow.len() * es, f.len().saturating_sub(1), 79, 80] { if t < f.len() { imgs.push(f[..t].to_vec()); } }
            let mut g = f.clone(); if g.len() > 40 { let i = 8 + r.below(32) as usize; g[i] ^= 1 << r.below(8); imgs.push(g); }
            for im in imgs { mv_coq_case(cx, es, &im); }
        }
    }
    let _ = std::fs::remove_dir_all(&dir);
}

fn mv_coq_case(cx: &mut Ctx, es: usize, img: &[u8]) {
    if img.len() > 1400 || cx.old_used() >= cx.budget || cx.n_mv * 2 >= cx.budget { return; }
    let h = fnv64(img, es as u64);
    if !cx.coq_seen.insert(h) { return; }
    cx.n_mv += 1;
    let mut d = Disk::new(); d.insert("v.bin".into(), img.to_vec());
    let out = cx.observe("mmapvec", &json!({"es": es}), &d, "v.bin", false);
    let expect: Vec<i128> = if let Some(st) = out.get("ok") {
        let mut v = vec![st["len"].as_u64().unwrap_or(0) as i128];
        for e in st["elems"].as_array().unwrap() { v.push(e.as_u64().unwrap() as i128); }
        v
    } else if out.get("err").is_some() { vec![-1] } else { vec![-2] };
    cx.shards.push(format!("(XOld (CMv {} {} {}))", es, coq_bytes(img), coq_z_list(expect)), json!({"cell": "mmapvec_image", "es": es, "image": hex(img)}));
}

fn gen_mv(r: &mut Rng, big: bool) -> (usize, usize, f64, bool, Vec<Vec<u64>>) {
    let es = *r.pick(&[1usize, 2, 4, 8, 8, 8]);
    let ic = if big { *r.pick(&[3000usize, 8190, 8192, 9000]) } else { *r.pick(&[0usize, 1, 2, 3, 7, 8, 16, 63, 64, 100, 130, 500, 504, 505, 511, 512, 513]) };
    let growth = *r.pick(&[1.0f64, 1.1, 1.5, 1.618, 2.0]);
    let sow = r.chance(1, 4);
    let n = r.range(2, if sow { 8 } else { 14 });
    let mut ops: Vec<Vec<u64>> = vec![];
    let mut len: u64 = 0;
    let val = |r: &mut Rng| -> u64 { match r.below(4) { 0 => r.next(), 1 => u64::MAX, _ => 1 + r.below(250) } };
    for _ in 0..n {
        match r.below(20) {
            0..=5 => { ops.push(vec![0, val(r)]); len += 1; }
            6 => { ops.push(vec![1]); len = len.saturating_sub(1); }
            7..=8 => { let i = if len > 0 && r.chance(5, 6) { r.below(len) } else { len + r.below(2) }; ops.push(vec![2, i, val(r)]); }
            9 => { let k = if r.chance(1, 2) { r.below(len + 1) } else { len + r.below(3) }; ops.push(vec![3, k]); len = len.min(k); }
            10 => { if r.chance(1, 3) { ops.push(vec![4]); len = 0; } else { ops.push(vec![6]); } }
            11 => { ops.push(vec![5, *r.pick(&[0u64, 1, 2, 17, 64, 600])]); }
            12 => { ops.push(vec![6]); }
            13 => { let k = *r.pick(&[0u64, 1, 5, 40, 520]); let k = if big { k } else { k.min(len + 60) }; ops.push(vec![7, k, val(r)]); len = k; }
            14..=15 => { let c = *r.pick(&[1u64, 3, 9, 70, 300]); ops.push(vec![8, c, r.next()]); len += c; }
            16 => { if r.chance(1, 2) { let c = *r.pick(&[1u64, 7, 8, 9, 64, 200]); ops.push(vec![9, c, r.next()]); len += c; }
                    else { let base = (ic as u64).max(1); let c = match r.below(7) { 0 => 0, 1 => 1, 2 => base, 3 => base * 3 / 2, 4 => base * 17 / 10 + 1, 5 => base * 2, _ => (base * 10).min(2500) };
                           ops.push(vec![12, c, r.next()]); len = c; } }
            17..=18 => { ops.push(vec![10]); }
            _ => { ops.push(vec![11]); }
        }
    }
    if r.chance(9, 10) { ops.push(vec![10]); }
    (es, ic, growth, sow, ops)
}
/// copy_from_simd into a destination that is not full (len < capacity), from sources of 1x .. 10x the capacity,
/// then (optionally push / extend and) sync, reopen, read everything
fn gen_mv_copy(r: &mut Rng, i: usize) -> (usize, usize, f64, bool, Vec<Vec<u64>>) {
    let es = *r.pick(&[1usize, 2, 4, 8, 8]);
    let ic = *r.pick(&[8usize, 8, 3, 16, 64, 100]);
    let growth = *r.pick(&[1.0f64, 1.1, 1.5, 1.618, 1.618, 2.0]);
    let sow = r.chance(1, 5);
    let used = match r.below(4) { 0 => 0, 1 => 3.min(ic as u64 - 1), 2 => ic as u64 / 2, _ => ic as u64 - 1 };
    let mut ops: Vec<Vec<u64>> = vec![];
    if used > 0 { if r.chance(1, 2) { ops.push(vec![8, used, r.next()]); } else { for _ in 0..used { ops.push(vec![0, 1 + r.below(250)]); } } }
    let c = ic as u64;
    let factor = [c, c * 3 / 2, c * 17 / 10 + 1, c * 2, c * 10, c * 10 + 1, c + 1][i % 7];
    ops.push(vec![12, factor, r.next()]);
    match r.below(4) { 0 => ops.push(vec![0, 1 + r.below(250)]), 1 => ops.push(vec![8, *r.pick(&[1u64, 3, 9, 70]), r.next()]), 2 => ops.push(vec![9, *r.pick(&[1u64, 8, 64]), r.next()]), _ => {} }
    ops.push(vec![if r.chance(1, 2) { 10 } else { 11 }]);
    if r.chance(1, 3) { ops.push(vec![0, 7]); ops.push(vec![10]); }
    (es, ic, growth, sow, ops)
}
fn run_mv(cx: &mut Ctx, es: usize, ic: usize, growth: f64, sow: bool, ops: &[Vec<u64>], exhaustive: bool) {
    match es { 1 => mv_case::<u8>(cx, ic, growth, sow, ops, exhaustive), 2 => mv_case::<u16>(cx, ic, growth, sow, ops, exhaustive),
               4 => mv_case::<u32>(cx, ic, growth, sow, ops, exhaustive), _ => mv_case::<u64>(cx, ic, growth, sow, ops, exhaustive) }
}

// ------------------------------------------------------------------ PlainBlobStore
// ops: [0, hex] put | [1, k] remove the k-th live id | [2] drop and open the directory again | [3, id] remove an id that holds no record
// leftover > 0: temporary files `.1.tmp` .. `.6.tmp` of that many bytes exist before the history starts (what interrupted
// puts leave behind); a later put with that id must publish exactly its own data
fn plain_case(cx: &mut Ctx, ops: &[Value], leftover: usize, exhaustive: bool) {
    let cell = "PlainBlobStore";
    let cj = json!({"cell": "plain", "ops": ops, "leftover": leftover, "exhaustive": exhaustive});
    dbg_case(&cj);
    cx.sum.eval(cell, &cj.to_string(), ops.len() >= 2);
    cx.sum.cell_status(cell, "M+S");
    let mut r = Rng::new(fnv64(cj.to_string().as_bytes(), 11));
    let dir = cx.fresh_dir("pl");
    let sdir = format!("{}/store", dir);
    std::fs::create_dir_all(&sdir).unwrap();
    let mut init = Disk::new();
    if leftover > 0 {
        for id in 1..=6u32 {
            let g: Vec<u8> = (0..leftover).map(|i| 0xA0u8.wrapping_add((i as u8).wrapping_mul(7)).wrapping_add(id as u8)).collect();
            std::fs::write(format!("{}/.{}.tmp", sdir, id), &g).unwrap();
            init.insert(format!("store/.{}.tmp", id), g);
        }
    }
    let mut shadow: BTreeMap<u32, Vec<u8>> = BTreeMap::new();
    let st_json = |m: &BTreeMap<u32, Vec<u8>>| { let mut o = serde_json::Map::new(); for (k, v) in m { o.insert(k.to_string(), json!(hex(v))); } json!({"records": Value::Object(o)}) };
    let mut states = vec![]; let mut marks = vec![];
    let mut problem: Option<String> = None;
    let mut put_segs: Vec<(usize, usize, u32)> = vec![];
    let mut hops: Vec<String> = vec![];       // the history as the model's phop list
    let mut volume = 0usize;
    trace::start(&dir);
    let res = guarded(|| {
        let mut st = match PlainBlobStore::new(&sdir) { Ok(s) => s, Err(e) => { problem = Some(e.to_string()); return; } };
        states.push(st_json(&shadow)); marks.push(trace::len());
        for (k, op) in ops.iter().enumerate() {
            match op[0].as_u64().unwrap_or(9) {
                0 => { let data = unhex(op[1].as_str().unwrap_or(""));
                       let t0 = trace::len();
                       hops.push(format!("HPut {}", coq_bytes(&data))); volume += data.len();
                       match st.put(&data) { Ok(id) => { put_segs.push((t0, trace::len(), id)); if shadow.contains_key(&id) { problem = Some(format!("op {}: put reused live id {}", k, id)); return; } shadow.insert(id, data); }
                                             Err(e) => { problem = Some(format!("op {}: put failed: {}", k, e)); return; } } }
                1 => { let ids: Vec<u32> = shadow.keys().copied().collect();
                       if !ids.is_empty() { let id = ids[op[1].as_u64().unwrap_or(0) as usize % ids.len()];
                           hops.push(format!("HRemove {}", id));
                           if let Err(e) = st.remove(id) { problem = Some(format!("op {}: remove failed: {}", k, e)); return; } shadow.remove(&id); } }
                2 => { hops.push("HReopen".into()); drop(st); st = match PlainBlobStore::new(&sdir) { Ok(s) => s, Err(e) => { problem = Some(e.to_string()); return; } }; }
                3 => { let id = op[1].as_u64().unwrap_or(0) as u32;
                       if !shadow.contains_key(&id) { hops.push(format!("HRemove {}", id)); if st.remove(id).is_ok() { problem = Some(format!("op {}: remove of the absent id {} succeeded", k, id)); return; } } }
                _ => {}
            }
            for (id, d) in &shadow { if st.get(*id).ok().as_ref() != Some(d) { problem = Some(format!("op {}: live store does not return record {} as it was put ({} bytes, got {:?} bytes)", k, id, d.len(), st.get(*id).ok().map(|x| x.len()))); return; } }
            states.push(st_json(&shadow)); marks.push(trace::len());
        }
    });
    let tr = trace::stop();
    if let Err(p) = res { problem = Some(format!("writer panicked: {}", p)); }
    if let Some(p) = problem { cx.sum.fail(cell, None, cj, &p); return; }
    let mut sim = init.clone();
    for op in &tr { apply(&mut sim, op); }
    if let Err(w) = tracer_in_sync(&dir, &sim) { panic!("C19 tracer out of sync with the file system:{}", w); }
    // an arbitrary cut of a finished, fsynced record file is not detectable in a format without framing
    let class_of = |out: &Value, kind: &str, _why: &str| -> Option<&'static str> {
        if kind.starts_with("truncate:") && !kind.contains(".tmp@") && out.get("ok").is_some() { Some("plain_record_unframed") } else { None }
    };
    for (a, b, id) in put_segs { if b <= tr.len() && a < b { protocol_case(cx, &tr[a..b], &format!("store/{}", id), "PlainBlobStore::put"); } }
    // the whole history refined to named file operations by the model (ids from the model's counter and rescan)
    if volume <= 2500 && cx.n_plain < if cx.thorough { 500 } else { 48 } && cx.coq_seen.insert(fnv64(cj.to_string().as_bytes(), 0x706c)) {
        let name = |p: &str| coq_bytes(p.strip_prefix("store/").unwrap_or(p).as_bytes());
        let terms: Vec<String> = tr.iter().map(|o| match o {
            Op::Open { p, creat, trunc } => format!("NOpen {} {} {}", name(p), coq_bool(*creat), coq_bool(*trunc)),
            Op::SetLen { p, n } => format!("NSetLen {} {}", name(p), n),
            Op::Write { p, off, data } => format!("NWrite {} {} {}", name(p), off, coq_bytes(data)),
            Op::Fsync { p } => format!("NFsync {}", name(p)),
            Op::Rename { a, b } => format!("NRename {} {}", name(a), name(b)),
            Op::Unlink { p } => format!("NUnlink {}", name(p)),
        }).collect();
        cx.n_plain += 1;
        cx.shards.push(format!("(XPlainHist [{}] [{}])", hops.join("; "), terms.join("; ")), json!({"cell": "plain_history", "ops": ops, "leftover": leftover}));
    }
    let fin_state = states.last().cloned();
    judge_trace_from(cx, &init, cell, "plain", &class_of, &cj, &json!({}), "store", true, &tr, &marks, &states, fin_state.as_ref(), &[], &mut r, exhaustive, None);
    let _ = std::fs::remove_dir_all(&dir);
}
fn gen_plain(r: &mut Rng) -> Vec<Value> {
    let n = r.range(1, 6);
    let mut ops = vec![];
    for _ in 0..n {
        match r.below(8) {
            0..=4 => { let len = *r.pick(&[0usize, 1, 2, 5, 17, 100, 4095, 4096, 4097, 9000]); let len = if r.chance(1, 2) { len.min(40) } else { len }; ops.push(json!([0, hex(&r.bytes(len))])); }
            5 => ops.push(json!([1, r.below(8)])),
            6 => if r.chance(1, 3) { ops.push(json!([3, *r.pick(&[0u64, 1, 2, 5, 4294967295])])) } else { ops.push(json!([1, r.below(8)])) },
            _ => ops.push(json!([2])),
        }
    }
    ops
}

// ------------------------------------------------------------------ write-once files (reorder map, zip-offset store, dictionary, raw mmap stream)
fn reorder_state(vals: &[u64]) -> Value { json!({"size": vals.len(), "values": vals}) }

/// builds = successive files written to the same path (a later build overwrites an earlier one)
fn reorder_case(cx: &mut Ctx, builds: &[Value], exhaustive: bool) {
    let cell = "ZReorderMap";
    let cj = json!({"cell": "reorder", "builds": builds, "exhaustive": exhaustive});
    dbg_case(&cj);
    cx.sum.eval(cell, &cj.to_string(), builds.iter().any(|b| b["values"].as_array().map(|a| a.len()).unwrap_or(0) >= 2));
    let mut r = Rng::new(fnv64(cj.to_string().as_bytes(), 13));
    let dir = cx.fresh_dir("ro");
    let path = format!("{}/m.bin", dir);
    let mut states = vec![]; let mut marks = vec![];
    let mut problem: Option<String> = None;
    let mut refused = false;
    let mut last: (Vec<u64>, bool) = (vec![], false);
    let mut build_segs: Vec<(usize, usize)> = vec![];
    trace::start(&dir);
    let res = guarded(|| {
        for (k, b) in builds.iter().enumerate() {
            let vals: Vec<u64> = b["values"].as_array().map(|a| a.iter().map(|x| x.as_u64().unwrap_or(0)).collect()).unwrap_or_default();
            let neg = b["neg"].as_bool().unwrap_or(false);
            let mut bl = match ZReorderMapBuilder::new(&path, vals.len(), if neg { -1 } else { 1 }) { Ok(b) => b, Err(e) => { problem = Some(format!("build {}: new failed: {}", k, e)); return; } };
            // "bad": [[i, v], ..] - before value i a value above the 40-bit limit is pushed; it is refused and the build carries
            // on as if it had not been attempted (the file is the one of `values` alone)
            let bad: Vec<(usize, u64)> = b["bad"].as_array().map(|a| a.iter().map(|x| (x[0].as_u64().unwrap_or(0) as usize, x[1].as_u64().unwrap_or(u64::MAX))).collect()).unwrap_or_default();
            for i in 0..=vals.len() {
                for (_, bv) in bad.iter().filter(|(bi, bv)| *bi == i && *bv > 0x7F_FFFF_FFFF) {
                    if bl.push(*bv as usize).is_ok() { problem = Some(format!("build {}: push({:#x}) accepted although the value does not fit the 40-bit field", k, bv)); return; }
                }
                if i < vals.len() { if let Err(_) = bl.push(vals[i] as usize) { refused = true; return; } }
            }
            let t0 = build_segs.last().map(|s: &(usize, usize)| s.1).unwrap_or(0);
            if let Err(e) = bl.finish() { problem = Some(format!("build {}: finish failed: {}", k, e)); return; }
            build_segs.push((t0, trace::len()));
            states.push(reorder_state(&vals)); marks.push(trace::len());
            last = (vals, neg);
        }
    });
    let tr = trace::stop();
    if let Err(p) = res { problem = Some(format!("writer panicked: {}", p)); }
    if let Some(p) = problem { cx.sum.fail(cell, None, cj, &p); return; }
    if refused { cx.sum.dist("reorder_push_refused"); let _ = std::fs::remove_dir_all(&dir); return; }
    let mut sim = Disk::new();
    for op in &tr { apply(&mut sim, op); }
    if let Err(w) = tracer_in_sync(&dir, &sim) { panic!("C19 tracer out of sync with the file system:{}", w); }
    let none = |_: &Value, _: &str, _: &str| -> Option<&'static str> { None };
    for (a, b) in &build_segs { if *b <= tr.len() && a < b { protocol_case(cx, &tr[*a..*b], "m.bin", "ZReorderMapBuilder::finish"); } }
    // the builder's writes: header, every flush of the 4096-byte buffer, the rest in finish() - as the model refines them
    if let (Some((a, b)), true) = (build_segs.last().copied(), build_segs.len() == builds.len()) {
        let seg = &tr[a..b.min(tr.len())];
        let bytes: usize = seg.iter().map(|o| if let Op::Write { data, .. } = o { data.len() } else { 0 }).sum();
        let big = bytes > 1300;
        let room = if big { cx.n_row_big < if cx.thorough { 40 } else { 9 } } else { cx.n_row - cx.n_row_big < if cx.thorough { 300 } else { 24 } };
        if room && bytes + last.0.len() <= 36000 && cx.coq_seen.insert(fnv64(cj.to_string().as_bytes(), 0x526f57)) {
            cx.n_row += 1; if big { cx.n_row_big += 1; }
            cx.shards.push(format!("(XRoW {} {} [{}])", coq_n_list(last.0.iter().map(|&v| v as u128)), coq_bool(last.1), seg.iter().map(|o| fop_term(o, "m.bin")).collect::<Vec<_>>().join("; ")),
                           json!({"cell": "reorder_writes", "values": last.0, "neg": last.1}));
        }
    }
    let fin_state = states.last().cloned();
    let fin = judge_trace(cx, cell, "reorder", &none, &cj, &json!({}), "m.bin", false, &tr, &marks, &states, fin_state.as_ref(), &[16, 21], &mut r, exhaustive, None);
    if let Some(f) = fin.as_ref().and_then(|d| d.get("m.bin")) {
        if f.len() <= 1200 && cx.old_used() < cx.budget {
            // the builder emits the modelled format; the reader agrees with the model on the file and on damaged copies
            cx.shards.push(format!("(XOld (CRoEnc {} {} {}))", coq_n_list(last.0.iter().map(|&v| v as u128)), coq_bool(last.1), coq_bytes(f)),
                           json!({"cell": "reorder_encode", "values": last.0, "neg": last.1}));
            let mut imgs = vec![f.clone()];
            for t in [f.len() - 1, f.len() / 2, 16, 21] { if t < f.len() { imgs.push(f[..t].to_vec()); } }
            let mut g = f.clone(); if g.len() > 17 { let i = 16 + r.below((g.len() - 16) as u64) as usize; g[i] ^= 1 << r.below(8); imgs.push(g); }
            for im in imgs { reorder_coq_case(cx, &im); }
        }
    }
    let _ = std::fs::remove_dir_all(&dir);
}
fn reorder_coq_case(cx: &mut Ctx, img: &[u8]) {
    if img.len() > 1200 || cx.old_used() >= cx.budget || cx.n_ro * 3 >= cx.budget { return; }
    if !cx.coq_seen.insert(fnv64(img, 0x77)) { return; }
    cx.n_ro += 1;
    let mut d = Disk::new(); d.insert("m.bin".into(), img.to_vec());
    let out = cx.observe("reorder", &json!({}), &d, "m.bin", false);
    let expect: Vec<i128> = if let Some(st) = out.get("ok") {
        if st.get("cut").is_some() { return; }
        let mut v = vec![st["size"].as_u64().unwrap_or(0) as i128];
        for e in st["values"].as_array().unwrap() { v.push(e.as_u64().unwrap() as i128); }
        v
    } else if out.get("err").is_some() { vec![-1] } else { return };
    cx.shards.push(format!("(XOld (CRo {} {}))", coq_bytes(img), coq_z_list(expect)), json!({"cell": "reorder_image", "image": hex(img)}));
}
fn gen_reorder(r: &mut Rng) -> Vec<Value> {
    let nb = if r.chance(1, 3) { 2 } else { 1 };
    let mut out = vec![];
    for _ in 0..nb {
        let neg = r.chance(1, 3);
        let n = *r.pick(&[0usize, 1, 2, 3, 10, 40, 200, 900, 1700]);
        let n = if r.chance(2, 3) { n.min(40) } else { n };
        let mut vals: Vec<u64> = vec![];
        let top: u64 = 0x7FFFFFFFFF;
        while vals.len() < n {
            let start = match r.below(6) { 0 => top - r.below(3), 1 => r.below(3), 2 => r.below(top), _ => r.below(5000) };
            let run = match r.below(5) { 0 => 1, 1 => 2, 2 => 127 + r.below(3), 3 => r.range(1, 300), _ => r.range(1, 6) } as usize;
            let mut v = start;
            for _ in 0..run.min(n - vals.len()) {
                vals.push(v);
                if neg { if v == 0 { break; } v -= 1; } else { if v == top { break; } v += 1; }
            }
        }
        vals.truncate(n);
        if r.chance(1, 3) {
            let bad: Vec<Value> = (0..r.range(1, 3)).map(|_| json!([r.below(n as u64 + 1), *r.pick(&[0x80_0000_0000u64, 0x80_0000_0001, u64::MAX >> 1, 0xFF_FFFF_FFFF])])).collect();
            out.push(json!({"values": vals, "neg": neg, "bad": bad}));
            continue;
        }
        out.push(json!({"values": vals, "neg": neg}));
    }
    out
}

/// many short runs: `target` bytes of records (5 bytes per single value, 6 per run of 2..127) so that the builder's
/// 4096-byte write buffer is flushed once, twice, several times before finish(); `target` = 0: `n` random short runs
fn gen_reorder_dense(r: &mut Rng, target: usize, n: usize) -> Vec<Value> {
    let neg = r.chance(1, 3);
    let top: u64 = 0x7FFFFFFFFF;
    let mut vals: Vec<u64> = vec![];
    // value blocks 1000 apart, so that no record continues the previous one
    let mut blk: u64 = 1 + r.below(50);
    let mut emit = |vals: &mut Vec<u64>, run: u64, r: &mut Rng| {
        let start = match r.below(12) { 0 => top - 200 - r.below(3), _ => { blk += 1 + r.below(3); (blk * 1000) % (top - 5000) + 300 } };
        for i in 0..run { vals.push(if neg { start - i } else { start + i }); }
    };
    if target > 0 {
        // bytes = 5 * singles + 6 * pairs
        let pairs = { let mut p = 0; while (target - 6 * p) % 5 != 0 { p += 1; } p };
        let singles = (target - 6 * pairs) / 5;
        let mut kinds: Vec<u64> = vec![1; singles]; for _ in 0..pairs { kinds.insert(r.below(kinds.len() as u64 + 1) as usize, 2 + r.below(3)); }
        for k in kinds { emit(&mut vals, k, r); }
    } else {
        for _ in 0..n { let k = match r.below(6) { 0 => 2, 1 => 3, 2 => 128 + r.below(2), _ => 1 }; emit(&mut vals, k, r); }
    }
    vec![json!({"values": vals, "neg": neg})]
}

/// a file written once by `write` (traced) whose reopened logical state must be `state`
fn once_case(cx: &mut Ctx, cell: &'static str, key: &'static str, cj: Value, state: Value, fname: &str, exhaustive: bool,
             class_of: &dyn Fn(&Value, &str, &str) -> Option<&'static str>, write: &mut dyn FnMut(&str) -> Result<(), String>, bm: &[usize],
             img_state: Option<&dyn Fn(&Disk) -> Vec<Value>>) -> Option<(Disk, Vec<Op>)> {
    dbg_case(&cj);
    cx.sum.eval(cell, &cj.to_string(), true);
    cx.sum.cell_status(cell, if key == "dict" { "S-only" } else { "M+S" });
    let mut r = Rng::new(fnv64(cj.to_string().as_bytes(), 17));
    let dir = cx.fresh_dir("on");
    let path = format!("{}/{}", dir, fname);
    trace::start(&dir);
    let res = guarded(|| write(&path));
    let tr = trace::stop();
    match res { Err(p) => { cx.sum.fail(cell, class_of(&json!({}), "writer", &p), cj, &format!("writer panicked: {}", p)); return None; }
                Ok(Err(e)) => { cx.sum.dist(&format!("{}_write_refused", key)); if std::env::var("ZV_C19_DEBUG").is_ok() { eprintln!("refused: {}", e); } let _ = std::fs::remove_dir_all(&dir); return None; }
                Ok(Ok(())) => {} }
    let mut sim = Disk::new();
    for op in &tr { apply(&mut sim, op); }
    if let Err(w) = tracer_in_sync(&dir, &sim) { panic!("C19 tracer out of sync with the file system:{}", w); }
    let states = vec![state.clone()];
    let marks = vec![tr.len()];
    if key == "dict" { protocol_case(cx, &tr, fname, "SuffixArrayDictionary::save_to_file"); }
    if key == "zipoffset" { protocol_case(cx, &tr, fname, "ZipOffsetBlobStore::save_to_file"); }
    let fin = judge_trace(cx, cell, key, class_of, &cj, &json!({}), fname, false, &tr, &marks, &states, Some(&state), bm, &mut r, exhaustive, img_state);
    let _ = std::fs::remove_dir_all(&dir);
    fin.map(|d| (d, tr))
}

fn zipoffset_case(cx: &mut Ctx, recs: &[String], checksum: u8, exhaustive: bool) {
    let cell = "ZipOffsetBlobStore";
    let cj = json!({"cell": "zipoffset", "records": recs, "checksum": checksum, "exhaustive": exhaustive});
    let build = || -> Result<ZipOffsetBlobStore, String> {
        let mut cfg = zipora::blob_store::ZipOffsetBlobStoreConfig::default();
        cfg.checksum_level = checksum; cfg.compress_level = 0;
        let mut b = ZipOffsetBlobStoreBuilder::with_config(cfg).map_err(|e| e.to_string())?;
        for rcd in recs { b.add_record(&unhex(rcd)).map_err(|e| e.to_string())?; }
        b.finish().map_err(|e| e.to_string())
    };
    // what the finished in-memory store presents is what a reopen has to present
    let held: Vec<String> = match guarded(|| build().map(|st| (0..st.len()).map(|i| st.get(i as u32).map(|d| hex(&d)).unwrap_or_else(|e| format!("unreadable: {}", e))).collect::<Vec<_>>())) {
        Ok(Ok(h)) => h,
        Ok(Err(_)) => { cx.sum.dist("zipoffset_build_refused"); return; }
        Err(p) => { cx.sum.eval(cell, &cj.to_string(), true); cx.sum.fail(cell, None, cj, &format!("builder panicked: {}", p)); return; }
    };
    if held != recs {
        // (the former finding class zip_offset_store_is_stub - finish() dropped every record - was repaired by 3312856/5e0cc1c)
        cx.sum.fail(cell, None, cj.clone(), &format!("the finished store holds {} records, {} were added", held.len(), recs.len()));
        return;
    }
    let state = json!({"records": held});
    let none = |_: &Value, _: &str, _: &str| -> Option<&'static str> { None };
    let mut w = |path: &str| -> Result<(), String> { build()?.save_to_file(path).map_err(|e| e.to_string()) };
    let cb: usize = recs.iter().map(|r| r.len() / 2 + if checksum >= 2 { 4 } else { 0 }).sum();
    let pad = (16 - cb % 16) % 16;
    let marks = [128, 128 + cb, 128 + cb + pad, 128 + cb + pad + 32];
    let got = once_case(cx, cell, "zipoffset", cj, state, "s.zob", exhaustive, &none, &mut w, &marks, None);
    // correspondence: the model's image and operations for these records; the model's loader on the file and on damaged copies
    if let Some((fin, tr)) = got {
        if let Some(f) = fin.get("s.zob") {
            if f.len() <= 1500 {
                let rb: Vec<Vec<u8>> = recs.iter().map(|r| unhex(r)).collect();
                if cx.n_zosave < if cx.thorough { 120 } else { 16 } && cx.coq_seen.insert(fnv64(f, 0x205a)) {
                    cx.n_zosave += 1;
                    cx.shards.push(format!("(XZoSave {} {} {})", checksum, coq_bytes_list(&rb), coq_bytes(f)), json!({"cell": "zipoffset_save", "records": recs, "checksum": checksum}));
                    cx.shards.push(format!("(XZoOps {} {} [{}])", checksum, coq_bytes_list(&rb), tr.iter().map(|o| fop_term(o, "s.zob")).collect::<Vec<_>>().join("; ")),
                                   json!({"cell": "zipoffset_ops", "records": recs, "checksum": checksum, "ops": tr.iter().map(op_brief).collect::<Vec<_>>()}));
                }
                let mut r = Rng::new(fnv64(f, 0x51));
                let mut imgs: Vec<Vec<u8>> = vec![f.clone()];
                let n = f.len();
                for t in [n - 1, n - 63, n - 64, n.saturating_sub(65), 128 + cb + pad + 31, 128 + cb + pad, (128 + cb + pad).saturating_sub(1), 128 + cb, 128 + cb / 2, 128, 127, 64, 0] { if t < n { imgs.push(f[..t].to_vec()); } }
                // header fields, configuration bytes, the offset index: one bit flipped
                for _ in 0..6 {
                    let i = match r.below(4) { 0 => 40 + r.below(43) as usize, 1 => r.below(40) as usize, 2 => 128 + cb + pad + r.below(32) as usize, _ => 128 + r.below((n - 128) as u64) as usize };
                    if i < n { let mut g = f.clone(); g[i] ^= 1 << r.below(8); imgs.push(g); }
                }
                // a longer file (bytes after the footer), and the content length field off by one
                let mut g = f.clone(); g.extend_from_slice(&[7, 7, 7]); imgs.push(g);
                // single header fields off by one / out of range: record count, content bytes, offsets bytes, version,
                // log2 block units, checksum level, compress level, element count and widths of the offset vector
                let o = 128 + cb + pad;
                for (i, d) in [(56usize, 1i16), (56, -1), (64, 1), (64, -1), (72, 1), (72, -1), (62, 1), (80, -3), (80, 3), (81, 4), (82, 23), (o, 1), (o, -1), (o + 8, 1), (o + 9, -9), (o + 10, 40), (o + 16, 1), (o + 24, -1)] {
                    if i < n { let mut g = f.clone(); g[i] = (g[i] as i16 + d) as u8; imgs.push(g); }
                }
                // a sample of them per file (the final image always), so that every file contributes
                let first = imgs.remove(0);
                for i in (1..imgs.len()).rev() { let j = r.below(i as u64 + 1) as usize; imgs.swap(i, j); }
                imgs.truncate(if cx.thorough { 40 } else { 12 });
                zo_coq_case(cx, &first);
                for im in imgs { zo_coq_case(cx, &im); }
            }
        }
    }
}
fn zo_coq_case(cx: &mut Ctx, img: &[u8]) {
    if img.len() > 1600 || cx.n_zo >= if cx.thorough { 2500 } else { 240 } { return; }
    if !cx.coq_seen.insert(fnv64(img, 0x20)) { return; }
    let mut d = Disk::new(); d.insert("s.zob".into(), img.to_vec());
    let out = cx.observe("zipoffset_full", &json!({}), &d, "s.zob", false);
    let expect: String = if let Some(st) = out.get("ok") {
        let mut v = vec![format!("[{}%Z]", st["len"].as_u64().unwrap_or(0))];
        for g in st["gets"].as_array().unwrap() {
            match g.as_str() { Some(h) => { let mut e = vec![1i128]; e.extend(unhex(h).iter().map(|&b| b as i128)); v.push(coq_z_list(e)); } None => v.push("[0%Z]".into()) }
        }
        format!("[{}]", v.join("; "))
    } else if out.get("err").is_some() { "[[(-1)%Z]]".into() } else { "[[(-2)%Z]]".into() };
    cx.n_zo += 1;
    cx.shards.push(format!("(XZoLoad {} {})", coq_bytes(img), expect), json!({"cell": "zipoffset_image", "image": hex(img)}));
}
/// record sets for the offset-indexed store: content lengths around the 16-byte padding boundary (0, 15, 16, 17, 31, 32,
/// 33, 48, 64, 160 bytes with and without the 4-byte record checksums), empty records, more than one 64-entry offset block
fn gen_zip(r: &mut Rng, i: usize) -> (Vec<String>, u8) {
    let ck = *r.pick(&[0u8, 0, 2, 2, 3, 1]);
    let per = if ck >= 2 { 4usize } else { 0 };
    let recs: Vec<Vec<u8>> = match i % 4 {
        0 => { let n = *r.pick(&[0usize, 1, 2, 5, 30]); (0..n).map(|_| { let l = *r.pick(&[0usize, 1, 3, 15, 16, 17, 100]); r.bytes(l) }).collect() }
        1 | 2 => {
            // total content length exactly `target`
            let target = *r.pick(&[0usize, 15, 16, 17, 31, 32, 33, 48, 64, 160]);
            let mut left = target; let mut v = vec![];
            while left > per || (left == per && per > 0) {
                let l = (r.below(20) as usize).min(left - per);
                v.push(r.bytes(l)); left -= l + per;
                if left == 0 { break; }
            }
            if left > 0 && per == 0 { v.push(r.bytes(left)); }
            if target == 0 && r.chance(1, 2) && per == 0 { v.push(vec![]); v.push(vec![]); }
            v
        }
        _ => { let n = *r.pick(&[63usize, 64, 65, 70, 130]); (0..n).map(|_| { let l = *r.pick(&[0usize, 0, 1, 2, 3]); r.bytes(l) }).collect() }
    };
    (recs.iter().map(|b| hex(b)).collect(), ck)
}
fn dict_case(cx: &mut Ctx, text: &[u8], minp: usize, maxp: usize, exhaustive: bool) {
    let cj = json!({"cell": "dict", "text": hex(text), "min": minp, "max": maxp, "exhaustive": exhaustive});
    let state = json!({"text": hex(text), "min": minp, "max": maxp});
    let none = |_: &Value, _: &str, _: &str| -> Option<&'static str> { None };
    let mut w = |path: &str| -> Result<(), String> {
        let mut cfg = SuffixArrayDictionaryConfig::default();
        cfg.min_pattern_length = minp; cfg.max_pattern_length = maxp; cfg.min_frequency = 1;
        let d = SuffixArrayDictionary::new(text, cfg).map_err(|e| e.to_string())?;
        if d.data() != text { return Err("dictionary text differs from training data".into()); }
        d.save_to_file(path).map_err(|e| e.to_string())
    };
    let _ = once_case(cx, "SuffixArrayDictionary", "dict", cj, state, "d.dict", exhaustive, &none, &mut w, &[8], None);
}
// ops: ["w", hex] write_slice | ["s", k] seek to capacity * k / 8 | ["x"] seek past the capacity (must be refused) | ["f"] flush | ["t"] truncate
// every history ends with flush, truncate, flush
fn mmio_case(cx: &mut Ctx, ops: &[Value], initial: usize, exhaustive: bool) {
    let cj = json!({"cell": "mmio", "ops": ops, "initial": initial, "exhaustive": exhaustive});
    // what the file must hold at the end: a plain byte vector with the same write / seek / truncate semantics
    let mut sh: Vec<u8> = vec![]; let mut shp = 0usize;
    let mut seeks: Vec<usize> = vec![];
    let mut terms: Vec<String> = vec![]; let mut obs: Vec<[u64; 2]> = vec![];
    let mut volume = 0usize;
    // a raw byte stream has no header: any image is "what the file contains"; the reader must serve exactly
    // the bytes present and refuse reads past them; for crash images that is all that is required
    let class_of = |_: &Value, _: &str, _: &str| -> Option<&'static str> { None };
    let img_state = |d: &Disk| -> Vec<Value> { d.get("o.bin").map(|b| vec![json!({"bytes": hex(b)})]).unwrap_or_default() };
    let mut full: Vec<Value> = ops.to_vec(); full.push(json!(["f"])); full.push(json!(["t"])); full.push(json!(["f"]));
    let mut w = |path: &str| -> Result<(), String> {
        use zipora::DataOutput;
        let mut o = MemoryMappedOutput::create(path, initial).map_err(|e| e.to_string())?;
        for op in &full {
            match op[0].as_str().unwrap_or("") {
                "w" => { let d = unhex(op[1].as_str().unwrap_or("")); o.write_slice(&d).map_err(|e| e.to_string())?;
                         if sh.len() < shp + d.len() { sh.resize(shp + d.len(), 0); } sh[shp..shp + d.len()].copy_from_slice(&d); shp += d.len();
                         volume += d.len(); terms.push(format!("MWrite {}", coq_bytes(&d))); }
                "s" => { let p = o.capacity() * (op[1].as_u64().unwrap_or(0) as usize).min(8) / 8; o.seek(p).map_err(|e| e.to_string())?; shp = p; seeks.push(p); terms.push(format!("MSeek {}", p)); }
                "x" => { if o.seek(o.capacity() + 1).is_ok() { return Err("seek past the capacity succeeded".into()); } continue; }
                "f" => { o.flush().map_err(|e| e.to_string())?; terms.push("MFlush".into()); }
                "t" => { o.truncate().map_err(|e| e.to_string())?; if sh.len() < shp { sh.resize(shp, 0); } sh.truncate(shp); terms.push("MTruncate".into()); }
                _ => continue,
            }
            if o.position() != shp { return Err(format!("position {} after {:?}, expected {}", o.position(), op, shp)); }
            obs.push([o.position() as u64, o.capacity() as u64]);
        }
        Ok(())
    };
    // the writer runs inside once_case; the expected final state is known only afterwards, so run the oracle in two steps:
    // first the writer (traced), then the judgement against the shadow
    dbg_case(&cj);
    let cell = "MemoryMappedOutput/Input";
    cx.sum.eval(cell, &cj.to_string(), true);
    cx.sum.cell_status(cell, "M+S");
    let mut r = Rng::new(fnv64(cj.to_string().as_bytes(), 17));
    let dir = cx.fresh_dir("on");
    let path = format!("{}/o.bin", dir);
    trace::start(&dir);
    let res = guarded(|| w(&path));
    let tr = trace::stop();
    match res { Err(p) => { cx.sum.fail(cell, None, cj, &format!("writer panicked: {}", p)); return; }
                Ok(Err(e)) => { cx.sum.fail(cell, None, cj, &format!("writer failed: {}", e)); let _ = std::fs::remove_dir_all(&dir); return; }
                Ok(Ok(())) => {} }
    let mut sim = Disk::new();
    for op in &tr { apply(&mut sim, op); }
    if let Err(w) = tracer_in_sync(&dir, &sim) { panic!("C19 tracer out of sync with the file system:{}", w); }
    let state = json!({"bytes": hex(&sh)});
    let states = vec![state.clone()];
    let marks = vec![tr.len()];
    let fin = judge_trace(cx, cell, "mmio", &class_of, &cj, &json!({}), "o.bin", false, &tr, &marks, &states, Some(&state), &[], &mut r, exhaustive, Some(&img_state));
    let _ = std::fs::remove_dir_all(&dir);
    if let Some(f) = fin.as_ref().and_then(|d| d.get("o.bin")) {
        if volume <= 3000 && initial <= 4096 && cx.n_mmio < if cx.thorough { 120 } else { 14 } && cx.coq_seen.insert(fnv64(cj.to_string().as_bytes(), 0x6d6d)) {
            cx.n_mmio += 1;
            cx.shards.push(format!("(XMmio {} [{}] [{}] {})", initial, terms.join("; "), obs.iter().map(|o| format!("[{}; {}]", o[0], o[1])).collect::<Vec<_>>().join("; "), coq_bytes(f)),
                           json!({"cell": "mmio_ops", "ops": ops, "initial": initial}));
        }
    }
}

// ------------------------------------------------------------------ replay / dispatch
fn run_one(cx: &mut Ctx, c: &Value) {
    let ex = c["exhaustive"].as_bool().unwrap_or(false);
    match c["cell"].as_str() {
        Some("mmapvec") | Some("mmapvec_ops") | Some("mmapvec_units") => {
            let ops: Vec<Vec<u64>> = c["ops"].as_array().map(|a| a.iter().map(|o| o.as_array().map(|x| x.iter().map(|y| y.as_u64().unwrap_or(0)).collect()).unwrap_or_default()).collect()).unwrap_or_default();
            run_mv(cx, c["es"].as_u64().unwrap_or(8) as usize, c["ic"].as_u64().unwrap_or(0) as usize, c["growth"].as_f64().unwrap_or(1.618), c["sync_on_write"].as_bool().unwrap_or(false), &ops, ex);
        }
        Some("mmapvec_image") => { let im = unhex(c["image"].as_str().unwrap_or("")); cx.coq_seen.clear(); mv_coq_case(cx, c["es"].as_u64().unwrap_or(8) as usize, &im); }
        Some("reorder_image") => { let im = unhex(c["image"].as_str().unwrap_or("")); cx.coq_seen.clear(); reorder_coq_case(cx, &im); }
        Some("plain") | Some("plain_history") => plain_case(cx, c["ops"].as_array().map(|a| a.as_slice()).unwrap_or(&[]), c["leftover"].as_u64().unwrap_or(0) as usize, ex),
        Some("reorder") | Some("reorder_encode") | Some("reorder_writes") => {
            let b = if c.get("builds").is_some() { c["builds"].as_array().cloned().unwrap_or_default() } else { vec![json!({"values": c["values"], "neg": c["neg"]})] };
            reorder_case(cx, &b, ex)
        }
        Some("zipoffset") => { let recs: Vec<String> = c["records"].as_array().map(|a| a.iter().map(|x| x.as_str().unwrap_or("").to_string()).collect()).unwrap_or_default(); zipoffset_case(cx, &recs, c["checksum"].as_u64().unwrap_or(0) as u8, ex) }
        Some("dict") => dict_case(cx, &unhex(c["text"].as_str().unwrap_or("")), c["min"].as_u64().unwrap_or(4) as usize, c["max"].as_u64().unwrap_or(256) as usize, ex),
        Some("mmio") | Some("mmio_ops") => {
            // (older replays carry "chunks")
            let ops: Vec<Value> = if let Some(ch) = c["chunks"].as_array() { ch.iter().map(|x| json!(["w", x])).collect() } else { c["ops"].as_array().cloned().unwrap_or_default() };
            mmio_case(cx, &ops, c["initial"].as_u64().unwrap_or(16) as usize, ex)
        }
        _ => {}
    }
}

/// the tracer must see what std::fs does in this build; otherwise the crash images would silently be empty
fn tracer_self_test(root: &str) {
    let d = format!("{}/selftest", root);
    std::fs::create_dir_all(&d).unwrap();
    trace::start(&d);
    {
        use std::os::unix::fs::FileExt;
        let mut f = std::fs::File::create(format!("{}/a", d)).unwrap();
        f.write_all(b"hello").unwrap();
        f.write_all(b" world").unwrap();
        f.write_at(b"J", 0).unwrap();
        f.set_len(9).unwrap();
        f.sync_all().unwrap();
        drop(f);
        std::fs::rename(format!("{}/a", d), format!("{}/b", d)).unwrap();
        std::fs::write(format!("{}/c", d), b"xyz").unwrap();
        std::fs::remove_file(format!("{}/c", d)).unwrap();
    }
    let tr = trace::stop();
    let want = vec![
        Op::Open { p: "a".into(), creat: true, trunc: true }, Op::Write { p: "a".into(), off: 0, data: b"hello".to_vec() },
        Op::Write { p: "a".into(), off: 5, data: b" world".to_vec() }, Op::Write { p: "a".into(), off: 0, data: b"J".to_vec() },
        Op::SetLen { p: "a".into(), n: 9 }, Op::Fsync { p: "a".into() }, Op::Rename { a: "a".into(), b: "b".into() },
        Op::Open { p: "c".into(), creat: true, trunc: true }, Op::Write { p: "c".into(), off: 0, data: b"xyz".to_vec() }, Op::Unlink { p: "c".into() },
    ];
    if tr != want { panic!("C19 file-operation tracer does not see std::fs in this build: {:?}", tr.iter().map(op_brief).collect::<Vec<_>>()); }
    let _ = std::fs::remove_dir_all(&d);
}

pub fn run(args: &Args) {
    // private sub-mode: the reader server
    if let Some(f) = &args.replay {
        if let Ok(s) = std::fs::read_to_string(f) {
            if let Ok(v) = serde_json::from_str::<Value>(&s) { if v["case"]["c19_server"] == json!(true) { serve(); return; } }
        }
    }
    let base = if std::path::Path::new("/dev/shm").is_dir() { "/dev/shm".to_string() } else { std::env::temp_dir().to_string_lossy().to_string() };
    let root = format!("{}/zv-c19-{}", base, std::process::id());
    let _ = std::fs::remove_dir_all(&root);
    std::fs::create_dir_all(&root).unwrap();
    std::panic::set_hook(Box::new(|i| { let s = i.to_string(); if s.contains("C19 ") { eprintln!("{}", s); } }));
    let srv = Server::start(&root);   // started before any writer runs: a process that never saw the written structures
    tracer_self_test(&root);
    let mut cx = Ctx {
        sum: Summary::new("C19", "histories of real write operations (MmapVec push/pop/set/truncate/clear/reserve/shrink/resize/extend/bulk/copy_from_simd/sync/reopen at capacities around 0,1,block and growth factors 1.0..2.0, destinations that are not full copied from 1x..10x their capacity; PlainBlobStore put/remove/reopen with records of 0..9000 bytes, also over leftover temporary files; ZReorderMap builds incl. overwriting an older map, runs of 1,2,127..129, 40-bit values, many short runs crossing the 4096-byte write buffer once, twice and several times; ZipOffsetBlobStore with content lengths around the 16-byte padding and more than one offset block, SuffixArrayDictionary, MemoryMappedOutput files with seeks) with the file operations traced; every crash image (each operation prefix, last write torn at boundary-biased or all byte positions, one unsynced write dropped, one 4 KiB block rolled back) and every truncation of the finished files is reopened and read completely in a separate process; non-trivial = history of >= 3 operations / map of >= 2 values / any write-once file"),
        shards: CoqShards::new(HEADER, 150),
        budget: if args.thorough { 6000 } else { 1000 },
        srv, root: root.clone(), seq: 0, thorough: args.thorough, cache: HashMap::new(), images: 0, coq_seen: Default::default(), proto: 0, n_mv: 0, n_ro: 0,
        n_zo: 0, n_zosave: 0, n_row: 0, n_row_big: 0, n_plain: 0, n_mvops: 0, n_mmio: 0, n_units: 0,
    };
    cx.sum.cell_status("MmapVec<u8>", "M+S"); cx.sum.cell_status("MmapVec<u64>", "M+S"); cx.sum.cell_status("ZReorderMap", "M+S");
    let mut rng = Rng::new(args.seed);
    if let Some(f) = &args.replay {
        let v: Value = serde_json::from_str(&std::fs::read_to_string(f).expect("replay file")).expect("json");
        let c = if v.get("case").is_some() { v["case"].clone() } else { v };
        run_one(&mut cx, &c);
    } else {
        if let Ok(rd) = std::fs::read_dir("corpus/C19") {
            let mut files: Vec<_> = rd.filter_map(|e| e.ok()).map(|e| e.path()).filter(|p| p.extension().map(|x| x == "json").unwrap_or(false)).collect();
            files.sort();
            for p in files {
                if let Ok(v) = serde_json::from_str::<Value>(&std::fs::read_to_string(&p).unwrap_or_default()) {
                    let c = if v.get("case").is_some() { v["case"].clone() } else { v };
                    run_one(&mut cx, &c);
                    cx.sum.dist("corpus_cases");
                }
            }
        }
        let scale = if args.thorough { 12 } else { 1 };
        // exhaustive byte positions on a few small cases of each kind
        for i in 0..(3 * scale) {
            let (es, ic, g, sow, ops) = gen_mv(&mut rng, false);
            if i == 0 { cx.sum.sample(json!({"mmapvec": {"es": es, "ic": ic, "growth": g, "sync_on_write": sow, "ops": ops}})); }
            run_mv(&mut cx, es, ic.min(130), g, sow, &ops[..ops.len().min(7)], true);
        }
        for _ in 0..(2 * scale) { let b = gen_reorder(&mut rng); reorder_case(&mut cx, &b, true); }
        for _ in 0..(1 * scale) {
            // every byte position: keep the records small
            let o: Vec<Value> = gen_plain(&mut rng).into_iter().map(|mut op| { if op[0] == json!(0) { let h = op[1].as_str().unwrap_or("").to_string(); op[1] = json!(h[..h.len().min(120)].to_string()); } op }).collect();
            plain_case(&mut cx, &o, 0, true);
        }
        // boundary-biased sampling on many
        for i in 0..(120 * scale) {
            let (es, ic, g, sow, ops) = gen_mv(&mut rng, i % 40 == 39);
            run_mv(&mut cx, es, ic, g, sow, &ops, false);
        }
        for i in 0..(120 * scale) {
            let b = gen_reorder(&mut rng);
            if i == 0 { cx.sum.sample(json!({"reorder": b})); }
            reorder_case(&mut cx, &b, false);
        }
        // many short runs: one, two and several intermediate flushes of the builder's 4096-byte buffer, and record
        // bytes landing on 4095/4096/4097/8191/8192/8193
        for (i, t) in [4095usize, 4096, 4097, 4100, 8191, 8192, 8193, 4090 + 4100, 12288].iter().enumerate() {
            if !args.thorough && i % 3 == (args.seed % 3) as usize && i >= 3 { continue; }
            let b = gen_reorder_dense(&mut rng, *t, 0); reorder_case(&mut cx, &b, false);
        }
        for n in [830usize, 1300, 2000, 5000].iter().take(if args.thorough { 4 } else { 3 }) {
            let extra = rng.below(40) as usize; let b = gen_reorder_dense(&mut rng, 0, *n + extra); reorder_case(&mut cx, &b, false);
        }
        if args.thorough { for _ in 0..10 { let n = rng.range(800, 5200) as usize; let b = gen_reorder_dense(&mut rng, 0, n); reorder_case(&mut cx, &b, false); } }
        for i in 0..(24 * scale) {
            let (es, ic, g, sow, ops) = gen_mv_copy(&mut rng, i as usize);
            run_mv(&mut cx, es, ic, g, sow, &ops, false);
        }
        for i in 0..(40 * scale) {
            let o = gen_plain(&mut rng);
            if i == 0 { cx.sum.sample(json!({"plain": o})); }
            let leftover = if i % 3 == 1 { *rng.pick(&[1usize, 7, 50, 200, 5000]) } else { 0 };
            plain_case(&mut cx, &o, leftover, false);
        }
        for i in 0..(22 * scale) {
            let (recs, ck) = gen_zip(&mut rng, i as usize);
            // every byte position on a few small stores
            let small: usize = recs.iter().map(|r| r.len() / 2).sum();
            zipoffset_case(&mut cx, &recs, ck, i % 11 == 3 && small <= 200);
        }
        for _ in 0..(6 * scale) {
            let n = *rng.pick(&[16usize, 40, 200, 600]);
            let alpha = *rng.pick(&[2u64, 4, 26]);
            let text: Vec<u8> = (0..n).map(|_| b'a' + rng.below(alpha) as u8).collect();
            dict_case(&mut cx, &text, *rng.pick(&[2usize, 4]), *rng.pick(&[8usize, 256]), false);
        }
        for _ in 0..(14 * scale) {
            let k = rng.range(0, 5);
            let with_seeks = rng.chance(1, 3);
            let mut ops: Vec<Value> = vec![];
            for _ in 0..k {
                let l = *rng.pick(&[0usize, 1, 4, 8, 100, 4096, 5000]);
                let l = if with_seeks { l.min(100) } else { l };
                ops.push(json!(["w", hex(&rng.bytes(l))]));
                if with_seeks { match rng.below(5) { 0 => ops.push(json!(["s", rng.below(9)])), 1 => ops.push(json!(["x"])), 2 => ops.push(json!(["f"])), 3 => ops.push(json!(["t"])), _ => {} } }
            }
            mmio_case(&mut cx, &ops, *rng.pick(&[1usize, 16, 4096, 10000]), false);
        }
    }
    cx.sum.dist_max("images_reopened_in_reader_process", cx.images);
    cx.sum.dist_max("coq_cases", cx.shards.len() as u64);
    let sh = cx.shards.write(&args.out);
    cx.sum.write(&args.out, sh);
    drop(cx);
    let _ = std::fs::remove_dir_all(&root);
}
