//! C19: file-backed structures reopen as written; damaged files are refused.
//!
//! How the oracle works (independent of the Coq model):
//!  * the writer runs the real code in this process while an in-process tracer (libc symbol
//!    interposition: open64/write/pwrite64/ftruncate64/fsync/rename/unlink/mmap64/msync/...)
//!    records the sequence of file operations the code issues;
//!  * crash images are constructed from that trace and a simulated disk: every prefix of the
//!    operations, the last write torn (boundary-biased / exhaustive byte positions), one unsynced
//!    write dropped ("header written, data not" and vice versa), one 4 KiB block rolled back to its
//!    pre-write content; plus every truncation length of the finished file(s);
//!  * every image is reopened and read completely by the real code in a *different* process
//!    (a reader server exec'd before any writer ran, forking one worker per image so that
//!    SIGSEGV/SIGBUS/abort/timeouts are observed);
//!  * verdict per image: Err, or exactly a logical state the structure had at an operation
//!    boundary not later than the interrupted operation; anything else (a state that never
//!    existed, a fault, a panic, an inconsistent reader) fails.  After a clean sync/finish the
//!    reopened state must equal the shadow exactly.
//!
//! M+S cells (evaluated by the Coq model too, see coq/C19/ModelCases.v): MmapVec<u8|u16|u32|u64> open/read and the
//! state (len, capacity, file length) after every operation; ZReorderMap open/iterate, builder output and its write
//! sequence; ZipOffsetBlobStore image, save operations and loader (final, cut and bit-flipped images);
//! PlainBlobStore whole-history file operations; MemoryMappedOutput position/capacity/file.
//! S-only cell: SuffixArrayDictionary (bincode image; only its write protocol is compared).
use crate::util::*;
use serde_json::{json, Value};
use std::collections::{BTreeMap, HashMap};
use std::io::{BufRead, BufReader, Write};

// =====================================================================================
// file-operation tracer
// =====================================================================================
pub mod trace {
    use std::collections::HashMap;
    use std::os::raw::{c_char, c_int, c_long, c_uint, c_void};
    use std::sync::atomic::{AtomicBool, Ordering};
    use std::sync::Mutex;

    #[derive(Clone, Debug, PartialEq)]
    pub enum Op {
        Open { p: String, creat: bool, trunc: bool },
        SetLen { p: String, n: u64 },
        Write { p: String, off: u64, data: Vec<u8> },
        Fsync { p: String },
        Rename { a: String, b: String },
        Unlink { p: String },
    }
    struct Region { addr: usize, len: usize, p: String, off: u64 }
    struct St { root: Vec<u8>, fds: HashMap<c_int, (String, bool)>, regions: Vec<Region>, ops: Vec<Op> }
    static ON: AtomicBool = AtomicBool::new(false);
    static ST: Mutex<Option<St>> = Mutex::new(None);

    pub fn start(root: &str) {
        let mut r = root.as_bytes().to_vec();
        if !r.ends_with(b"/") { r.push(b'/'); }
        *ST.lock().unwrap() = Some(St { root: r, fds: HashMap::new(), regions: vec![], ops: vec![] });
        ON.store(true, Ordering::SeqCst);
    }
    pub fn pause() { ON.store(false, Ordering::SeqCst); }
    pub fn resume() { ON.store(true, Ordering::SeqCst); }
    pub fn len() -> usize { ST.lock().unwrap().as_ref().map(|s| s.ops.len()).unwrap_or(0) }
    pub fn stop() -> Vec<Op> {
        ON.store(false, Ordering::SeqCst);
        ST.lock().unwrap().take().map(|s| s.ops).unwrap_or_default()
    }
    fn rel(st: &St, path: *const c_char) -> Option<String> {
        if path.is_null() { return None; }
        let b = unsafe { std::ffi::CStr::from_ptr(path) }.to_bytes();
        if b.starts_with(&st.root) { Some(String::from_utf8_lossy(&b[st.root.len()..]).to_string()) } else { None }
    }
    fn with<R>(f: impl FnOnce(&mut St) -> R) -> Option<R> {
        if !ON.load(Ordering::Relaxed) { return None; }
        let mut g = match ST.lock() { Ok(g) => g, Err(_) => return None };
        g.as_mut().map(f)
    }

    unsafe fn raw_open(path: *const c_char, flags: c_int, mode: c_uint) -> c_int {
        libc::syscall(libc::SYS_openat, libc::AT_FDCWD, path, flags, mode) as c_int
    }
    unsafe fn do_open(path: *const c_char, flags: c_int, mode: c_uint) -> c_int {
        let fd = raw_open(path, flags, mode);
        if fd >= 0 {
            let acc = flags & libc::O_ACCMODE;
            let creat = flags & libc::O_CREAT != 0;
            let trunc = flags & libc::O_TRUNC != 0;
            if acc != libc::O_RDONLY || creat || trunc {
                with(|st| {
                    if let Some(p) = rel(st, path) {
                        if creat || trunc { st.ops.push(Op::Open { p: p.clone(), creat, trunc }); }
                        st.fds.insert(fd, (p, flags & libc::O_APPEND != 0));
                    }
                });
            }
        }
        fd
    }
    #[no_mangle]
    pub unsafe extern "C" fn open64(path: *const c_char, flags: c_int, mode: c_uint) -> c_int { do_open(path, flags, mode) }
    #[no_mangle]
    pub unsafe extern "C" fn open(path: *const c_char, flags: c_int, mode: c_uint) -> c_int { do_open(path, flags, mode) }

    unsafe fn tracked(fd: c_int) -> Option<(String, bool)> {
        with(|st| st.fds.get(&fd).cloned()).flatten()
    }
    unsafe fn cur_off(fd: c_int, append: bool) -> u64 {
        if append {
            let mut s: libc::stat = std::mem::zeroed();
            if libc::syscall(libc::SYS_fstat, fd, &mut s as *mut libc::stat) == 0 { s.st_size as u64 } else { 0 }
        } else {
            let r = libc::syscall(libc::SYS_lseek, fd, 0 as c_long, libc::SEEK_CUR);
            if r < 0 { 0 } else { r as u64 }
        }
    }
    #[no_mangle]
    pub unsafe extern "C" fn write(fd: c_int, buf: *const c_void, n: usize) -> isize {
        if !ON.load(Ordering::Relaxed) { return libc::syscall(libc::SYS_write, fd, buf, n) as isize; }
        match tracked(fd) {
            None => libc::syscall(libc::SYS_write, fd, buf, n) as isize,
            Some((p, app)) => {
                let off = cur_off(fd, app);
                let r = libc::syscall(libc::SYS_write, fd, buf, n) as isize;
                if r > 0 {
                    let data = std::slice::from_raw_parts(buf as *const u8, r as usize).to_vec();
                    with(|st| st.ops.push(Op::Write { p, off, data }));
                }
                r
            }
        }
    }
    unsafe fn do_pwrite(fd: c_int, buf: *const c_void, n: usize, off: i64) -> isize {
        let r = libc::syscall(libc::SYS_pwrite64, fd, buf, n, off) as isize;
        if r > 0 && ON.load(Ordering::Relaxed) {
            if let Some((p, _)) = tracked(fd) {
                let data = std::slice::from_raw_parts(buf as *const u8, r as usize).to_vec();
                with(|st| st.ops.push(Op::Write { p, off: off as u64, data }));
            }
        }
        r
    }
    #[no_mangle]
    pub unsafe extern "C" fn pwrite64(fd: c_int, buf: *const c_void, n: usize, off: i64) -> isize { do_pwrite(fd, buf, n, off) }
    #[no_mangle]
    pub unsafe extern "C" fn pwrite(fd: c_int, buf: *const c_void, n: usize, off: i64) -> isize { do_pwrite(fd, buf, n, off) }
    #[no_mangle]
    pub unsafe extern "C" fn writev(fd: c_int, iov: *const libc::iovec, cnt: c_int) -> isize {
        if !ON.load(Ordering::Relaxed) { return libc::syscall(libc::SYS_writev, fd, iov, cnt) as isize; }
        match tracked(fd) {
            None => libc::syscall(libc::SYS_writev, fd, iov, cnt) as isize,
            Some((p, app)) => {
                let off = cur_off(fd, app);
                let r = libc::syscall(libc::SYS_writev, fd, iov, cnt) as isize;
                if r > 0 {
                    let mut data = Vec::with_capacity(r as usize);
                    for i in 0..cnt as usize {
                        let v = &*iov.add(i);
                        data.extend_from_slice(std::slice::from_raw_parts(v.iov_base as *const u8, v.iov_len));
                    }
                    data.truncate(r as usize);
                    with(|st| st.ops.push(Op::Write { p, off, data }));
                }
                r
            }
        }
    }
    unsafe fn do_ftruncate(fd: c_int, n: i64) -> c_int {
        let r = libc::syscall(libc::SYS_ftruncate, fd, n) as c_int;
        if r == 0 && ON.load(Ordering::Relaxed) {
            if let Some((p, _)) = tracked(fd) { with(|st| st.ops.push(Op::SetLen { p, n: n as u64 })); }
        }
        r
    }
    #[no_mangle]
    pub unsafe extern "C" fn ftruncate64(fd: c_int, n: i64) -> c_int { do_ftruncate(fd, n) }
    #[no_mangle]
    pub unsafe extern "C" fn ftruncate(fd: c_int, n: i64) -> c_int { do_ftruncate(fd, n) }
    #[no_mangle]
    pub unsafe extern "C" fn fsync(fd: c_int) -> c_int {
        let r = libc::syscall(libc::SYS_fsync, fd) as c_int;
        if r == 0 && ON.load(Ordering::Relaxed) {
            if let Some((p, _)) = tracked(fd) { with(|st| st.ops.push(Op::Fsync { p })); }
        }
        r
    }
    #[no_mangle]
    pub unsafe extern "C" fn fdatasync(fd: c_int) -> c_int {
        let r = libc::syscall(libc::SYS_fdatasync, fd) as c_int;
        if r == 0 && ON.load(Ordering::Relaxed) {
            if let Some((p, _)) = tracked(fd) { with(|st| st.ops.push(Op::Fsync { p })); }
        }
        r
    }
    #[no_mangle]
    pub unsafe extern "C" fn close(fd: c_int) -> c_int {
        if ON.load(Ordering::Relaxed) { with(|st| st.fds.remove(&fd)); }
        libc::syscall(libc::SYS_close, fd) as c_int
    }
    #[no_mangle]
    pub unsafe extern "C" fn rename(a: *const c_char, b: *const c_char) -> c_int {
        let r = libc::syscall(libc::SYS_renameat, libc::AT_FDCWD, a, libc::AT_FDCWD, b) as c_int;
        if r == 0 {
            with(|st| { if let (Some(x), Some(y)) = (rel(st, a), rel(st, b)) { st.ops.push(Op::Rename { a: x, b: y }); } });
        }
        r
    }
    #[no_mangle]
    pub unsafe extern "C" fn unlink(p: *const c_char) -> c_int {
        let r = libc::syscall(libc::SYS_unlinkat, libc::AT_FDCWD, p, 0) as c_int;
        if r == 0 { with(|st| { if let Some(x) = rel(st, p) { st.ops.push(Op::Unlink { p: x }); } }); }
        r
    }
    /// `unlinkat` (std's remove_dir_all removes the entries of a directory relative to its descriptor): the name is resolved
    /// through /proc/self/fd before the entry disappears; removals of directories are not file operations of the model
    #[no_mangle]
    pub unsafe extern "C" fn unlinkat(dirfd: c_int, p: *const c_char, flags: c_int) -> c_int {
        let mut full: Option<Vec<u8>> = None;
        if ON.load(Ordering::Relaxed) && !p.is_null() && flags & libc::AT_REMOVEDIR == 0 {
            let name = std::ffi::CStr::from_ptr(p).to_bytes().to_vec();
            if name.starts_with(b"/") || dirfd == libc::AT_FDCWD { full = Some(name); }
            else if let Ok(d) = std::fs::read_link(format!("/proc/self/fd/{}", dirfd)) {
                use std::os::unix::ffi::OsStrExt;
                let mut f = d.as_os_str().as_bytes().to_vec(); f.push(b'/'); f.extend_from_slice(&name); full = Some(f);
            }
        }
        let r = libc::syscall(libc::SYS_unlinkat, dirfd, p, flags) as c_int;
        if r == 0 { if let Some(f) = full { with(|st| { if f.starts_with(&st.root) { let x = String::from_utf8_lossy(&f[st.root.len()..]).to_string(); st.ops.push(Op::Unlink { p: x }); } }); } }
        r
    }
    // shared writable file mappings: what is stored through the mapping reaches the file at msync/munmap
    unsafe fn do_mmap(addr: *mut c_void, len: usize, prot: c_int, flags: c_int, fd: c_int, off: i64) -> *mut c_void {
        let r = libc::syscall(libc::SYS_mmap, addr, len, prot, flags, fd, off);
        if r != -1 && fd >= 0 && flags & libc::MAP_SHARED != 0 && prot & libc::PROT_WRITE != 0 && ON.load(Ordering::Relaxed) {
            if let Some((p, _)) = tracked(fd) {
                with(|st| st.regions.push(Region { addr: r as usize, len, p, off: off as u64 }));
            }
        }
        r as *mut c_void
    }
    #[no_mangle]
    pub unsafe extern "C" fn mmap64(addr: *mut c_void, len: usize, prot: c_int, flags: c_int, fd: c_int, off: i64) -> *mut c_void { do_mmap(addr, len, prot, flags, fd, off) }
    #[no_mangle]
    pub unsafe extern "C" fn mmap(addr: *mut c_void, len: usize, prot: c_int, flags: c_int, fd: c_int, off: i64) -> *mut c_void { do_mmap(addr, len, prot, flags, fd, off) }
    unsafe fn flush_region(addr: usize, len: usize, sync: bool, remove: bool) {
        with(|st| {
            let mut i = 0;
            while i < st.regions.len() {
                let (ra, rl) = (st.regions[i].addr, st.regions[i].len);
                if ra < addr + len.max(1) && addr < ra + rl.max(1) {
                    let lo = ra.max(addr); let mut hi = (ra + rl).min(addr + len);
                    // never touch mapped pages past the end of the file (SIGBUS)
                    let mut full = st.root.clone(); full.extend_from_slice(st.regions[i].p.as_bytes());
                    let fsz = std::fs::metadata(String::from_utf8_lossy(&full).to_string()).map(|m| m.len()).unwrap_or(0);
                    let limit = ra + (fsz.saturating_sub(st.regions[i].off) as usize).min(rl);
                    if hi > limit { hi = limit; }
                    if hi > lo {
                        let data = std::slice::from_raw_parts(lo as *const u8, hi - lo).to_vec();
                        let p = st.regions[i].p.clone();
                        st.ops.push(Op::Write { p: p.clone(), off: st.regions[i].off + (lo - ra) as u64, data });
                        if sync { st.ops.push(Op::Fsync { p }); }
                    }
                    if remove { st.regions.remove(i); continue; }
                }
                i += 1;
            }
        });
    }
    #[no_mangle]
    pub unsafe extern "C" fn msync(addr: *mut c_void, len: usize, flags: c_int) -> c_int {
        let r = libc::syscall(libc::SYS_msync, addr, len, flags) as c_int;
        if r == 0 && ON.load(Ordering::Relaxed) { flush_region(addr as usize, len, flags & libc::MS_SYNC != 0, false); }
        r
    }
    #[no_mangle]
    pub unsafe extern "C" fn munmap(addr: *mut c_void, len: usize) -> c_int {
        if ON.load(Ordering::Relaxed) { flush_region(addr as usize, len, false, true); }
        libc::syscall(libc::SYS_munmap, addr, len) as c_int
    }
}
use trace::Op;

// =====================================================================================
// simulated disk and crash images
// =====================================================================================
type Disk = BTreeMap<String, Vec<u8>>;

fn apply(d: &mut Disk, op: &Op) {
    match op {
        Op::Open { p, creat, trunc } => {
            if *trunc { if d.contains_key(p) || *creat { d.insert(p.clone(), vec![]); } }
            else if *creat && !d.contains_key(p) { d.insert(p.clone(), vec![]); }
        }
        Op::SetLen { p, n } => { d.entry(p.clone()).or_default().resize(*n as usize, 0); }
        Op::Write { p, off, data } => {
            let f = d.entry(p.clone()).or_default();
            let end = *off as usize + data.len();
            if f.len() < end { f.resize(end, 0); }
            f[*off as usize..end].copy_from_slice(data);
        }
        Op::Fsync { .. } => {}
        Op::Rename { a, b } => { if let Some(x) = d.remove(a) { d.insert(b.clone(), x); } }
        Op::Unlink { p } => { d.remove(p); }
    }
}
fn op_path(op: &Op) -> &str {
    match op { Op::Open { p, .. } | Op::SetLen { p, .. } | Op::Write { p, .. } | Op::Fsync { p } | Op::Unlink { p } => p, Op::Rename { a, .. } => a }
}
fn op_brief(op: &Op) -> Value {
    match op {
        Op::Open { p, creat, trunc } => json!(["open", p, creat, trunc]),
        Op::SetLen { p, n } => json!(["set_len", p, n]),
        Op::Write { p, off, data } => json!(["write", p, off, data.len()]),
        Op::Fsync { p } => json!(["fsync", p]),
        Op::Rename { a, b } => json!(["rename", a, b]),
        Op::Unlink { p } => json!(["unlink", p]),
    }
}

/// byte positions worth cutting at, for a buffer of length n starting at file offset `base`
fn cut_points(n: usize, base: usize, marks: &[usize], r: &mut Rng, exhaustive: bool, extra: usize) -> Vec<usize> {
    if n == 0 { return vec![]; }
    if exhaustive && n <= 20000 { return (0..n).collect(); }
    let mut v: Vec<usize> = vec![0, 1, 2, 7, 8, 9, 15, 16, 17, 23, 24, 25, 31, 32, 33, 63, 64, 65, 71, 72, 73, 79, 80, 81, 87, 88, 127, 128, 129, n - 1, n.saturating_sub(2), n.saturating_sub(8), n.saturating_sub(9), n / 2];
    for &m in marks { for d in [-1i64, 0, 1] { let x = m as i64 - base as i64 + d; if x >= 0 { v.push(x as usize); } } }
    let mut b = 4096usize;
    // (every 4 KiB boundary up to 48 of them; evenly spread ones beyond that)
    let step = 4096 * ((base + n) / 4096 / 48).max(1);
    while b < base + n { for d in [-1i64, 0, 1] { let x = b as i64 - base as i64 + d; if x >= 0 { v.push(x as usize); } } b += step; }
    for _ in 0..extra { v.push(r.below(n as u64) as usize); }
    v.retain(|&x| x < n);
    v.sort_unstable(); v.dedup();
    v
}

struct Image { disk: Disk, when: usize, torn: bool, kind: String }

/// crash images of a trace over an initial disk (see the module comment for the relation)
fn crash_images(init: &Disk, ops: &[Op], marks: &[usize], r: &mut Rng, exhaustive: bool, extra: usize) -> Vec<Image> {
    let mut out = vec![];
    let mut states: Vec<Disk> = vec![init.clone()];
    for op in ops { let mut d = states.last().unwrap().clone(); apply(&mut d, op); states.push(d); }
    for k in 0..=ops.len() {
        out.push(Image { disk: states[k].clone(), when: k, torn: false, kind: format!("prefix:{}", k) });
        if k == ops.len() { break; }
        // op k torn
        if let Op::Write { p, off, data } = &ops[k] {
            for t in cut_points(data.len(), *off as usize, marks, r, exhaustive, extra) {
                if t == 0 { continue; }
                let mut d = states[k].clone();
                apply(&mut d, &Op::Write { p: p.clone(), off: *off, data: data[..t].to_vec() });
                out.push(Image { disk: d, when: k, torn: true, kind: format!("torn:{}@{}", k, t) });
            }
        }
    }
    // reordering inside the unsynced window: crash after op k-1, an earlier unsynced write/set_len j dropped,
    // or one 4 KiB block of write j still holding its pre-write content
    for k in 1..=ops.len() {
        // only the last few write operations before the crash are candidates (older unsynced writes have
        // been overwritten by whole-file rewrites in every structure looked at; keeps the image count linear)
        let mut window = 0;
        for j in (0..k).rev() {
            let pj = op_path(&ops[j]).to_string();
            let droppable = matches!(ops[j], Op::Write { .. } | Op::SetLen { .. });
            if !droppable { continue; }
            window += 1;
            if window > 4 { break; }
            // a later fsync of the same file (under whatever name it then has) pins op j
            let mut name = pj.clone();
            let mut pinned = false;
            for f in j + 1..k {
                match &ops[f] {
                    Op::Fsync { p } if *p == name => { pinned = true; break; }
                    Op::Rename { a, b } if *a == name => { name = b.clone(); }
                    _ => {}
                }
            }
            if pinned { continue; }
            // drop op j
            let mut d = states[j].clone();
            for f in j + 1..k { apply(&mut d, &ops[f]); }
            out.push(Image { disk: d, when: k - 1, torn: true, kind: format!("drop:{}@{}", j, k) });
            // block rollback
            if let Op::Write { off, data, .. } = &ops[j] {
                let (lo, hi) = (*off as usize, *off as usize + data.len());
                let nblocks = (hi + 4095) / 4096 - lo / 4096;
                let mut blocks: Vec<usize> = (lo / 4096..(hi + 4095) / 4096).collect();
                if nblocks > 6 && !exhaustive {
                    let mut pick = vec![blocks[0], blocks[1], *blocks.last().unwrap()];
                    for _ in 0..3 { pick.push(*r.pick(&blocks)); }
                    pick.sort_unstable(); pick.dedup(); blocks = pick;
                }
                for b in blocks {
                    let mut d = states[k].clone();
                    let before = states[j].get(&pj).cloned().unwrap_or_default();
                    if let Some(f) = d.get_mut(&name) {
                        let (s, e) = ((b * 4096).max(lo), ((b + 1) * 4096).min(hi).min(f.len()));
                        if s >= e { continue; }
                        for x in s..e { f[x] = before.get(x).copied().unwrap_or(0); }
                        out.push(Image { disk: d, when: k - 1, torn: true, kind: format!("block:{}#{}@{}", j, b, k) });
                    }
                }
            }
        }
    }
    out
}

// =====================================================================================
// reader side: what a fresh process sees (runs in a forked worker of the reader server)
// =====================================================================================
use zipora::blob_store::{BlobStore, IterableBlobStore, PlainBlobStore, ZReorderMap, ZReorderMapBuilder, ZipOffsetBlobStore, ZipOffsetBlobStoreBuilder};
use zipora::compression::{SuffixArrayDictionary, SuffixArrayDictionaryConfig};
use zipora::memory::{MmapVec, MmapVecConfig};
use zipora::{MemoryMappedInput, MemoryMappedOutput};

trait El: Copy + PartialEq + 'static { const ES: usize; const NAME: &'static str; const MASK: u64; fn from(v: u64) -> Self; fn to(self) -> u64; }
macro_rules! el_int { ($t:ty, $u:ty, $n:expr) => {
    impl El for $t { const ES: usize = std::mem::size_of::<$t>(); const NAME: &'static str = $n;
        const MASK: u64 = if std::mem::size_of::<$t>() == 8 { u64::MAX } else { (1u64 << (std::mem::size_of::<$t>() * 8)) - 1 };
        fn from(v: u64) -> Self { v as $u as $t } fn to(self) -> u64 { self as $u as u64 } }
} }
el_int!(u8, u8, "u8"); el_int!(u16, u16, "u16"); el_int!(u32, u32, "u32"); el_int!(u64, u64, "u64");
el_int!(i8, u8, "i8"); el_int!(i16, u16, "i16"); el_int!(i32, u32, "i32"); el_int!(i64, u64, "i64");
/// 16-byte elements: the payload in the low half, its complement in the high half (a zero-filled or half-written
/// element reads back as a value nobody stored)
impl El for u128 { const ES: usize = 16; const NAME: &'static str = "u128"; const MASK: u64 = u64::MAX;
    fn from(v: u64) -> Self { (v as u128) | ((!v as u128) << 64) }
    fn to(self) -> u64 { if (self >> 64) as u64 == !(self as u64) { self as u64 } else { 0xDEAD_0000_0000_0000 ^ (self as u64) ^ ((self >> 64) as u64).rotate_left(7) } } }
/// 3-byte elements (an element size that is not a power of two, alignment 1)
impl El for [u8; 3] { const ES: usize = 3; const NAME: &'static str = "b3"; const MASK: u64 = 0xFF_FFFF;
    fn from(v: u64) -> Self { [v as u8, (v >> 8) as u8, (v >> 16) as u8] } fn to(self) -> u64 { self[0] as u64 | (self[1] as u64) << 8 | (self[2] as u64) << 16 } }
/// zero-sized elements: the file is the header alone
impl El for () { const ES: usize = 0; const NAME: &'static str = "unit"; const MASK: u64 = 0; fn from(_: u64) -> Self {} fn to(self) -> u64 { 0 } }
/// dispatch on the element type name of a case (`ty`, or the element size of older cases)
macro_rules! with_ty { ($ty:expr, $T:ident, $body:expr) => { match $ty {
    "u8" => { type $T = u8; $body } "u16" => { type $T = u16; $body } "u32" => { type $T = u32; $body } "u64" => { type $T = u64; $body }
    "i8" => { type $T = i8; $body } "i16" => { type $T = i16; $body } "i32" => { type $T = i32; $body } "i64" => { type $T = i64; $body }
    "u128" => { type $T = u128; $body } "b3" => { type $T = [u8; 3]; $body } "unit" => { type $T = (); $body }
    _ => { type $T = u64; $body } } } }
fn ty_of(c: &Value) -> String {
    if let Some(t) = c["ty"].as_str() { return t.to_string(); }
    match c["es"].as_u64().unwrap_or(8) { 1 => "u8", 2 => "u16", 4 => "u32", _ => "u64" }.to_string()
}
/// the configurations a vector file is opened with: 0 = the default, the presets, two built with the builder
fn mv_preset(k: u64) -> MmapVecConfig {
    match k {
        1 => MmapVecConfig::read_only(), 2 => MmapVecConfig::large_dataset(), 3 => MmapVecConfig::persistent_cache(),
        4 => MmapVecConfig::performance_optimized(), 5 => MmapVecConfig::memory_optimized(), 6 => MmapVecConfig::realtime(),
        7 => MmapVecConfig::builder().with_initial_capacity(5).with_growth_factor(1.25).with_read_only(false).with_populate_pages(true)
                .with_huge_pages(false).with_sync_on_write(true).build(),
        8 => zipora::memory::MmapVecConfigBuilder::new().with_read_only(true).build(),
        _ => MmapVecConfig::default(),
    }
}

const READ_LIMIT: usize = 400_000;

fn mv_read<T: El>(path: &str, cfg: u64) -> Value {
    match MmapVec::<T>::open(path, mv_preset(cfg)) {
        Err(e) => json!({"err": e.to_string()}),
        Ok(v) => {
            let n = v.len();
            let lim = n.min(READ_LIMIT);
            let mut elems: Vec<u64> = Vec::with_capacity(lim);
            for i in 0..lim {
                match v.get(i) { Some(x) => elems.push(x.to()), None => return json!({"bad": format!("get({}) = None although len = {}", i, n)}) }
            }
            if n > lim { for i in [n - 1, n / 2, lim + (n - lim) / 3] { if v.get(i).is_none() { return json!({"bad": "get inside len = None"}); } } }
            if v.get(n).is_some() { return json!({"bad": "get(len) is Some"}); }
            let s = v.as_slice();
            if s.len() != n { return json!({"bad": "as_slice length differs from len"}); }
            for i in 0..lim { if s[i].to() != elems[i] { return json!({"bad": "as_slice differs from get"}); } }
            if n <= lim {
                let it = (&v).into_iter();
                if it.len() != n || it.size_hint() != (n, Some(n)) { return json!({"bad": "iterator length differs from len"}); }
                let mut k = 0usize;
                for x in &v { if k >= n || x.to() != elems[k] { return json!({"bad": "iterator differs from get"}); } k += 1; }
                if k != n { return json!({"bad": "iterator count differs from len"}); }
            }
            if v.is_empty() != (n == 0) { return json!({"bad": "is_empty disagrees with len"}); }
            let st = v.stats();
            if st.len != n || st.capacity != v.capacity() || st.element_size != T::ES { return json!({"bad": "stats() disagrees with len/capacity/element size"}); }
            if n > v.capacity() { return json!({"bad": "len exceeds capacity"}); }
            json!({"ok": {"len": n, "elems": elems}, "cap": v.capacity()})
        }
    }
}
fn hex(b: &[u8]) -> String { let mut s = String::with_capacity(b.len() * 2); for x in b { s.push_str(&format!("{:02x}", x)); } s }
fn unhex(s: &str) -> Vec<u8> { (0..s.len() / 2).map(|i| u8::from_str_radix(&s[2 * i..2 * i + 2], 16).unwrap_or(0)).collect() }

/// the content of a raw byte stream: spelled out, or (large files) by length, digest and both ends
fn mmio_state(b: &[u8]) -> Value {
    if b.len() <= 20000 { json!({"bytes": hex(b)}) }
    else { json!({"n": b.len(), "digest": format!("{:016x}", fnv64(b, 0xcbf29ce484222325)), "head": hex(&b[..16]), "tail": hex(&b[b.len() - 16..])}) }
}
/// the other entry points of MemoryMappedInput on a file whose bytes `all` were just read through read_slice: every one of
/// them must present the same bytes (or, where a strategy does not offer it, refuse) and refuse anything past the end
fn mmio_read_wide(path: &str, inp: &mut MemoryMappedInput, all: &[u8]) -> Option<String> {
    use zipora::io::{AccessPattern, InputStrategy};
    use zipora::DataInput;
    let n = all.len();
    let buffered = inp.strategy() == InputStrategy::BufferedIO;
    if inp.position() != n || inp.remaining() != 0 || inp.is_empty() != (n == 0) { return Some("position()/remaining()/is_empty() after reading everything".into()); }
    if inp.seek(n + 1).is_ok() { return Some("seek past the end succeeded".into()); }
    if inp.skip(usize::MAX).is_ok() || inp.skip(1).is_ok() { return Some("skip past the end succeeded".into()); }
    // typed little-endian reads from the start
    if inp.seek(0).is_err() || inp.position() != 0 { return Some("seek(0) failed".into()); }
    let mut p = 0usize; let mut k = 0usize;
    while n - p >= 8 && k < 400 {
        let (got, w): (Option<u64>, usize) = match k % 5 {
            0 => (inp.read_u8().ok().map(|x| x as u64), 1), 1 => (inp.read_u16().ok().map(|x| x as u64), 2), 2 => (inp.read_u32().ok().map(|x| x as u64), 4),
            3 => (inp.read_u64().ok(), 8),
            _ => { let mut b = [0u8; 5]; (inp.read_bytes(&mut b).ok().map(|_| { let mut x = [0u8; 8]; x[..5].copy_from_slice(&b); u64::from_le_bytes(x) }), 5) } };
        let mut x = [0u8; 8]; x[..w].copy_from_slice(&all[p..p + w]);
        if got != Some(u64::from_le_bytes(x)) { return Some(format!("typed read of {} bytes at {} differs from the bytes of the file", w, p)); }
        p += w; k += 1;
        if inp.position() != p || inp.remaining() != n - p { return Some("position() after a typed read".into()); }
        if k % 7 == 0 && n > 64 { let step = (n / 9).max(1); if inp.skip(step.min(n - p)).is_err() { return Some("skip inside the file failed".into()); } p += step.min(n - p); }
    }
    // seek / peek / zero-copy at a few places, the last byte and the end among them
    for &q in &[0usize, 1, n / 2, 4095, 4096, 4097, 65535, 65536, n.saturating_sub(9), n.saturating_sub(1), n] {
        if q > n { continue; }
        if inp.seek(q).is_err() || inp.position() != q { return Some(format!("seek({}) inside a file of {} bytes failed", q, n)); }
        let len = (n - q).min(100);
        match inp.peek_slice(len) { Ok(b) => if b != all[q..q + len] || inp.position() != q { return Some(format!("peek_slice at {} differs from the bytes of the file", q)); },
                                    Err(_) => if !buffered { return Some(format!("peek_slice inside the file failed at {}", q)); } }
        match inp.peek_slice_zero_copy(len) { Ok(b) => if b != &all[q..q + len] { return Some(format!("peek_slice_zero_copy at {} differs from the bytes of the file", q)); },
                                              Err(_) => if !buffered { return Some(format!("peek_slice_zero_copy inside the file failed at {}", q)); } }
        if inp.peek_slice(n - q + 1).is_ok() || inp.peek_slice_zero_copy(n - q + 1).is_ok() { return Some("peek past the end succeeded".into()); }
        match inp.read_slice_zero_copy(len) { Ok(b) => { if b != &all[q..q + len] { return Some(format!("read_slice_zero_copy at {} differs from the bytes of the file", q)); } if inp.position() != q + len { return Some("position() after read_slice_zero_copy".into()); } }
                                              Err(_) => { if !buffered { return Some(format!("read_slice_zero_copy inside the file failed at {}", q)); }
                                                          match inp.read_slice(len) { Ok(b) => if b != all[q..q + len] { return Some(format!("read_slice after seek({}) differs from the bytes of the file", q)); }, Err(e) => return Some(format!("read_slice after seek({}) failed: {}", q, e)) } } }
        if inp.read_slice_zero_copy(n - q - len + 1).is_ok() { return Some("read_slice_zero_copy past the end succeeded".into()); }
    }
    // every access pattern, from a path and from an open file
    for (i, pat) in [AccessPattern::Sequential, AccessPattern::Random, AccessPattern::Mixed, AccessPattern::Unknown].iter().enumerate() {
        let made = if i % 2 == 0 { MemoryMappedInput::from_path_with_pattern(path, *pat) } else { std::fs::File::open(path).map_err(|e| e.into()).and_then(|f| MemoryMappedInput::new_with_pattern(f, *pat)) };
        match made {
            Err(e) => return Some(format!("opening with access pattern {:?} failed: {}", pat, e)),
            Ok(mut o) => { if o.len() != n { return Some(format!("len() with access pattern {:?}", pat)); }
                           match o.read_slice(n) { Ok(b) => if b != all { return Some(format!("content with access pattern {:?} differs", pat)); }, Err(e) => return Some(format!("read with access pattern {:?} failed: {}", pat, e)) }
                           if o.read_slice(1).is_ok() { return Some("read past the end succeeded".into()); } }
        }
    }
    match std::fs::File::open(path).map_err(|e| e.into()).and_then(MemoryMappedInput::new) { Ok(o) => if o.len() != n { return Some("MemoryMappedInput::new: len()".into()); }, Err(e) => return Some(format!("MemoryMappedInput::new failed: {}", e)) }
    None
}

/// what a dictionary presents: its text, the pattern lengths it matches, and its answers to a fixed set of probes derived from
/// the text (substrings, substrings with the last byte changed, bytes that do not occur): the length of the longest match, the
/// depth of the two-level match, the number of occurrences reported.  A reported match must really occur at its position.
fn dict_state(d: &mut SuffixArrayDictionary) -> Result<Value, String> {
    let text = d.data().to_vec();
    if d.dictionary_text() != &text[..] || d.dictionary_size() != text.len() { return Err("dictionary_text()/dictionary_size() disagree with data()".into()); }
    if let Err(e) = d.validate() { return Err(format!("validate() of a dictionary that loaded: {}", e)); }
    let (minp, maxp) = (d.config().min_pattern_length, d.config().max_pattern_length);
    let mut probes: Vec<Vec<u8>> = vec![];
    if !text.is_empty() {
        for k in 0..8usize {
            let p = (k * 7919 + 3) % text.len();
            for l in [minp.max(1), 2 * minp + 3, 40] { let e = (p + l).min(text.len()); let mut q = text[p..e].to_vec(); probes.push(q.clone()); if k % 2 == 0 { if let Some(x) = q.last_mut() { *x ^= 0xFF; } probes.push(q); } }
        }
    }
    probes.push(vec![0xFE, 0xFD, 0xFC, 0xFB, 0xFA, 0xF9, 0xF8, 0xF7]); probes.push(vec![]);
    let mut out = vec![];
    for q in &probes {
        let m = d.find_longest_match(q, 0, 1000).map_err(|e| format!("find_longest_match failed: {}", e))?;
        let len = match m { None => 0usize, Some(m) => {
            if m.length > q.len() || m.dict_position + m.length > text.len() || text[m.dict_position..m.dict_position + m.length] != q[..m.length] { return Err(format!("find_longest_match reports {} bytes at dictionary position {} which are not there", m.length, m.dict_position)); }
            m.length } };
        let st = d.da_match_max_length(q);
        let all = d.find_all_matches(&q[..q.len().min(maxp)], 5).map_err(|e| format!("find_all_matches failed: {}", e))?;
        for m in &all { if m.dict_position + m.length > text.len() || m.length > q.len() || text[m.dict_position..m.dict_position + m.length] != q[..m.length] { return Err("find_all_matches reports a match that is not there".into()); } }
        // the suffix-array engine on its own: the same depth as the two-level match, the range of the first byte
        let n = d.data().len();
        let sa = d.sa_match_continuation(0, n, 0, q);
        if sa.depth > q.len() || sa.lo > sa.hi || sa.hi > n { return Err("sa_match_continuation leaves the suffix array".into()); }
        let first = q.first().map(|&b| { let (lo, hi) = d.sa_equal_range(0, n, 0, b); hi.saturating_sub(lo) }).unwrap_or(0);
        if first != text.iter().filter(|&&b| Some(&b) == q.first()).count() { return Err(format!("sa_equal_range counts {} occurrences of byte {:?}", first, q.first())); }
        out.push(json!([len, st.depth, all.len(), sa.depth, sa.match_count()]));
    }
    Ok(json!({"text": hex(&text), "min": minp, "max": maxp, "probes": out}))
}

fn read_state(req: &Value) -> Value {
    let path = req["path"].as_str().unwrap_or("");
    match req["cell"].as_str().unwrap_or("") {
        "mmapvec" => { let ty = ty_of(req); let cfg = req["cfg"].as_u64().unwrap_or(0); with_ty!(ty.as_str(), T, mv_read::<T>(path, cfg)) }
        "plain" => match PlainBlobStore::new(path) {
            Err(e) => json!({"err": e.to_string()}),
            Ok(st) => {
                let mut m = serde_json::Map::new();
                let ids: Vec<u32> = st.iter_ids().collect();
                if ids.len() != st.len() { return json!({"bad": "len differs from number of ids"}); }
                for id in ids {
                    match st.get(id) { Ok(d) => { m.insert(id.to_string(), json!(hex(&d))); }
                                       Err(e) => return json!({"bad": format!("listed id {} unreadable: {}", id, e)}) }
                    if !st.contains(id) { return json!({"bad": "listed id not contained"}); }
                    if st.size(id).ok().flatten() != st.get(id).ok().map(|d| d.len()) { return json!({"bad": "size differs from get"}); }
                }
                json!({"ok": {"records": Value::Object(m)}})
            }
        },
        "reorder" => match ZReorderMap::open(path) {
            Err(e) => json!({"err": e.to_string()}),
            Ok(mut m) => {
                let size = m.size();
                let digest = req["digest"].as_bool().unwrap_or(false);
                let lim = if digest { usize::MAX } else { READ_LIMIT };
                let mut vals: Vec<u64> = vec![];
                let mut h = 0xcbf29ce484222325u64; let mut count = 0usize;
                // iteration in lockstep with the cursor observers: index(), current(), eof(), the exact-size length
                while count < size.min(lim) {
                    if m.eof() { break; }
                    if m.index() != count { return json!({"bad": format!("index() = {} after {} values", m.index(), count)}); }
                    if m.len() != size - count || m.size_hint() != (size - count, Some(size - count)) { return json!({"bad": "len()/size_hint() differ from size() - index()"}); }
                    let cur = m.current();
                    match m.next() { Some(v) => { if v != cur { return json!({"bad": format!("current() = {} but next() = {}", cur, v)}); }
                                                  h = fnv64(&(v as u64).to_le_bytes(), h); count += 1; if !digest || count <= 8 || count + 8 > size { vals.push(v as u64); } }
                                     None => break }
                }
                if size > lim { return json!({"ok": {"size": size, "values": vals, "cut": true}}); }
                if count == size && !m.eof() { return json!({"bad": "not eof() after size() values"}); }
                if m.next().is_some() { return json!({"bad": "yields more than size() values"}); }
                // rewind: the same values again, also from the middle of a run
                let k = count.min(3000);
                for round in 0..2 {
                    if let Err(e) = m.rewind() { return json!({"bad": format!("rewind failed on a map that opened: {}", e)}); }
                    if m.size() != size { return json!({"bad": "size() changed after rewind"}); }
                    let mut h2 = 0xcbf29ce484222325u64; let mut c2 = 0usize;
                    let stop = if round == 0 { k / 2 } else { count };
                    while c2 < stop { match m.next() { Some(v) => { h2 = fnv64(&(v as u64).to_le_bytes(), h2); c2 += 1; } None => break } }
                    if c2 != stop || (round == 1 && h2 != h) { return json!({"bad": "after rewind() the map yields other values than before"}); }
                }
                if digest { return json!({"ok": {"size": size, "count": count, "digest": format!("{:016x}", h), "ends": vals}}); }
                if count < size { return json!({"ok": {"size": size, "values": vals}}); }
                json!({"ok": {"size": size, "values": vals}})
            }
        },
        "zipoffset" => match ZipOffsetBlobStore::load_from_file(path) {
            Err(e) => json!({"err": e.to_string()}),
            Ok(st) => {
                let n = st.len();
                let mut recs = vec![];
                for id in 0..n.min(READ_LIMIT) { match st.get(id as u32) { Ok(d) => recs.push(hex(&d)), Err(e) => return json!({"bad": format!("record {} of {} unreadable: {}", id, n, e)}) } }
                json!({"ok": {"records": recs}})
            }
        },
        "zipoffset_full" => match ZipOffsetBlobStore::load_from_file(path) {
            Err(e) => json!({"err": e.to_string()}),
            Ok(st) => {
                let n = st.len();
                let gets: Vec<Value> = (0..n.min(READ_LIMIT)).map(|id| match st.get(id as u32) { Ok(d) => json!(hex(&d)), Err(_) => Value::Null }).collect();
                json!({"ok": {"len": n, "gets": gets, "compress": st.config().compress_level}})
            }
        },
        "dict" => match SuffixArrayDictionary::load_from_file(path) {
            Err(e) => json!({"err": e.to_string()}),
            Ok(mut d) => match dict_state(&mut d) { Ok(st) => json!({"ok": st}), Err(b) => json!({"bad": b}) },
        },
        "mmio" => match MemoryMappedInput::from_path(path) {
            Err(e) => json!({"err": e.to_string()}),
            Ok(mut inp) => {
                let n = inp.len();
                let mut all = vec![];
                while all.len() < n {
                    let k = (n - all.len()).min(777);
                    match inp.read_slice(k) { Ok(b) => { if b.len() != k { return json!({"bad": "short read_slice"}); } all.extend_from_slice(&b) }, Err(e) => return json!({"bad": format!("read inside len failed: {}", e)}) }
                }
                if inp.read_slice(1).is_ok() { return json!({"bad": "read past the end succeeded"}); }
                if let Some(b) = mmio_read_wide(path, &mut inp, &all) { return json!({"bad": b}); }
                json!({"ok": mmio_state(&all)})
            }
        },
        // what DataOutput wrote, read back value by value through DataInput
        "mmio_typed" => match MemoryMappedInput::from_path(path) {
            Err(e) => json!({"err": e.to_string()}),
            Ok(mut inp) => {
                use zipora::DataInput;
                for (k, t) in req["typed"].as_array().cloned().unwrap_or_default().iter().enumerate() {
                    let v = t[1].as_u64().unwrap_or(0);
                    let ok = match t[0].as_str().unwrap_or("") {
                        "u8" => inp.read_u8().ok() == Some(v as u8), "u16" => inp.read_u16().ok() == Some(v as u16), "u32" => inp.read_u32().ok() == Some(v as u32),
                        "u64" => inp.read_u64().ok() == Some(v), "var" => inp.read_var_int().ok() == Some(v),
                        "str" => inp.read_length_prefixed_string().ok().as_deref() == t[1].as_str(),
                        "bytes" => { let want = unhex(t[1].as_str().unwrap_or("")); let mut buf = vec![0u8; want.len()]; inp.read_bytes(&mut buf).is_ok() && buf == want }
                        "skip" => inp.skip(v as usize).is_ok(),
                        _ => true,
                    };
                    if !ok { return json!({"bad": format!("value {} ({}) does not read back as it was written", k, t)}); }
                }
                if inp.remaining() != 0 || inp.read_u8().is_ok() { return json!({"bad": "bytes left after the last written value"}); }
                json!({"ok": true})
            }
        },
        other => wide::read_state_wide(req).unwrap_or_else(|| json!({"bad": format!("unknown cell {}", other)})),
    }
}

/// reader server: one request (JSON line) per image, each served by a forked worker
fn serve() {
    // initialise the library's lazy globals once, so that the forked workers do not each pay for it
    let _ = guarded(|| { for c in ["mmapvec", "reorder", "zipoffset", "dict", "mmio"] { let _ = read_state(&json!({"cell": c, "es": 8, "path": "/nonexistent/zv-c19-warmup"})); } });
    let stdin = std::io::stdin();
    let mut out = std::io::stdout();
    for line in stdin.lock().lines() {
        let line = match line { Ok(l) => l, Err(_) => break };
        if line.trim().is_empty() { continue; }
        let req: Value = serde_json::from_str(&line).unwrap_or(json!({}));
        let mut fds = [0i32; 2];
        unsafe { libc::pipe(fds.as_mut_ptr()); }
        let pid = unsafe { libc::fork() };
        if pid == 0 {
            unsafe {
                libc::close(fds[0]);
                libc::alarm(20);
                let lim = libc::rlimit { rlim_cur: 6 << 30, rlim_max: 6 << 30 };
                libc::setrlimit(libc::RLIMIT_AS, &lim);
                let core = libc::rlimit { rlim_cur: 0, rlim_max: 0 };
                libc::setrlimit(libc::RLIMIT_CORE, &core);
            }
            let res = match guarded(|| read_state(&req)) { Ok(v) => v, Err(p) => json!({"panic": p}) };
            let s = serde_json::to_string(&res).unwrap_or_else(|_| "{\"bad\":\"unprintable\"}".into());
            unsafe {
                let b = s.as_bytes();
                let mut o = 0;
                while o < b.len() { let w = libc::write(fds[1], b[o..].as_ptr() as *const _, b.len() - o); if w <= 0 { break; } o += w as usize; }
                libc::_exit(0);
            }
        }
        unsafe { libc::close(fds[1]); }
        let mut buf = vec![];
        let mut tmp = [0u8; 65536];
        loop { let n = unsafe { libc::read(fds[0], tmp.as_mut_ptr() as *mut _, tmp.len()) }; if n <= 0 { break; } buf.extend_from_slice(&tmp[..n as usize]); }
        unsafe { libc::close(fds[0]); }
        let mut status = 0i32;
        unsafe { libc::waitpid(pid, &mut status, 0); }
        let reply = if libc::WIFSIGNALED(status) {
            let sig = libc::WTERMSIG(status);
            serde_json::to_string(&json!({"fault": format!("signal {}{}", sig, if sig == libc::SIGALRM { " (timeout)" } else { "" })})).unwrap()
        } else if buf.is_empty() { "{\"fault\":\"worker exited without a result\"}".to_string() }
        else { String::from_utf8_lossy(&buf).to_string() };
        let _ = writeln!(out, "{}", reply);
        let _ = out.flush();
    }
}

struct Server { child: std::process::Child, inp: std::process::ChildStdin, out: BufReader<std::process::ChildStdout> }
impl Server {
    fn start(dir: &str) -> Server {
        let f = format!("{}/server.json", dir);
        std::fs::write(&f, "{\"case\": {\"c19_server\": true}}").unwrap();
        let mut child = std::process::Command::new(std::env::current_exe().unwrap())
            .args(["C19", "--replay", &f, "--out", &format!("{}/server_out", dir)])
            .stdin(std::process::Stdio::piped()).stdout(std::process::Stdio::piped()).spawn().expect("reader server");
        let inp = child.stdin.take().unwrap();
        let out = BufReader::new(child.stdout.take().unwrap());
        Server { child, inp, out }
    }
    fn ask(&mut self, req: &Value) -> Value {
        let _ = writeln!(self.inp, "{}", serde_json::to_string(req).unwrap());
        let _ = self.inp.flush();
        let mut line = String::new();
        loop {
            line.clear();
            match self.out.read_line(&mut line) { Ok(0) | Err(_) => return json!({"fault": "reader server died"}), Ok(_) => {} }
            if line.starts_with('{') { break; }   // zipora prints debug lines to stdout in places
        }
        serde_json::from_str(&line).unwrap_or(json!({"bad": "unparsable reply"}))
    }
}
impl Drop for Server { fn drop(&mut self) { let _ = self.child.kill(); let _ = self.child.wait(); } }

// =====================================================================================
// the check proper
// =====================================================================================
const HEADER: &str = r#"From ZV.Common Require Import Base Run.
From ZV.C19 Require Import Model ModelZo ModelPlainDir ModelMvOps ModelRoW ModelMvHist ModelCases.
Open Scope N_scope.
Definition case_t : Type := ModelCases.xcase.
Definition ok (c : case_t) : bool := ModelCases.xcase_ok c.
"#;

struct Ctx {
    sum: Summary, shards: CoqShards, budget: usize, srv: Server, root: String, seq: u64, thorough: bool,
    cache: HashMap<u64, Value>, images: u64, coq_seen: std::collections::HashSet<u64>, proto: usize, n_mv: usize, n_ro: usize,
    n_zo: usize, n_zosave: usize, n_row: usize, n_row_big: usize, n_plain: usize, n_mvops: usize, n_mmio: usize, n_units: usize,
}
fn dbg_case(cj: &Value) { if std::env::var("ZV_C19_DEBUG").is_ok() { let s = cj.to_string(); eprintln!("[{:?}] case {}", std::time::SystemTime::now().duration_since(std::time::UNIX_EPOCH).map(|d| d.as_millis() % 1000000).unwrap_or(0), &s[..s.len().min(400)]); } }
fn fnv64(b: &[u8], mut h: u64) -> u64 { for x in b { h ^= *x as u64; h = h.wrapping_mul(0x100000001b3); } h }

impl Ctx {
    /// Coq cases of the first generation (images, encodings, single-write protocol): they keep their own budget
    fn old_used(&self) -> usize { self.shards.len() - (self.n_zo + 2 * self.n_zosave + self.n_row + self.n_plain + self.n_mvops + self.n_mmio + self.n_units) }
    fn fresh_dir(&mut self, tag: &str) -> String {
        self.seq += 1;
        let d = format!("{}/{}{}", self.root, tag, self.seq);
        let _ = std::fs::remove_dir_all(&d);
        std::fs::create_dir_all(&d).unwrap();
        d
    }
    /// materialise a disk image and let the reader process open and read it
    fn observe(&mut self, cell: &str, extra: &Value, disk: &Disk, target: &str, dir_target: bool) -> Value {
        let mut h = fnv64(cell.as_bytes(), 0xcbf29ce484222325);
        h = fnv64(extra.to_string().as_bytes(), h);
        // a single-file reader only ever opens `target`: other files (temporaries) do not matter to what it sees
        let relevant = |p: &str| dir_target || p == target;
        for (p, b) in disk { if !relevant(p) { continue; } h = fnv64(p.as_bytes(), h); h = fnv64(&[0xff], h); h = fnv64(b, h); h = fnv64(&(b.len() as u64).to_le_bytes(), h); }
        if let Some(v) = self.cache.get(&h) { return v.clone(); }
        let d = self.fresh_dir("img");
        for (p, b) in disk {
            if !relevant(p) { continue; }
            let fp = format!("{}/{}", d, p);
            if let Some(par) = std::path::Path::new(&fp).parent() { let _ = std::fs::create_dir_all(par); }
            std::fs::write(&fp, b).unwrap();
        }
        let path = if dir_target { format!("{}/{}", d, target).trim_end_matches('/').to_string() } else { format!("{}/{}", d, target) };
        if dir_target { let _ = std::fs::create_dir_all(&path); }
        let mut req = extra.clone();
        req["cell"] = json!(cell);
        req["path"] = json!(path);
        let v = self.srv.ask(&req);
        let _ = std::fs::remove_dir_all(&d);
        self.images += 1;
        if self.cache.len() < 200_000 { self.cache.insert(h, v.clone()); }
        v
    }
}

/// verdict on one observed outcome; `allowed` are the logical states that existed not later than the crash
fn judge(out: &Value, allowed: &[Value], must_be: Option<&Value>) -> Result<(), String> {
    if let Some(f) = out.get("fault") { return Err(format!("reopen faulted: {}", f)); }
    if let Some(p) = out.get("panic") { return Err(format!("reopen panicked: {}", p)); }
    if let Some(b) = out.get("bad") { return Err(format!("reopened structure is inconsistent: {}", b)); }
    if out.get("err").is_some() {
        return if must_be.is_some() { Err(format!("reopen after a clean sync/finish failed: {}", out["err"])) } else { Ok(()) };
    }
    let st = &out["ok"];
    if let Some(m) = must_be { return if st == m { Ok(()) } else { Err(format!("reopened content differs from what was synced: got {} want {}", brief(st), brief(m))) }; }
    if allowed.iter().any(|a| a == st) { Ok(()) } else { Err(format!("reopened state never existed at an earlier point of the history: {}{}", brief(st), allowed.last().map(|a| diff_hint(st, a)).unwrap_or_default())) }
}
/// where a reopened state first differs from the latest allowed one (diagnostics only)
fn diff_hint(got: &Value, want: &Value) -> String {
    for key in ["values", "elems", "records"] {
        if let (Some(g), Some(w)) = (got.get(key).and_then(|x| x.as_array()), want.get(key).and_then(|x| x.as_array())) {
            let i = (0..g.len().min(w.len())).find(|&i| g[i] != w[i]).unwrap_or(g.len().min(w.len()));
            return format!(" [{}: {} entries, latest state has {}; first difference at index {}: {} vs {}]", key, g.len(), w.len(), i,
                           g.get(i).map(|x| brief(x)).unwrap_or("-".into()), w.get(i).map(|x| brief(x)).unwrap_or("-".into()));
        }
    }
    String::new()
}
fn brief(v: &Value) -> String { let s = v.to_string(); if s.len() > 300 { format!("{}...", &s[..300]) } else { s } }

/// Shared driver: `states[i]` = logical state after history op i, `marks[i]` = trace length after op i.
/// Judges all crash images of the trace and all truncations of the final files.
#[allow(clippy::too_many_arguments)]
fn judge_trace(cx: &mut Ctx, cell: &str, rkey: &str, class_of: &dyn Fn(&Value, &str, &str) -> Option<&'static str>, cj: &Value, extra: &Value, target: &str, dir_target: bool,
               ops: &[Op], marks: &[usize], states: &[Value], final_must: Option<&Value>, byte_marks: &[usize], r: &mut Rng, exhaustive: bool,
               img_state: Option<&dyn Fn(&Disk) -> Vec<Value>>) -> Option<Disk> {
    judge_trace_from(cx, &Disk::new(), cell, rkey, class_of, cj, extra, target, dir_target, ops, marks, states, final_must, byte_marks, r, exhaustive, img_state)
}
/// the same, over files that exist before the traced history starts (`init`)
#[allow(clippy::too_many_arguments)]
fn judge_trace_from(cx: &mut Ctx, init: &Disk, cell: &str, rkey: &str, class_of: &dyn Fn(&Value, &str, &str) -> Option<&'static str>, cj: &Value, extra: &Value, target: &str, dir_target: bool,
               ops: &[Op], marks: &[usize], states: &[Value], final_must: Option<&Value>, byte_marks: &[usize], r: &mut Rng, exhaustive: bool,
               img_state: Option<&dyn Fn(&Disk) -> Vec<Value>>) -> Option<Disk> {
    let init = init.clone();
    let mut fin = init.clone();
    for op in ops { apply(&mut fin, op); }
    let extra_pts = if cx.thorough { 24 } else { 6 };
    let imgs = crash_images(&init, ops, byte_marks, r, exhaustive, extra_pts);
    cx.sum.dist_max("max_trace_ops", ops.len() as u64);
    if std::env::var("ZV_C19_DEBUG").is_ok() { eprintln!("trace: {}", serde_json::to_string(&ops.iter().map(op_brief).collect::<Vec<_>>()).unwrap_or_default()); }
    for im in imgs {
        // history op in progress at the crash
        let i = marks.iter().position(|&m| if im.torn { m > im.when } else { m >= im.when }).unwrap_or(marks.len().saturating_sub(1));
        let own: Vec<Value> = img_state.map(|f| f(&im.disk)).unwrap_or_default();
        let allowed: &[Value] = if img_state.is_some() { &own } else { &states[..(i + 1).min(states.len())] };
        let out = cx.observe(rkey, extra, &im.disk, target, dir_target);
        cx.sum.dist(&format!("images_{}", im.kind.split(':').next().unwrap_or("")));
        cx.sum.dist(if out.get("ok").is_some() { "reopen_ok" } else if out.get("err").is_some() { "reopen_err" } else { "reopen_other" });
        if let Err(why) = judge(&out, allowed, None) {
            let class = class_of(&out, &im.kind, &why);
            let mut c = cj.clone();
            c["image"] = json!(im.kind);
            cx.sum.fail(cell, class, c, &format!("crash image {} (history op {}): {}", im.kind, i, why));
            if class.is_none() { return Some(fin); }
        }
    }
    // the finished file(s): clean reopen, then every truncation
    let out = cx.observe(rkey, extra, &fin, target, dir_target);
    if let Err(why) = judge(&out, states, final_must) {
        let class = class_of(&out, "clean", &why);
        let mut c = cj.clone();
        c["image"] = json!("clean");
        cx.sum.fail(cell, class, c, &format!("clean reopen: {}", why));
        if class.is_none() { return Some(fin); }
    }
    let names: Vec<String> = fin.keys().cloned().collect();
    for p in names {
        let full = fin[&p].clone();
        let cuts = if dir_target && !exhaustive { let n = full.len(); let mut c = vec![0, 1, n / 2, n.saturating_sub(1), 4095, 4096]; c.retain(|&x| x < n); c.sort_unstable(); c.dedup(); c }
                   else { cut_points(full.len(), 0, byte_marks, r, exhaustive, extra_pts) };
        for t in cuts {
            let mut d = fin.clone();
            d.insert(p.clone(), full[..t].to_vec());
            let out = cx.observe(rkey, extra, &d, target, dir_target);
            cx.sum.dist("images_truncate");
            let own: Vec<Value> = img_state.map(|f| f(&d)).unwrap_or_default();
            if let Err(why) = judge(&out, if img_state.is_some() { &own } else { states }, None) {
                let kind = format!("truncate:{}@{}", p, t);
                let class = class_of(&out, &kind, &why);
                let mut c = cj.clone();
                c["image"] = json!(kind);
                cx.sum.fail(cell, class, c, &format!("file {} ({} bytes) cut to {} bytes: {}", p, full.len(), t, why));
                if class.is_none() { return Some(fin); }
            }
        }
    }
    Some(fin)
}

/// checks that the tracer saw everything: the simulated disk equals the real directory
fn tracer_in_sync(dir: &str, sim: &Disk) -> Result<(), String> {
    fn walk(base: &str, rel: &str, out: &mut Disk) {
        if let Ok(rd) = std::fs::read_dir(format!("{}/{}", base, rel)) {
            for e in rd.flatten() {
                let name = e.file_name().to_string_lossy().to_string();
                let r = if rel.is_empty() { name } else { format!("{}/{}", rel, name) };
                if e.path().is_dir() { walk(base, &r, out); } else { out.insert(r, std::fs::read(e.path()).unwrap_or_default()); }
            }
        }
    }
    let mut real = Disk::new();
    walk(dir, "", &mut real);
    if &real == sim { return Ok(()); }
    let mut why = String::new();
    for (p, b) in &real { match sim.get(p) { None => why.push_str(&format!(" [{} missing in trace]", p)), Some(s) if s != b => why.push_str(&format!(" [{}: real {} bytes, traced {} bytes{}]", p, b.len(), s.len(), if s.len() == b.len() { ", content differs" } else { "" })), _ => {} } }
    for p in sim.keys() { if !real.contains_key(p) { why.push_str(&format!(" [{} only in trace]", p)); } }
    Err(why)
}

/// a traced operation as a Coq `fop`, the file `main` numbered 1 and every other file 2
fn fop_term(op: &Op, main: &str) -> String {
    let num = |p: &str| if p == main { 1 } else { 2 };
    match op {
        Op::Open { p, creat, trunc } => format!("FOpen {} {} {}", num(p), coq_bool(*creat), coq_bool(*trunc)),
        Op::SetLen { p, n } => format!("FSetLen {} {}", num(p), n),
        Op::Write { p, off, data } => format!("FWrite {} {} {}", num(p), off, coq_bytes(data)),
        Op::Fsync { p } => format!("FFsync {}", num(p)),
        Op::Rename { a, b } => format!("FRename {} {}", num(a), num(b)),
        Op::Unlink { p } => format!("FUnlink {}", num(p)),
    }
}
fn coq_bytes_list(xs: &[Vec<u8>]) -> String { format!("[{}]", xs.iter().map(|b| coq_bytes(b)).collect::<Vec<_>>().join("; ")) }

/// Correspondence of the write protocol: the traced operations of one sync()/put()/save, with the target file
/// numbered 1 and the temporary file 2 and the writes that build the temporary file merged into one, must be the
/// modelled atomic-replace sequence.  Anything of another shape is emitted as traced.
fn protocol_case(cx: &mut Ctx, seg: &[Op], main: &str, what: &str) {
    if cx.proto >= 160 || cx.old_used() >= cx.budget { return; }
    let mut d = Disk::new();
    for op in seg { apply(&mut d, op); }
    let img = match d.get(main) { Some(b) if b.len() <= 1400 => b.clone(), _ => return };
    let num = |p: &str| if p == main { 1 } else { 2 };
    let term = |op: &Op| -> String { match op {
        Op::Open { p, creat, trunc } => format!("FOpen {} {} {}", num(p), coq_bool(*creat), coq_bool(*trunc)),
        Op::SetLen { p, n } => format!("FSetLen {} {}", num(p), n),
        Op::Write { p, off, data } => format!("FWrite {} {} {}", num(p), off, coq_bytes(data)),
        Op::Fsync { p } => format!("FFsync {}", num(p)),
        Op::Rename { a, b } => format!("FRename {} {}", num(a), num(b)),
        Op::Unlink { p } => format!("FUnlink {}", num(p)),
    } };
    // shape: open(tmp, create+truncate); writes/set_len/fsync on tmp only; fsync(tmp); rename(tmp, main)
    let n = seg.len();
    let mut terms: Vec<String> = vec![];
    let shaped = n >= 3 && matches!(&seg[0], Op::Open { p, creat: true, trunc: true } if p != main)
        && matches!((&seg[n - 2], &seg[n - 1]), (Op::Fsync { p }, Op::Rename { a, b }) if p == a && b == main && a == op_path(&seg[0]))
        && seg[1..n - 2].iter().all(|o| matches!(o, Op::Write { .. } | Op::SetLen { .. } | Op::Fsync { .. }) && op_path(o) == op_path(&seg[0]));
    if shaped {
        let tmp = op_path(&seg[0]).to_string();
        let mut t = Disk::new();
        for op in &seg[..n - 2] { apply(&mut t, op); }
        let content = t.get(&tmp).cloned().unwrap_or_default();
        terms.push(term(&seg[0]));
        terms.push(term(&Op::Write { p: tmp.clone(), off: 0, data: content }));
        terms.push(term(&seg[n - 2])); terms.push(term(&seg[n - 1]));
    } else { for op in seg { terms.push(term(op)); } }
    let mut h = fnv64(what.as_bytes(), 0x99);
    for t in &terms { h = fnv64(t.as_bytes(), h); }
    if !cx.coq_seen.insert(h) { return; }
    cx.proto += 1;
    cx.shards.push(format!("(XOld (COps [{}] {}))", terms.join("; "), coq_bytes(&img)), json!({"cell": "protocol", "what": what, "ops": seg.iter().map(op_brief).collect::<Vec<_>>()}));
}

// ------------------------------------------------------------------ MmapVec
// op codes: 0 push v | 1 pop | 2 set i v | 3 truncate n | 4 clear | 5 reserve n | 6 shrink_to_fit | 7 resize n v
//           8 extend count start | 9 push_bulk count start | 10 sync | 11 sync, drop, open again
//           12 copy_from_simd count start (the source vector holds start, start+1, ... and lives outside the traced directory)
// oracle breadth (not known to the Coq state machine; histories containing them are left out of the XMvOps comparison):
//           13 pop_bulk_simd count | 14 fill_range_simd start end v | 15 compare_range_simd start end perturb (observer)
//           16 as_mut_slice: every stride-th element := v + index | 17 sync, drop, open with configuration preset k (mv_preset)
//           18 observers: iterator, stats, memory_usage, path | 19 copy_from_simd count start from a with_capacity_simd source
fn mv_state(sh: &[u64]) -> Value { json!({"len": sh.len(), "elems": sh}) }
fn mv_modelled(ops: &[Vec<u64>]) -> bool { ops.iter().all(|o| o.first().copied().unwrap_or(99) <= 12) }

fn mv_case<T: El>(cx: &mut Ctx, ic: usize, growth: f64, sow: bool, ops: &[Vec<u64>], exhaustive: bool, preset: u64) {
    let cell = if matches!(T::NAME, "u8" | "u16" | "u32" | "u64") { format!("MmapVec<u{}>", T::ES * 8) } else { format!("MmapVec<{}>", T::NAME) };
    let mut cj = json!({"cell": "mmapvec", "es": T::ES, "ic": ic, "growth": growth, "sync_on_write": sow, "ops": ops, "exhaustive": exhaustive});
    if !(matches!(T::NAME, "u8" | "u16" | "u32" | "u64")) { cj["ty"] = json!(T::NAME); }
    if preset != 0 { cj["preset"] = json!(preset); }
    dbg_case(&cj);
    cx.sum.eval(&cell, &cj.to_string(), ops.len() >= 3);
    let mut r = Rng::new(fnv64(cj.to_string().as_bytes(), 7));
    let dir = cx.fresh_dir("mv");
    let path = format!("{}/v.bin", dir);
    let src_path = format!("{}/mvsrc{}.bin", cx.root, cx.seq);
    // the configuration the file is created with: the case's own, or a preset (its capacity, growth and sync_on_write)
    let mk = || { if preset != 0 { mv_preset(preset) } else { let mut c = MmapVecConfig::default(); c.initial_capacity = ic; c.growth_factor = growth; c.sync_on_write = sow; c } };
    let (mut growth, mut sow, mut ro) = { let c = mk(); (c.growth_factor, c.sync_on_write, c.read_only) };
    let modelled = preset == 0 && mv_modelled(ops);
    let mask: u64 = T::MASK;
    let mut shadow: Vec<u64> = vec![];
    let mut states: Vec<Value> = vec![];
    let mut marks: Vec<usize> = vec![];
    let mut last_sync: Option<usize> = None;
    let mut problem: Option<String> = None;
    let mut sync_segs: Vec<(usize, usize)> = vec![];
    let mut obs: Vec<[u64; 3]> = vec![];          // len, capacity, file length after each operation
    let mut gtab: Vec<(u64, u64)> = vec![];       // capacity at the start of an operation -> (capacity as f64 * growth) as usize
    trace::start(&dir);
    let res = guarded(|| {
        let mut v = match MmapVec::<T>::create(&path, mk()) { Ok(v) => v, Err(e) => { problem = Some(format!("create failed: {}", e)); return; } };
        states.push(mv_state(&shadow)); marks.push(trace::len());
        for (k, op) in ops.iter().enumerate() {
            let a = op.get(1).copied().unwrap_or(0);
            let b = op.get(2).copied().unwrap_or(0);
            let c3 = op.get(3).copied().unwrap_or(0);
            { let c = v.capacity() as u64; if !gtab.iter().any(|g| g.0 == c) { gtab.push((c, (c as f64 * growth) as usize as u64)); } }
            let code = op.first().copied().unwrap_or(99);
            // a vector opened read-only must leave its content alone whatever is asked of it: the request is made, its answer
            // is not judged (refusing is the expected one), the shadow stays as it is
            let frozen = ro && !matches!(code, 10 | 11 | 15 | 17 | 18);
            let before_frozen = if frozen { Some(shadow.clone()) } else { None };
            let rr: Result<(), String> = match code {
                0 => v.push(T::from(a)).map(|_| shadow.push(a & mask)).map_err(|e| e.to_string()),
                1 => { let g = v.pop().map(|x| x.to()); let w = if frozen { None } else { shadow.pop() }; if g == w { Ok(()) } else { Err(format!("pop = {:?}, a Vec gives {:?}", g, w)) } }
                2 => { let i = a as usize; match v.get_mut(i) { Some(x) => { if i < shadow.len() { *x = T::from(b); shadow[i] = b & mask; Ok(()) } else { Err("get_mut past len is Some".into()) } }
                                                                 None => if i < shadow.len() && !frozen { Err("get_mut inside len is None".into()) } else { Ok(()) } } }
                3 => v.truncate(a as usize).map(|_| if (a as usize) < shadow.len() { shadow.truncate(a as usize) }).map_err(|e| e.to_string()),
                4 => v.clear().map(|_| shadow.clear()).map_err(|e| e.to_string()),
                5 => v.reserve(a as usize).map_err(|e| e.to_string()),
                6 => v.shrink_to_fit().map_err(|e| e.to_string()),
                7 => v.resize(a as usize, T::from(b)).map(|_| shadow.resize(a as usize, b & mask)).map_err(|e| e.to_string()),
                8 => { let it: Vec<T> = (0..a).map(|i| T::from(b.wrapping_add(i))).collect();
                       // extend is a sequence of pushes: with sync_on_write every one of them is a sync point
                       let before = marks.last().copied().unwrap_or(0);
                       v.extend(it).map(|_| for i in 0..a { shadow.push(b.wrapping_add(i) & mask); if sow && i + 1 < a { states.push(mv_state(&shadow)); marks.push(before); } }).map_err(|e| e.to_string()) }
                9 => { let it: Vec<T> = (0..a).map(|i| T::from(b.wrapping_add(i))).collect(); v.push_bulk_simd(&it).map(|_| for i in 0..a { shadow.push(b.wrapping_add(i) & mask) }).map_err(|e| e.to_string()) }
                10 => { last_sync = Some(states.len()); let t0 = trace::len(); let r = v.sync().map_err(|e| e.to_string()); sync_segs.push((t0, trace::len())); r }
                11 | 17 => { last_sync = Some(states.len());
                        let cfg = if code == 17 { mv_preset(a) } else { mk() };
                        match v.sync() { Err(e) => Err(e.to_string()), Ok(()) => { drop(v); match MmapVec::<T>::open(&path, cfg.clone()) {
                            Ok(nv) => { v = nv; if code == 17 { growth = cfg.growth_factor; sow = cfg.sync_on_write; ro = cfg.read_only; } Ok(()) }
                            Err(e) => { problem = Some(format!("op {}: open after sync failed: {}", k, e)); return; } } } } }
                12 | 19 => { let it: Vec<T> = (0..a).map(|i| T::from(b.wrapping_add(i))).collect();
                        let made = if code == 12 { let mut sc = MmapVecConfig::default(); sc.initial_capacity = (a as usize).max(1); MmapVec::<T>::create(&src_path, sc).and_then(|mut src| { src.extend(it)?; Ok(src) }) }
                                   else { MmapVec::<T>::with_capacity_simd(a as usize).and_then(|mut src| { src.push_bulk_simd(&it)?; Ok(src) }) };
                        let r = made.and_then(|src| {
                            if src.len() != a as usize || src.as_slice().iter().zip(0..a).any(|(x, i)| x.to() != b.wrapping_add(i) & mask) { return Err(zipora::ZiporaError::invalid_data("the source vector does not hold what was put into it")); }
                            v.copy_from_simd(&src) }).map_err(|e| e.to_string());
                        let _ = std::fs::remove_file(&src_path);
                        r.map(|_| { shadow.clear(); for i in 0..a { shadow.push(b.wrapping_add(i) & mask) } }) }
                13 => { let n = a as usize;
                        match v.pop_bulk_simd(n) {
                            Ok(got) => { if frozen { if got.is_empty() { Ok(()) } else { Err("pop_bulk_simd on a read-only vector returned elements".into()) } }
                                         else if n > shadow.len() { Err(format!("pop_bulk_simd({}) of {} elements succeeded", n, shadow.len())) }
                                         else { let want = shadow.split_off(shadow.len() - n); if got.iter().map(|x| x.to()).collect::<Vec<_>>() == want { Ok(()) } else { Err("pop_bulk_simd returned other elements than the last ones, in order".into()) } } }
                            Err(e) => if n > shadow.len() || frozen { Ok(()) } else { Err(e.to_string()) } } }
                14 => { let (s0, e0) = (a as usize, b as usize);
                        match v.fill_range_simd(s0..e0, T::from(c3)) {
                            Ok(()) => { if e0 > shadow.len() { Err(format!("fill_range_simd({}..{}) past len {} succeeded", s0, e0, shadow.len())) } else { for i in s0..e0 { shadow[i] = c3 & mask; } Ok(()) } }
                            Err(e) => if e0 > shadow.len() || frozen { Ok(()) } else { Err(e.to_string()) } } }
                15 => { let (s0, e0) = (a as usize, (b as usize).min(shadow.len())); let s0 = s0.min(e0);
                        // the range of the shadow, optionally with one element changed, in a vector of its own
                        let mut want: Vec<u64> = shadow[s0..e0].to_vec();
                        let perturbed = (c3 as usize) < want.len();
                        if perturbed { let i = c3 as usize; want[i] = (want[i] ^ 1) & mask; }
                        let differs = perturbed && T::ES > 0;
                        let mut sc = MmapVecConfig::default(); sc.initial_capacity = want.len().max(1);
                        let r = MmapVec::<T>::create(&src_path, sc).and_then(|mut o| { o.push_bulk_simd(&want.iter().map(|&x| T::from(x)).collect::<Vec<T>>())?; v.compare_range_simd(s0..e0, &o) }).map_err(|e| e.to_string());
                        let _ = std::fs::remove_file(&src_path);
                        match r { Ok(eq) => if eq == !differs { Ok(()) } else { Err(format!("compare_range_simd({}..{}) = {} against a vector that {} the range", s0, e0, eq, if differs { "differs from" } else { "equals" })) }, Err(e) => Err(e) } }
                16 => { let stride = (a as usize).max(1); let sl = v.as_mut_slice();
                        if sl.len() != shadow.len() && !frozen { Err(format!("as_mut_slice has {} elements, len is {}", sl.len(), shadow.len())) }
                        else { let mut i = 0; while i < sl.len() { sl[i] = T::from(b.wrapping_add(i as u64)); if !frozen { shadow[i] = b.wrapping_add(i as u64) & mask; } i += stride; } Ok(()) } }
                18 => { let got: Vec<u64> = (&v).into_iter().map(|x| x.to()).collect(); let st = v.stats();
                        if got != shadow { Err("the iterator yields other elements than the vector holds".into()) }
                        else if (&v).into_iter().len() != shadow.len() { Err("ExactSizeIterator::len differs from len".into()) }
                        else if st.len != shadow.len() || st.capacity != v.capacity() || st.read_only != ro { Err("stats() disagrees with the vector".into()) }
                        else if v.memory_usage() != 80 + v.capacity() * T::ES || v.path() != std::path::Path::new(&path) { Err("memory_usage()/path() disagree with the vector".into()) }
                        else if v.is_empty() != shadow.is_empty() { Err("is_empty disagrees with len".into()) }
                        else if st.wasted_space() != (v.capacity() - shadow.len()) * T::ES || st.needs_compaction(2.0) != (v.capacity() > 0 || shadow.is_empty()) || (st.memory_efficiency() - st.utilization * 100.0).abs() > 1e-9 { Err("wasted_space()/needs_compaction()/memory_efficiency() disagree with len and capacity".into()) }
                        else { Ok(()) } }
                _ => Ok(()),
            };
            if let Some(keep) = before_frozen {
                // whatever the read-only vector answered, it must still hold what it held
                shadow = keep;
            } else if let Err(e) = rr { problem = Some(format!("op {} {:?} failed: {}", k, op, e)); return; }
            if v.len() != shadow.len() { problem = Some(format!("op {} {:?}: len {} but a Vec holds {}", k, op, v.len(), shadow.len())); return; }
            if let Some(&w) = shadow.last() { if v.get(shadow.len() - 1).map(|x| x.to()) != Some(w) { problem = Some(format!("op {} {:?}: last element differs in the live vector", k, op)); return; } }
            if matches!(code, 13 | 14 | 16 | 19) || frozen { if v.as_slice().iter().map(|x| x.to()).ne(shadow.iter().copied()) { problem = Some(format!("op {} {:?}: the live vector differs from a Vec after the same operations", k, op)); return; } }
            // under sync_on_write every operation that changes the content syncs it ("sync changes to disk immediately"); only what is
            // stored through get_mut / as_mut_slice references waits for the next sync
            if sow && !frozen && matches!(code, 0 | 1 | 3 | 4 | 7 | 8 | 9 | 12 | 13 | 14 | 19) && states.last() != Some(&mv_state(&shadow)) { last_sync = Some(states.len()); }
            states.push(mv_state(&shadow)); marks.push(trace::len());
            obs.push([v.len() as u64, v.capacity() as u64, std::fs::metadata(&path).map(|m| m.len()).unwrap_or(u64::MAX)]);
        }
        drop(v);
    });
    let tr = trace::stop();
    if let Err(p) = res { problem = Some(format!("writer panicked: {}", p)); }
    if let Some(p) = problem {
        cx.sum.fail(&cell, None, cj.clone(), &p);
        let _ = std::fs::remove_dir_all(&dir);
        return;
    }
    // the final clean-reopen expectation: exactly a state at or after the last explicit sync
    let extra = if matches!(T::NAME, "u8" | "u16" | "u32" | "u64") { json!({"es": T::ES}) } else { json!({"es": T::ES, "ty": T::NAME}) };
    let es = T::ES;
    let mut bm: Vec<usize> = vec![80];
    for st in states.iter().rev().take(3) { let n = st["len"].as_u64().unwrap_or(0) as usize; bm.push(80 + n * es); bm.push(80 + n.saturating_sub(1) * es); }
    bm.push(65536); bm.push(65536 + 80);
    let mut sim = Disk::new();
    for op in &tr { apply(&mut sim, op); }
    if let Err(w) = tracer_in_sync(&dir, &sim) { panic!("C19 tracer out of sync with the file system:{}", w); }
    let none = |_: &Value, _: &str, _: &str| -> Option<&'static str> { None };
    let fin = judge_trace(cx, &cell, "mmapvec", &none, &cj, &extra, "v.bin", false, &tr, &marks, &states, None, &bm, &mut r, exhaustive, None);
    // clean reopen must show a state at or after the last explicit sync
    if let (Some(ls), Some(fin)) = (last_sync, fin.as_ref()) {
        let out = cx.observe("mmapvec", &extra, fin, "v.bin", false);
        let ok = out.get("ok").map(|st| states[ls..].iter().any(|a| a == st)).unwrap_or(false);
        if !ok {
            let mut c = cj.clone(); c["image"] = json!("clean");
            cx.sum.fail(&cell, None, c, &format!("reopen after sync: {} is not the content at the last sync (op {}) or later", brief(&out), ls));
        }
    }
    // whatever configuration the file is opened with (read-only, the presets, one built with the builder), it presents the same content
    if let Some(fin) = fin.as_ref() {
        let out0 = cx.observe("mmapvec", &extra, fin, "v.bin", false);
        for cfg in [1u64, 3, 7] {
            let mut e = extra.clone(); e["cfg"] = json!(cfg);
            let o = cx.observe("mmapvec", &e, fin, "v.bin", false);
            if o.get("ok") != out0.get("ok") || o.get("err").is_some() != out0.get("err").is_some() {
                let mut c = cj.clone(); c["image"] = json!("clean");
                cx.sum.fail(&cell, None, c, &format!("clean reopen with configuration preset {}: {} but with the default configuration {}", cfg, brief(&o), brief(&out0)));
                break;
            }
        }
    }
    for (a, b) in sync_segs { if b <= tr.len() && a < b { protocol_case(cx, &tr[a..b], "v.bin", "MmapVec::sync"); } }
    // the whole traced history = create, then syncs and resize_to_capacity units over well-formed images
    // (the decidable hypotheses of mv_traced_history_crash_safe)
    if matches!(es, 1 | 2 | 4 | 8) {
        let bytes: usize = tr.iter().map(|o| if let Op::Write { data, .. } = o { data.len() } else { 0 }).sum();
        if bytes <= 9000 && cx.n_units < if cx.thorough { 300 } else { 36 } && cx.coq_seen.insert(fnv64(cj.to_string().as_bytes(), 0x756e)) {
            cx.n_units += 1;
            let icap = mk().initial_capacity;
            cx.shards.push(format!("(XMvUnits {} {} [{}])", es, icap, tr.iter().map(|o| fop_term(o, "v.bin")).collect::<Vec<_>>().join("; ")),
                           cj.clone());
        }
    }
    // correspondence of the operation state machine: header fields and file length after every operation, the elements at the end
    if modelled && matches!(es, 1 | 2 | 4 | 8) {
        let vals = |count: u64, start: u64| -> String { coq_n_list((0..count).map(|i| (start.wrapping_add(i) & mask) as u128)) };
        let volume: u64 = ops.iter().map(|o| match o[0] { 8 | 9 | 12 => o[1], 7 => o[1], _ => 1 }).sum::<u64>() + shadow.len() as u64;
        if obs.len() == ops.len() && volume <= 700 && cx.n_mvops < if cx.thorough { 900 } else { 150 } && cx.coq_seen.insert(fnv64(cj.to_string().as_bytes(), 0x4d76)) {
            let terms: Vec<String> = ops.iter().map(|o| { let a = o.get(1).copied().unwrap_or(0); let b = o.get(2).copied().unwrap_or(0); match o[0] {
                0 => format!("OPush {}", a & mask), 1 => "OPop".into(), 2 => format!("OSet {} {}", a, b & mask), 3 => format!("OTruncate {}", a), 4 => "OClear".into(),
                5 => format!("OReserve {}", a), 6 => "OShrink".into(), 7 => format!("OResize {} {}", a, b & mask), 8 => format!("OExtend {} {}", a, vals(a, b)),
                9 => format!("OBulk {}", vals(a, b)), 10 => "OSync".into(), 11 => "OReopen".into(), 12 => format!("OCopyFrom {}", vals(a, b)), _ => "OSync".into() } }).collect();
            cx.n_mvops += 1;
            cx.shards.push(format!("(XMvOps {} {} {} [{}] [{}] [{}] {})", es, ic, coq_bool(sow),
                                   gtab.iter().map(|g| format!("({}, {})", g.0, g.1)).collect::<Vec<_>>().join("; "), terms.join("; "),
                                   obs.iter().map(|o| format!("[{}; {}; {}]", o[0], o[1], o[2])).collect::<Vec<_>>().join("; "),
                                   coq_n_list(shadow.iter().map(|&x| x as u128))),
                           cj.clone());
        }
    }
    // correspondence cases: small final images and a few damaged ones, with what the real reader saw
    if let (Some(fin), true) = (fin, matches!(es, 1 | 2 | 4 | 8)) {
        if let Some(f) = fin.get("v.bin") {
            let mut imgs: Vec<Vec<u8>> = vec![f.clone()];
            for t in [f.len() / 2, 80 + shadow.len() * es, f.len().saturating_sub(1), 79, 80] { if t < f.len() { imgs.push(f[..t].to_vec()); } }
            let mut g = f.clone(); if g.len() > 40 { let i = 8 + r.below(32) as usize; g[i] ^= 1 << r.below(8); imgs.push(g); }
            for im in imgs { mv_coq_case(cx, es, &im); }
        }
    }
    let _ = std::fs::remove_dir_all(&dir);
}

fn mv_coq_case(cx: &mut Ctx, es: usize, img: &[u8]) {
    if img.len() > 1400 || cx.old_used() >= cx.budget || cx.n_mv * 2 >= cx.budget { return; }
    let h = fnv64(img, es as u64);
    if !cx.coq_seen.insert(h) { return; }
    cx.n_mv += 1;
    let mut d = Disk::new(); d.insert("v.bin".into(), img.to_vec());
    let out = cx.observe("mmapvec", &json!({"es": es}), &d, "v.bin", false);
    let expect: Vec<i128> = if let Some(st) = out.get("ok") {
        let mut v = vec![st["len"].as_u64().unwrap_or(0) as i128];
        for e in st["elems"].as_array().unwrap() { v.push(e.as_u64().unwrap() as i128); }
        v
    } else if out.get("err").is_some() { vec![-1] } else { vec![-2] };
    cx.shards.push(format!("(XOld (CMv {} {} {}))", es, coq_bytes(img), coq_z_list(expect)), json!({"cell": "mmapvec_image", "es": es, "image": hex(img)}));
}

fn gen_mv(r: &mut Rng, big: bool) -> (usize, usize, f64, bool, Vec<Vec<u64>>) {
    let es = *r.pick(&[1usize, 2, 4, 8, 8, 8]);
    let ic = if big { *r.pick(&[3000usize, 8190, 8192, 9000]) } else { *r.pick(&[0usize, 1, 2, 3, 7, 8, 16, 63, 64, 100, 130, 500, 504, 505, 511, 512, 513]) };
    let growth = *r.pick(&[1.0f64, 1.1, 1.5, 1.618, 2.0]);
    let sow = r.chance(1, 4);
    let n = r.range(2, if sow { 8 } else { 14 });
    let mut ops: Vec<Vec<u64>> = vec![];
    let mut len: u64 = 0;
    let val = |r: &mut Rng| -> u64 { match r.below(4) { 0 => r.next(), 1 => u64::MAX, _ => 1 + r.below(250) } };
    for _ in 0..n {
        match r.below(20) {
            0..=5 => { ops.push(vec![0, val(r)]); len += 1; }
            6 => { ops.push(vec![1]); len = len.saturating_sub(1); }
            7..=8 => { let i = if len > 0 && r.chance(5, 6) { r.below(len) } else { len + r.below(2) }; ops.push(vec![2, i, val(r)]); }
            9 => { let k = if r.chance(1, 2) { r.below(len + 1) } else { len + r.below(3) }; ops.push(vec![3, k]); len = len.min(k); }
            10 => { if r.chance(1, 3) { ops.push(vec![4]); len = 0; } else { ops.push(vec![6]); } }
            11 => { ops.push(vec![5, *r.pick(&[0u64, 1, 2, 17, 64, 600])]); }
            12 => { ops.push(vec![6]); }
            13 => { let k = *r.pick(&[0u64, 1, 5, 40, 520]); let k = if big { k } else { k.min(len + 60) }; ops.push(vec![7, k, val(r)]); len = k; }
            14..=15 => { let c = *r.pick(&[1u64, 3, 9, 70, 300]); ops.push(vec![8, c, r.next()]); len += c; }
            16 => { if r.chance(1, 2) { let c = *r.pick(&[1u64, 7, 8, 9, 64, 200]); ops.push(vec![9, c, r.next()]); len += c; }
                    else { let base = (ic as u64).max(1); let c = match r.below(7) { 0 => 0, 1 => 1, 2 => base, 3 => base * 3 / 2, 4 => base * 17 / 10 + 1, 5 => base * 2, _ => (base * 10).min(2500) };
                           ops.push(vec![12, c, r.next()]); len = c; } }
            17..=18 => { ops.push(vec![10]); }
            _ => { ops.push(vec![11]); }
        }
    }
    if r.chance(9, 10) { ops.push(vec![10]); }
    (es, ic, growth, sow, ops)
}
/// copy_from_simd into a destination that is not full (len < capacity), from sources of 1x .. 10x the capacity,
/// then (optionally push / extend and) sync, reopen, read everything
fn gen_mv_copy(r: &mut Rng, i: usize) -> (usize, usize, f64, bool, Vec<Vec<u64>>) {
    let es = *r.pick(&[1usize, 2, 4, 8, 8]);
    let ic = *r.pick(&[8usize, 8, 3, 16, 64, 100]);
    let growth = *r.pick(&[1.0f64, 1.1, 1.5, 1.618, 1.618, 2.0]);
    let sow = r.chance(1, 5);
    let used = match r.below(4) { 0 => 0, 1 => 3.min(ic as u64 - 1), 2 => ic as u64 / 2, _ => ic as u64 - 1 };
    let mut ops: Vec<Vec<u64>> = vec![];
    if used > 0 { if r.chance(1, 2) { ops.push(vec![8, used, r.next()]); } else { for _ in 0..used { ops.push(vec![0, 1 + r.below(250)]); } } }
    let c = ic as u64;
    let factor = [c, c * 3 / 2, c * 17 / 10 + 1, c * 2, c * 10, c * 10 + 1, c + 1][i % 7];
    ops.push(vec![12, factor, r.next()]);
    match r.below(4) { 0 => ops.push(vec![0, 1 + r.below(250)]), 1 => ops.push(vec![8, *r.pick(&[1u64, 3, 9, 70]), r.next()]), 2 => ops.push(vec![9, *r.pick(&[1u64, 8, 64]), r.next()]), _ => {} }
    ops.push(vec![if r.chance(1, 2) { 10 } else { 11 }]);
    if r.chance(1, 3) { ops.push(vec![0, 7]); ops.push(vec![10]); }
    (es, ic, growth, sow, ops)
}
fn run_mv(cx: &mut Ctx, es: usize, ic: usize, growth: f64, sow: bool, ops: &[Vec<u64>], exhaustive: bool) {
    let ty = match es { 1 => "u8", 2 => "u16", 4 => "u32", _ => "u64" };
    run_mv_ty(cx, ty, ic, growth, sow, ops, exhaustive, 0)
}
#[allow(clippy::too_many_arguments)]
fn run_mv_ty(cx: &mut Ctx, ty: &str, ic: usize, growth: f64, sow: bool, ops: &[Vec<u64>], exhaustive: bool, preset: u64) {
    with_ty!(ty, T, mv_case::<T>(cx, ic, growth, sow, ops, exhaustive, preset))
}
const MV_TYPES: [&str; 11] = ["u8", "u16", "u32", "u64", "i8", "i16", "i32", "i64", "u128", "b3", "unit"];
fn ty_es(ty: &str) -> usize { with_ty!(ty, T, <T as El>::ES) }

/// oracle breadth: histories that mix the old operations with the secondary entry points (pop_bulk_simd, fill_range_simd,
/// compare_range_simd, as_mut_slice, the iterator / stats observers, reopening with the configuration presets - read-only
/// among them -, copy_from_simd from a with_capacity_simd source), over every element type, sizes around the 64-byte SIMD
/// threshold and the 4096-byte prefetch threshold of copy_from_simd
fn gen_mv_wide(r: &mut Rng, i: usize) -> (String, usize, f64, bool, Vec<Vec<u64>>, u64) {
    let ty = MV_TYPES[i % MV_TYPES.len()].to_string();
    let es = ty_es(&ty).max(1) as u64;
    let ic = *r.pick(&[0usize, 1, 3, 8, 16, 63, 64, 100, 130, 512]);
    let growth = *r.pick(&[1.0f64, 1.1, 1.5, 1.618, 2.0]);
    let sow = r.chance(1, 5);
    // creation with a preset (its initial capacity, growth factor and sync_on_write): memory_optimized, the builder's, the default
    let preset = if i % 7 == 3 { *r.pick(&[5u64, 7, 6]) } else { 0 };
    let n = r.range(4, if sow { 9 } else { 14 });
    let mut ops: Vec<Vec<u64>> = vec![];
    let mut len: u64 = 0;
    let val = |r: &mut Rng| -> u64 { match r.below(4) { 0 => r.next(), 1 => u64::MAX, _ => 1 + r.below(250) } };
    // element counts whose byte size sits at 63/64/65 (SIMD threshold) and 4095/4096/4097 (prefetch threshold)
    let around = |r: &mut Rng| -> u64 { let b = *r.pick(&[64u64, 64, 64, 4096]); let k = (b + es - 1) / es; match r.below(4) { 0 => k.saturating_sub(1), 1 => k, 2 => k + 1, _ => 1 + r.below(20) } };
    // the history starts with some content
    { let c = around(r).min(600); ops.push(vec![if r.chance(1, 2) { 8 } else { 9 }, c, r.next()]); len += c; }
    for _ in 0..n {
        match r.below(22) {
            0..=1 => { ops.push(vec![0, val(r)]); len += 1; }
            2 => { ops.push(vec![1]); len = len.saturating_sub(1); }
            3 => { let i = if len > 0 { r.below(len) } else { 0 }; ops.push(vec![2, i, val(r)]); }
            4 => { let c = around(r).min(600); ops.push(vec![9, c, r.next()]); len += c; }
            5..=7 => { // pop_bulk_simd: around the SIMD threshold, everything, one too many
                let c = match r.below(6) { 0 => len, 1 => len + 1, 2 => 0, _ => around(r).min(len) }; ops.push(vec![13, c]); if c <= len { len -= c; } }
            8..=10 => { // fill_range_simd: inside, to the end, past the end, empty and reversed ranges
                let (s, e) = match r.below(7) { 0 => (0, len), 1 => (len, len), 2 => (0, len + 1), 3 => { let s = r.below(len + 1); (s, (s + around(r)).min(len)) }, 4 => { let e = r.below(len + 1); (e.saturating_sub(around(r)), e) }, 5 => (r.below(len + 1), 0), _ => { let s = r.below(len + 1); (s, s + r.below(len - s + 1)) } };
                ops.push(vec![14, s, e, val(r)]); }
            11..=12 => { let s = r.below(len + 1); let e = match r.below(3) { 0 => len, 1 => (s + around(r)).min(len), _ => s + r.below(len - s + 1) };
                         let p = if r.chance(1, 2) || e == s { u64::MAX } else { match r.below(3) { 0 => 0, 1 => e - s - 1, _ => r.below(e - s) } }; ops.push(vec![15, s, e, p]); }
            13..=14 => { ops.push(vec![16, *r.pick(&[1u64, 1, 2, 7, 64]), r.next()]); }
            15..=16 => { let k = *r.pick(&[1u64, 1, 3, 4, 5, 6, 7, 8, 0]); ops.push(vec![17, k]);
                         if matches!(k, 1 | 8) {
                             // a read-only phase: whatever is asked of the vector, it presents the same content when it is opened for writing again
                             for _ in 0..r.range(2, 4) { match r.below(8) { 0 => ops.push(vec![0, val(r)]), 1 => ops.push(vec![16, 1, r.next()]), 2 => ops.push(vec![14, 0, len.min(70), val(r)]), 3 => ops.push(vec![13, 1]),
                                                                             4 => ops.push(vec![2, 0, val(r)]), 5 => ops.push(vec![4]), 6 => ops.push(vec![9, 3, r.next()]), _ => ops.push(vec![7, len + 2, val(r)]) } }
                             ops.push(vec![17, *r.pick(&[0u64, 5, 6])]); ops.push(vec![18]);
                         } else if r.chance(1, 2) { ops.push(vec![0, val(r)]); len += 1; } }
            17 => ops.push(vec![18]),
            18 => { let c = match r.below(4) { 0 => 0, 1 => around(r), 2 => (ic as u64).max(1) * 2 + 1, _ => 1025 }; ops.push(vec![19, c, r.next()]); len = c; }
            19 => { ops.push(vec![6]); }
            20 => { let k = *r.pick(&[0u64, 1, 40]); ops.push(vec![7, k.min(len + 60), val(r)]); len = k.min(len + 60); }
            _ => ops.push(vec![10]),
        }
    }
    // NB `len` is only the generator's estimate (a read-only phase leaves the vector as it is): every operation is valid on any length
    if r.chance(1, 2) { ops.push(vec![18]); }
    if r.chance(9, 10) { ops.push(vec![if r.chance(1, 3) { 11 } else { 10 }]); }
    (ty, ic, growth, sow, ops, preset)
}
/// sync_on_write: every content-changing entry point as the *last* operation of a history (no sync() after it): the file must
/// hold what the vector held; i = which entry point
fn gen_mv_sow(r: &mut Rng, i: usize) -> (String, usize, f64, bool, Vec<Vec<u64>>, u64) {
    let ty = MV_TYPES[(i * 3) % 10].to_string();
    let mut ops: Vec<Vec<u64>> = vec![vec![9, 70, r.next()], vec![10]];   // (one bulk push: an extend under sync_on_write syncs 70 times)
    let last: Vec<u64> = match i % 11 {
        0 => vec![0, 5], 1 => vec![1], 2 => vec![3, 9], 3 => vec![4], 4 => vec![7, 90, 3], 5 => vec![8, 5, r.next()], 6 => vec![9, 70, r.next()],
        7 => vec![12, 40, r.next()], 8 => vec![13, 65], 9 => vec![14, 2, 69, 7], _ => vec![19, 30, r.next()] };
    ops.push(last);
    ops.push(vec![18]);
    // created with sync_on_write, or switched to it by reopening with the persistent_cache preset / the builder's configuration
    match i % 3 { 0 => (ty, 16, 1.618, true, ops, 0), 1 => { ops.insert(2, vec![17, 3]); (ty, 16, 1.5, false, ops, 0) } _ => (ty, 0, 2.0, false, ops, 7) }
}
/// sizes that cross the 64 KiB minimum mapping of a vector file (beyond it the mapping is exactly as long as the file) and
/// the 8192 / 16384-element presets: bulk operations and growth across the boundary, then sync, reopen, read everything
fn gen_mv_big(r: &mut Rng, i: usize) -> (String, usize, f64, bool, Vec<Vec<u64>>, u64) {
    let mut ops: Vec<Vec<u64>> = vec![];
    let s = r.next();
    match i % 8 {
        0 => { ops.push(vec![8, 65456, s]); ops.push(vec![10]); ops.push(vec![0, 7]); ops.push(vec![11]); ops.push(vec![13, 65]); ops.push(vec![10]); ("u8".into(), 65456, 1.618, false, ops, 0) }      // 80 + 65456 = 65536 exactly, then one more
        1 => { ops.push(vec![9, 65457, s]); ops.push(vec![14, 100, 65400, 9]); ops.push(vec![11]); ops.push(vec![13, 65000]); ops.push(vec![6]); ops.push(vec![10]); ("u8".into(), 65000, 1.1, false, ops, 0) }
        2 => { ops.push(vec![8, 8190, s]); ops.push(vec![10]); ops.push(vec![0, 1]); ops.push(vec![0, 2]); ops.push(vec![0, 3]); ops.push(vec![11]); ("u64".into(), 0, 1.618, false, ops, 4) }           // performance_optimized: 8192 x 8 bytes
        3 => { ops.push(vec![12, 70000, s]); ops.push(vec![10]); ops.push(vec![16, 4099, s]); ops.push(vec![11]); ops.push(vec![3, 10]); ops.push(vec![6]); ops.push(vec![10]); ("u16".into(), 100, 1.5, false, ops, 0) }
        4 => { ops.push(vec![19, 9000, s]); ops.push(vec![0, 5]); ops.push(vec![11]); ops.push(vec![15, 0, 9001, 9000]); ops.push(vec![13, 8192]); ops.push(vec![10]); ("i64".into(), 16, 2.0, false, ops, 0) }
        5 => { ops.push(vec![9, 16384, s]); ops.push(vec![0, 9]); ops.push(vec![1]); ops.push(vec![1]); ops.push(vec![17, 3]); ops.push(vec![0, 4]); ("u32".into(), 0, 2.0, true, ops, 3) }             // persistent_cache: sync_on_write, 16384 elements
        6 => { ops.push(vec![7, 5462, 3]); ops.push(vec![10]); ops.push(vec![8, 3, s]); ops.push(vec![14, 5400, 5465, 1]); ops.push(vec![11]); ("u128".into(), 4091, 1.0, false, ops, 0) }       // 80 + 4091*16 = 65536
        _ => { ops.push(vec![8, 21900, s]); ops.push(vec![10]); ops.push(vec![19, 30000, s]); ops.push(vec![11]); ops.push(vec![0, 1]); ops.push(vec![10]); ("b3".into(), 21818, 1.618, false, ops, 0) }      // 80 + 21818*3 = 65534
    }
}
// ------------------------------------------------------------------ PlainBlobStore
// ops: [0, hex] put | [1, k] remove the k-th live id | [2] drop and open the directory again | [3, id] remove an id that holds no record
// oracle breadth: [4, [hex, ..]] put_batch | [5, [k, ..]] remove_batch (k < 100: the k-th live id, else the absent id k; repeats allowed)
//                 [6] observers: get_batch, iter_blobs, len/is_empty, contains/size, flush, base_dir | [7] drop and create_new (empties the directory)
// leftover > 0: temporary files `.1.tmp` .. `.6.tmp` of that many bytes exist before the history starts (what interrupted
// puts leave behind); a later put with that id must publish exactly its own data
// foreign: names of files that are in the directory before the history starts and are not records of the store (a name that
// is not the decimal rendering of an id names no record: "007", "+3", "x", ".7.tmp.bak")
fn plain_case(cx: &mut Ctx, ops: &[Value], leftover: usize, exhaustive: bool) { plain_case_in(cx, ops, leftover, exhaustive, &[]) }
fn plain_case_in(cx: &mut Ctx, ops: &[Value], leftover: usize, exhaustive: bool, foreign: &[String]) {
    use zipora::blob_store::BatchBlobStore;
    let cell = "PlainBlobStore";
    let mut cj = json!({"cell": "plain", "ops": ops, "leftover": leftover, "exhaustive": exhaustive});
    if !foreign.is_empty() { cj["foreign"] = json!(foreign); }
    dbg_case(&cj);
    cx.sum.eval(cell, &cj.to_string(), ops.len() >= 2);
    cx.sum.cell_status(cell, "M+S");
    let mut r = Rng::new(fnv64(cj.to_string().as_bytes(), 11));
    let dir = cx.fresh_dir("pl");
    let sdir = format!("{}/store", dir);
    std::fs::create_dir_all(&sdir).unwrap();
    let mut init = Disk::new();
    if leftover > 0 {
        for id in 1..=6u32 {
            let g: Vec<u8> = (0..leftover).map(|i| 0xA0u8.wrapping_add((i as u8).wrapping_mul(7)).wrapping_add(id as u8)).collect();
            std::fs::write(format!("{}/.{}.tmp", sdir, id), &g).unwrap();
            init.insert(format!("store/.{}.tmp", id), g);
        }
    }
    for (i, name) in foreign.iter().enumerate() {
        if name.is_empty() || name.contains('/') || name.parse::<u32>().map(|id| id.to_string() == *name).unwrap_or(false) { continue; }
        let g = vec![0xF0u8 | i as u8; 3 + i];
        std::fs::write(format!("{}/{}", sdir, name), &g).unwrap();
        init.insert(format!("store/{}", name), g);
    }
    let mut shadow: BTreeMap<u32, Vec<u8>> = BTreeMap::new();
    let st_json = |m: &BTreeMap<u32, Vec<u8>>| { let mut o = serde_json::Map::new(); for (k, v) in m { o.insert(k.to_string(), json!(hex(v))); } json!({"records": Value::Object(o)}) };
    let mut states = vec![]; let mut marks = vec![];
    let mut problem: Option<String> = None;
    let mut put_segs: Vec<(usize, usize, u32)> = vec![];
    let mut hops: Vec<String> = vec![];       // the history as the model's phop list
    let mut volume = 0usize;
    let mut modelled = foreign.is_empty();
    trace::start(&dir);
    let res = guarded(|| {
        let mut st = match PlainBlobStore::new(&sdir) { Ok(s) => s, Err(e) => { problem = Some(e.to_string()); return; } };
        states.push(st_json(&shadow)); marks.push(trace::len());
        for (k, op) in ops.iter().enumerate() {
            match op[0].as_u64().unwrap_or(9) {
                0 => { let data = unhex(op[1].as_str().unwrap_or(""));
                       let t0 = trace::len();
                       hops.push(format!("HPut {}", coq_bytes(&data))); volume += data.len();
                       match st.put(&data) { Ok(id) => { put_segs.push((t0, trace::len(), id)); if shadow.contains_key(&id) { problem = Some(format!("op {}: put reused live id {}", k, id)); return; } shadow.insert(id, data); }
                                             Err(e) => { problem = Some(format!("op {}: put failed: {}", k, e)); return; } } }
                1 => { let ids: Vec<u32> = shadow.keys().copied().collect();
                       if !ids.is_empty() { let id = ids[op[1].as_u64().unwrap_or(0) as usize % ids.len()];
                           hops.push(format!("HRemove {}", id));
                           if let Err(e) = st.remove(id) { problem = Some(format!("op {}: remove failed: {}", k, e)); return; } shadow.remove(&id); } }
                2 => { hops.push("HReopen".into()); drop(st); st = match PlainBlobStore::new(&sdir) { Ok(s) => s, Err(e) => { problem = Some(e.to_string()); return; } }; }
                3 => { let id = op[1].as_u64().unwrap_or(0) as u32;
                       if !shadow.contains_key(&id) { hops.push(format!("HRemove {}", id)); if st.remove(id).is_ok() { problem = Some(format!("op {}: remove of the absent id {} succeeded", k, id)); return; } } }
                4 => { let blobs: Vec<Vec<u8>> = op[1].as_array().map(|a| a.iter().map(|h| unhex(h.as_str().unwrap_or(""))).collect()).unwrap_or_default();
                       for b in &blobs { hops.push(format!("HPut {}", coq_bytes(b))); volume += b.len(); }
                       // every record of the batch is a boundary: an interrupted batch leaves a prefix of it
                       let before = marks.last().copied().unwrap_or(0);
                       match st.put_batch(blobs.clone()) {
                           Ok(ids) => { if ids.len() != blobs.len() { problem = Some(format!("op {}: put_batch of {} records returned {} ids", k, blobs.len(), ids.len())); return; }
                                        for (j, (id, b)) in ids.iter().zip(blobs.iter()).enumerate() {
                                            if shadow.contains_key(id) { problem = Some(format!("op {}: put_batch reused live id {}", k, id)); return; }
                                            shadow.insert(*id, b.clone());
                                            if j + 1 < blobs.len() { states.push(st_json(&shadow)); marks.push(before); } } }
                           Err(e) => { problem = Some(format!("op {}: put_batch failed: {}", k, e)); return; } } }
                5 => { let live: Vec<u32> = shadow.keys().copied().collect();
                       let ids: Vec<u32> = op[1].as_array().map(|a| a.iter().map(|x| { let v = x.as_u64().unwrap_or(0); if v < 100 && !live.is_empty() { live[v as usize % live.len()] } else { v as u32 } }).collect()).unwrap_or_default();
                       let before = marks.last().copied().unwrap_or(0);
                       let mut expect = 0usize; let mut sh2 = shadow.clone(); let mut mids = vec![];
                       for id in &ids { hops.push(format!("HRemove {}", id)); if sh2.remove(id).is_some() { expect += 1; mids.push(st_json(&sh2)); } }
                       match st.remove_batch(ids.clone()) {
                           Ok(n) => { if n != expect { problem = Some(format!("op {}: remove_batch({:?}) removed {} records, {} of them existed", k, ids, n, expect)); return; }
                                      mids.pop(); for m in mids { states.push(m); marks.push(before); } shadow = sh2; }
                           Err(e) => { problem = Some(format!("op {}: remove_batch failed: {}", k, e)); return; } } }
                6 => { let mut ids: Vec<u32> = shadow.keys().copied().collect(); ids.push(shadow.keys().last().map(|x| x + 1).unwrap_or(1)); ids.push(0);
                       let got = st.get_batch(ids.clone());
                       let want: Vec<Option<Vec<u8>>> = ids.iter().map(|i| shadow.get(i).cloned()).collect();
                       if got.as_ref().ok() != Some(&want) { problem = Some(format!("op {}: get_batch({:?}) differs from the records put", k, ids)); return; }
                       let mut it: Vec<(u32, Vec<u8>)> = vec![];
                       for x in st.iter_blobs() { match x { Ok(p) => it.push(p), Err(e) => { problem = Some(format!("op {}: iter_blobs failed: {}", k, e)); return; } } }
                       if it != shadow.iter().map(|(a, b)| (*a, b.clone())).collect::<Vec<_>>() { problem = Some(format!("op {}: iter_blobs yields other (id, record) pairs than were put", k)); return; }
                       if st.len() != shadow.len() || st.is_empty() != shadow.is_empty() { problem = Some(format!("op {}: len() = {}, {} records are live", k, st.len(), shadow.len())); return; }
                       for (id, d) in &shadow { if !st.contains(*id) || st.size(*id).ok().flatten() != Some(d.len()) { problem = Some(format!("op {}: contains/size of record {} disagree with the record put", k, id)); return; } }
                       if st.flush().is_err() || st.base_dir() != std::path::Path::new(&sdir) { problem = Some(format!("op {}: flush()/base_dir()", k)); return; } }
                7 if shadow.len() > 10 => {}     // (every subset of the records is a crash state of create_new: keep them enumerable)
                7 => { modelled = false; drop(st);
                       // an interrupted create_new has removed some of the records: every subset of them is a boundary
                       let before = marks.last().copied().unwrap_or(0);
                       let live: Vec<u32> = shadow.keys().copied().collect();
                       { for m in 1u32..(1 << live.len()) - 1 { let mut s2 = shadow.clone(); for (j, id) in live.iter().enumerate() { if m >> j & 1 == 1 { s2.remove(id); } } states.push(st_json(&s2)); marks.push(before); } }
                       st = match PlainBlobStore::create_new(&sdir) { Ok(s) => s, Err(e) => { problem = Some(e.to_string()); return; } }; shadow.clear(); }
                _ => {}
            }
            for (id, d) in &shadow { if st.get(*id).ok().as_ref() != Some(d) { problem = Some(format!("op {}: live store does not return record {} as it was put ({} bytes, got {:?} bytes)", k, id, d.len(), st.get(*id).ok().map(|x| x.len()))); return; } }
            states.push(st_json(&shadow)); marks.push(trace::len());
        }
    });
    let tr = trace::stop();
    if let Err(p) = res { problem = Some(format!("writer panicked: {}", p)); }
    if let Some(p) = problem { cx.sum.fail(cell, None, cj, &p); let _ = std::fs::remove_dir_all(&dir); return; }
    let mut sim = init.clone();
    for op in &tr { apply(&mut sim, op); }
    if let Err(w) = tracer_in_sync(&dir, &sim) { panic!("C19 tracer out of sync with the file system:{}", w); }
    // an arbitrary cut of a finished, fsynced record file is not detectable in a format without framing
    let foreign_paths: Vec<String> = foreign.iter().map(|n| format!("store/{}@", n)).collect();
    let class_of = |out: &Value, kind: &str, _why: &str| -> Option<&'static str> {
        if kind.starts_with("truncate:") && !kind.contains(".tmp@") && !foreign_paths.iter().any(|f| kind.ends_with(f.as_str()) || kind.contains(f.as_str())) && out.get("ok").is_some() { Some("plain_record_unframed") } else { None }
    };
    for (a, b, id) in put_segs { if b <= tr.len() && a < b { protocol_case(cx, &tr[a..b], &format!("store/{}", id), "PlainBlobStore::put"); } }
    // the whole history refined to named file operations by the model (ids from the model's counter and rescan)
    if modelled && volume <= 2500 && cx.n_plain < if cx.thorough { 500 } else { 48 } && cx.coq_seen.insert(fnv64(cj.to_string().as_bytes(), 0x706c)) {
        let name = |p: &str| coq_bytes(p.strip_prefix("store/").unwrap_or(p).as_bytes());
        let terms: Vec<String> = tr.iter().map(|o| match o {
            Op::Open { p, creat, trunc } => format!("NOpen {} {} {}", name(p), coq_bool(*creat), coq_bool(*trunc)),
            Op::SetLen { p, n } => format!("NSetLen {} {}", name(p), n),
            Op::Write { p, off, data } => format!("NWrite {} {} {}", name(p), off, coq_bytes(data)),
            Op::Fsync { p } => format!("NFsync {}", name(p)),
            Op::Rename { a, b } => format!("NRename {} {}", name(a), name(b)),
            Op::Unlink { p } => format!("NUnlink {}", name(p)),
        }).collect();
        cx.n_plain += 1;
        cx.shards.push(format!("(XPlainHist [{}] [{}])", hops.join("; "), terms.join("; ")), json!({"cell": "plain_history", "ops": ops, "leftover": leftover}));
    }
    let fin_state = states.last().cloned();
    judge_trace_from(cx, &init, cell, "plain", &class_of, &cj, &json!({}), "store", true, &tr, &marks, &states, fin_state.as_ref(), &[], &mut r, exhaustive, None);
    let _ = std::fs::remove_dir_all(&dir);
}
fn gen_plain(r: &mut Rng) -> Vec<Value> {
    let n = r.range(1, 6);
    let mut ops = vec![];
    for _ in 0..n {
        match r.below(8) {
            0..=4 => { let len = *r.pick(&[0usize, 1, 2, 5, 17, 100, 4095, 4096, 4097, 9000]); let len = if r.chance(1, 2) { len.min(40) } else { len }; ops.push(json!([0, hex(&r.bytes(len))])); }
            5 => ops.push(json!([1, r.below(8)])),
            6 => if r.chance(1, 3) { ops.push(json!([3, *r.pick(&[0u64, 1, 2, 5, 4294967295])])) } else { ops.push(json!([1, r.below(8)])) },
            _ => ops.push(json!([2])),
        }
    }
    ops
}

/// oracle breadth: the batch entry points, the observers and create_new mixed into put / remove / reopen histories
fn gen_plain_wide(r: &mut Rng) -> Vec<Value> {
    let n = r.range(3, 8);
    let mut ops = vec![];
    let rec = |r: &mut Rng| -> String { let len = *r.pick(&[0usize, 1, 2, 5, 17, 40, 100, 4095, 4096, 4097]); let len = if r.chance(2, 3) { len.min(40) } else { len }; hex(&r.bytes(len)) };
    for _ in 0..n {
        match r.below(12) {
            0..=1 => ops.push(json!([0, rec(r)])),
            2..=4 => { let k = *r.pick(&[0usize, 1, 2, 3, 5]); let v: Vec<String> = (0..k).map(|_| rec(r)).collect(); ops.push(json!([4, v])); }
            5..=6 => { let k = r.range(0, 4); let mut v: Vec<u64> = (0..k).map(|_| if r.chance(1, 4) { *r.pick(&[100u64, 4294967295, 1000]) } else { r.below(6) }).collect();
                       // an id that is not there in front of ones that are; the same record twice
                       match r.below(4) { 0 => v.insert(0, 1000), 1 => { if let Some(&x) = v.first() { v.push(x); } } _ => {} }
                       ops.push(json!([5, v])); }
            7 => ops.push(json!([6])),
            8 => ops.push(json!([1, r.below(8)])),
            9 => ops.push(json!([2])),
            10 => ops.push(json!([7])),
            _ => ops.push(json!([3, *r.pick(&[0u64, 2, 9])])),
        }
    }
    if r.chance(1, 2) { ops.push(json!([6])); }
    ops
}

// ------------------------------------------------------------------ write-once files (reorder map, zip-offset store, dictionary, raw mmap stream)
fn reorder_state(vals: &[u64]) -> Value { json!({"size": vals.len(), "values": vals}) }
/// big maps are compared through a digest of their values (plus the first and last eight)
fn reorder_digest(vals: &[u64]) -> Value {
    let mut h = 0xcbf29ce484222325u64;
    for v in vals { h = fnv64(&v.to_le_bytes(), h); }
    let n = vals.len();
    let ends: Vec<u64> = vals.iter().enumerate().filter(|(i, _)| *i < 8 || *i + 8 >= n).map(|(_, v)| *v).collect();
    json!({"size": n, "count": n, "digest": format!("{:016x}", h), "ends": ends})
}
/// the values of a build: spelled out (`values`), or as runs `[start, length]` that step by the map's direction
fn reorder_values(b: &Value) -> Vec<u64> {
    let neg = b["neg"].as_bool().unwrap_or(false);
    if let Some(rs) = b["runs"].as_array() {
        let mut v = vec![];
        for run in rs { let s0 = run[0].as_u64().unwrap_or(0); let n = run[1].as_u64().unwrap_or(0).min(3_000_000);
            for i in 0..n { v.push(if neg { s0.wrapping_sub(i) } else { s0.wrapping_add(i) } & 0xFF_FFFF_FFFF); } }
        return v;
    }
    b["values"].as_array().map(|a| a.iter().map(|x| x.as_u64().unwrap_or(0)).collect()).unwrap_or_default()
}

/// builds = successive files written to the same path (a later build overwrites an earlier one)
/// oracle breadth, `mode` of a build: 1 = abandoned (all values pushed, the builder dropped without finish): the file stays as it
/// was; 2 = finish() one value short: must be refused, the file stays as it was; 3 = a refused push (value of more than 39 bits)
/// in the middle and a refused push beyond the announced size, then finish(): the map holds exactly the accepted values
fn reorder_case(cx: &mut Ctx, builds: &[Value], exhaustive: bool) {
    let cell = "ZReorderMap";
    let cj = json!({"cell": "reorder", "builds": builds, "exhaustive": exhaustive});
    dbg_case(&cj);
    let all: Vec<Vec<u64>> = builds.iter().map(reorder_values).collect();
    cx.sum.eval(cell, &cj.to_string(), all.iter().any(|v| v.len() >= 2));
    let digest = all.iter().any(|v| v.len() > 20000);
    let state_of = |v: &[u64]| if digest { reorder_digest(v) } else { reorder_state(v) };
    let mut r = Rng::new(fnv64(cj.to_string().as_bytes(), 13));
    let dir = cx.fresh_dir("ro");
    let path = format!("{}/m.bin", dir);
    let mut states = vec![]; let mut marks = vec![];
    let mut problem: Option<String> = None;
    let mut refused = false;
    let mut last: (Vec<u64>, bool) = (vec![], false);
    let mut build_segs: Vec<(usize, usize)> = vec![];
    let mut plain_builds = true;
    trace::start(&dir);
    let res = guarded(|| {
        for (k, b) in builds.iter().enumerate() {
            let vals: &Vec<u64> = &all[k];
            let neg = b["neg"].as_bool().unwrap_or(false);
            let mode = b["mode"].as_u64().unwrap_or(0);
            if mode != 0 { plain_builds = false; }
            let t0 = trace::len();
            let mut bl = match ZReorderMapBuilder::new(&path, vals.len(), if neg { -1 } else { 1 }) { Ok(b) => b, Err(e) => { problem = Some(format!("build {}: new failed: {}", k, e)); return; } };
            let stop = if mode == 2 { vals.len().saturating_sub(1) } else { vals.len() };
            // "bad": [[i, v], ..] - before value i a value above the 40-bit limit is pushed; it is refused and the build carries
            // on as if it had not been attempted (the file is the one of `values` alone)
            let bad: Vec<(usize, u64)> = b["bad"].as_array().map(|a| a.iter().map(|x| (x[0].as_u64().unwrap_or(0) as usize, x[1].as_u64().unwrap_or(u64::MAX))).collect()).unwrap_or_default();
            for (j, &v) in vals[..stop].iter().enumerate() {
                for (_, bv) in bad.iter().filter(|(bi, bv)| *bi == j && *bv > 0x7F_FFFF_FFFF) {
                    if bl.push(*bv as usize).is_ok() { problem = Some(format!("build {}: push({:#x}) accepted although the value does not fit the 40-bit field", k, bv)); return; }
                }
                if mode == 3 && j == vals.len() / 2 { if bl.push(1usize << 39).is_ok() { problem = Some(format!("build {}: push of a 40-bit value was accepted", k)); return; } }
                if let Err(_) = bl.push(v as usize) { refused = true; return; }
            }
            if mode == 3 && bl.push(7).is_ok() { problem = Some(format!("build {}: push beyond the announced size was accepted", k)); return; }
            match mode {
                1 => { drop(bl); }
                2 if !vals.is_empty() => { if bl.finish().is_ok() { problem = Some(format!("build {}: finish() succeeded although a value was missing", k)); return; } }
                _ => {
                    if let Err(e) = bl.finish() { problem = Some(format!("build {}: finish failed: {}", k, e)); return; }
                    build_segs.push((t0, trace::len()));
                    states.push(state_of(vals)); marks.push(trace::len());
                    last = (vals.clone(), neg);
                }
            }
        }
    });
    let tr = trace::stop();
    if let Err(p) = res { problem = Some(format!("writer panicked: {}", p)); }
    if let Some(p) = problem { cx.sum.fail(cell, None, cj, &p); let _ = std::fs::remove_dir_all(&dir); return; }
    if refused { cx.sum.dist("reorder_push_refused"); let _ = std::fs::remove_dir_all(&dir); return; }
    let mut sim = Disk::new();
    for op in &tr { apply(&mut sim, op); }
    if let Err(w) = tracer_in_sync(&dir, &sim) { panic!("C19 tracer out of sync with the file system:{}", w); }
    let none = |_: &Value, _: &str, _: &str| -> Option<&'static str> { None };
    for (a, b) in &build_segs { if *b <= tr.len() && a < b { protocol_case(cx, &tr[*a..*b], "m.bin", "ZReorderMapBuilder::finish"); } }
    // the builder's writes: header, every flush of the 4096-byte buffer, the rest in finish() - as the model refines them
    if let (Some((a, b)), true) = (build_segs.last().copied(), plain_builds && build_segs.len() == builds.len()) {
        let seg = &tr[a..b.min(tr.len())];
        let bytes: usize = seg.iter().map(|o| if let Op::Write { data, .. } = o { data.len() } else { 0 }).sum();
        let big = bytes > 1300;
        let room = if big { cx.n_row_big < if cx.thorough { 40 } else { 9 } } else { cx.n_row - cx.n_row_big < if cx.thorough { 300 } else { 24 } };
        if room && bytes + last.0.len() <= 36000 && cx.coq_seen.insert(fnv64(cj.to_string().as_bytes(), 0x526f57)) {
            cx.n_row += 1; if big { cx.n_row_big += 1; }
            cx.shards.push(format!("(XRoW {} {} [{}])", coq_n_list(last.0.iter().map(|&v| v as u128)), coq_bool(last.1), seg.iter().map(|o| fop_term(o, "m.bin")).collect::<Vec<_>>().join("; ")),
                           json!({"cell": "reorder_writes", "values": last.0, "neg": last.1}));
        }
    }
    let fin_state = states.last().cloned();
    let extra = if digest { json!({"digest": true}) } else { json!({}) };
    let fin = judge_trace(cx, cell, "reorder", &none, &cj, &extra, "m.bin", false, &tr, &marks, &states, fin_state.as_ref(), &[16, 21], &mut r, exhaustive, None);
    if let Some(f) = fin.as_ref().and_then(|d| d.get("m.bin")) {
        if f.len() <= 1200 && last.0.len() <= 4000 && cx.old_used() < cx.budget {
            // the builder emits the modelled format; the reader agrees with the model on the file and on damaged copies
            cx.shards.push(format!("(XOld (CRoEnc {} {} {}))", coq_n_list(last.0.iter().map(|&v| v as u128)), coq_bool(last.1), coq_bytes(f)),
                           json!({"cell": "reorder_encode", "values": last.0, "neg": last.1}));
            let mut imgs = vec![f.clone()];
            for t in [f.len() - 1, f.len() / 2, 16, 21] { if t < f.len() { imgs.push(f[..t].to_vec()); } }
            let mut g = f.clone(); if g.len() > 17 { let i = 16 + r.below((g.len() - 16) as u64) as usize; g[i] ^= 1 << r.below(8); imgs.push(g); }
            for im in imgs { reorder_coq_case(cx, &im); }
        }
    }
    let _ = std::fs::remove_dir_all(&dir);
}
fn reorder_coq_case(cx: &mut Ctx, img: &[u8]) {
    if img.len() > 1200 || cx.old_used() >= cx.budget || cx.n_ro * 3 >= cx.budget { return; }
    if !cx.coq_seen.insert(fnv64(img, 0x77)) { return; }
    cx.n_ro += 1;
    let mut d = Disk::new(); d.insert("m.bin".into(), img.to_vec());
    let out = cx.observe("reorder", &json!({}), &d, "m.bin", false);
    let expect: Vec<i128> = if let Some(st) = out.get("ok") {
        if st.get("cut").is_some() { return; }
        let mut v = vec![st["size"].as_u64().unwrap_or(0) as i128];
        for e in st["values"].as_array().unwrap() { v.push(e.as_u64().unwrap() as i128); }
        v
    } else if out.get("err").is_some() { vec![-1] } else { return };
    cx.shards.push(format!("(XOld (CRo {} {}))", coq_bytes(img), coq_z_list(expect)), json!({"cell": "reorder_image", "image": hex(img)}));
}
fn gen_reorder(r: &mut Rng) -> Vec<Value> {
    let nb = if r.chance(1, 3) { 2 } else { 1 };
    let mut out = vec![];
    for _ in 0..nb {
        let neg = r.chance(1, 3);
        let n = *r.pick(&[0usize, 1, 2, 3, 10, 40, 200, 900, 1700]);
        let n = if r.chance(2, 3) { n.min(40) } else { n };
        let mut vals: Vec<u64> = vec![];
        let top: u64 = 0x7FFFFFFFFF;
        while vals.len() < n {
            let start = match r.below(6) { 0 => top - r.below(3), 1 => r.below(3), 2 => r.below(top), _ => r.below(5000) };
            let run = match r.below(5) { 0 => 1, 1 => 2, 2 => 127 + r.below(3), 3 => r.range(1, 300), _ => r.range(1, 6) } as usize;
            let mut v = start;
            for _ in 0..run.min(n - vals.len()) {
                vals.push(v);
                if neg { if v == 0 { break; } v -= 1; } else { if v == top { break; } v += 1; }
            }
        }
        vals.truncate(n);
        if r.chance(1, 3) {
            let bad: Vec<Value> = (0..r.range(1, 3)).map(|_| json!([r.below(n as u64 + 1), *r.pick(&[0x80_0000_0000u64, 0x80_0000_0001, u64::MAX >> 1, 0xFF_FFFF_FFFF])])).collect();
            out.push(json!({"values": vals, "neg": neg, "bad": bad}));
            continue;
        }
        out.push(json!({"values": vals, "neg": neg}));
    }
    out
}

/// oracle breadth: abandoned and refused builds between (and over) finished ones, run lengths around the variable-length
/// integer boundaries 127/128, 16383/16384, 2097151/2097152 (runs are named by [start, length] in the case), maps of 2^16 and
/// 2^21 values, descending runs down to 0 and ascending runs up to 2^39 - 1
fn gen_reorder_wide(r: &mut Rng, i: usize) -> Vec<Value> {
    let top: u64 = 0x7FFFFFFFFF;
    let neg = r.chance(1, 3);
    let small = |r: &mut Rng, neg: bool| -> Value {
        let k = r.range(1, 5); let mut runs = vec![]; let mut base = 1000 + r.below(1000);
        for _ in 0..k { let n = *r.pick(&[1u64, 2, 3, 127, 128, 129, 40]); runs.push(json!([base + if neg { n } else { 0 }, n])); base += n + 2 + r.below(500); }
        json!({"runs": runs, "neg": neg})
    };
    match i % 8 {
        // a finished map, then a build that is abandoned / one value short / has refused pushes, (then another finished one)
        0 | 1 | 2 => { let mut v = vec![]; if r.chance(3, 4) { v.push(small(r, neg)); }
                       let ng = r.chance(1, 3); let mut b = small(r, ng); b["mode"] = json!(1 + (i % 3) as u64); v.push(b);
                       if r.chance(1, 2) { let ng = r.chance(1, 3); v.push(small(r, ng)); } v }
        3 => { // run lengths at the varint boundaries
               let lens = [16383u64, 16384, 16385, 127, 128, 2, 1]; let mut runs = vec![]; let mut base = 50_000u64;
               for &n in lens.iter() { runs.push(json!([if neg { base + n } else { base }, n])); base += n + 10; }
               vec![json!({"runs": runs, "neg": neg})] }
        4 => vec![json!({"runs": [[if neg { 2097151 + 5 } else { 5 }, 2097151], [if neg { top } else { top - 2097152 + 1 }, 2097152u64]], "neg": neg})],
        5 => vec![json!({"runs": [[if neg { 65535 } else { 0 }, 65536], [if neg { 200000 } else { 100000 }, 65537], [300001, 1]], "neg": neg, "mode": if r.chance(1, 2) { 3 } else { 0 }})],
        6 => { // many records and a long run between them: several flushes of the write buffer, then one record that spans a flush
               let mut runs = vec![]; let mut base = 10u64;
               for k in 0..(900 + r.below(300)) { let n = if k == 450 { 70000 } else { 1 + (k % 3 == 0) as u64 }; runs.push(json!([if neg { base + n } else { base }, n])); base += n + 3; }
               vec![json!({"runs": runs, "neg": neg})] }
        _ => { // the ends of the value range
               if neg { vec![json!({"runs": [[5, 6], [top, 3], [0, 1]], "neg": true})] } else { vec![json!({"runs": [[top - 2, 3], [0, 5], [top, 1]], "neg": false, "mode": *r.pick(&[0u64, 3])})] } }
    }
}

/// many short runs: `target` bytes of records (5 bytes per single value, 6 per run of 2..127) so that the builder's
/// 4096-byte write buffer is flushed once, twice, several times before finish(); `target` = 0: `n` random short runs
fn gen_reorder_dense(r: &mut Rng, target: usize, n: usize) -> Vec<Value> {
    let neg = r.chance(1, 3);
    let top: u64 = 0x7FFFFFFFFF;
    let mut vals: Vec<u64> = vec![];
    // value blocks 1000 apart, so that no record continues the previous one
    let mut blk: u64 = 1 + r.below(50);
    let mut emit = |vals: &mut Vec<u64>, run: u64, r: &mut Rng| {
        let start = match r.below(12) { 0 => top - 200 - r.below(3), _ => { blk += 1 + r.below(3); (blk * 1000) % (top - 5000) + 300 } };
        for i in 0..run { vals.push(if neg { start - i } else { start + i }); }
    };
    if target > 0 {
        // bytes = 5 * singles + 6 * pairs
        let pairs = { let mut p = 0; while (target - 6 * p) % 5 != 0 { p += 1; } p };
        let singles = (target - 6 * pairs) / 5;
        let mut kinds: Vec<u64> = vec![1; singles]; for _ in 0..pairs { kinds.insert(r.below(kinds.len() as u64 + 1) as usize, 2 + r.below(3)); }
        for k in kinds { emit(&mut vals, k, r); }
    } else {
        for _ in 0..n { let k = match r.below(6) { 0 => 2, 1 => 3, 2 => 128 + r.below(2), _ => 1 }; emit(&mut vals, k, r); }
    }
    vec![json!({"values": vals, "neg": neg})]
}

/// a file written once by `write` (traced) whose reopened logical state must be `state`
fn once_case(cx: &mut Ctx, cell: &'static str, key: &'static str, cj: Value, state: Value, fname: &str, exhaustive: bool,
             class_of: &dyn Fn(&Value, &str, &str) -> Option<&'static str>, write: &mut dyn FnMut(&str) -> Result<(), String>, bm: &[usize],
             img_state: Option<&dyn Fn(&Disk) -> Vec<Value>>) -> Option<(Disk, Vec<Op>)> {
    dbg_case(&cj);
    cx.sum.eval(cell, &cj.to_string(), true);
    cx.sum.cell_status(cell, if key == "dict" || cell.starts_with("NestLouds") { "S-only" } else { "M+S" });
    let mut r = Rng::new(fnv64(cj.to_string().as_bytes(), 17));
    let dir = cx.fresh_dir("on");
    let path = format!("{}/{}", dir, fname);
    trace::start(&dir);
    let res = guarded(|| write(&path));
    let tr = trace::stop();
    match res { Err(p) => { cx.sum.fail(cell, class_of(&json!({}), "writer", &p), cj, &format!("writer panicked: {}", p)); return None; }
                Ok(Err(e)) => { cx.sum.dist(&format!("{}_write_refused", key)); if std::env::var("ZV_C19_DEBUG").is_ok() { eprintln!("refused: {}", e); } let _ = std::fs::remove_dir_all(&dir); return None; }
                Ok(Ok(())) => {} }
    let mut sim = Disk::new();
    for op in &tr { apply(&mut sim, op); }
    if let Err(w) = tracer_in_sync(&dir, &sim) { panic!("C19 tracer out of sync with the file system:{}", w); }
    let states = vec![state.clone()];
    let marks = vec![tr.len()];
    if key == "dict" { protocol_case(cx, &tr, fname, "SuffixArrayDictionary::save_to_file"); }
    if key == "zipoffset" { protocol_case(cx, &tr, fname, "ZipOffsetBlobStore::save_to_file"); }
    let fin = judge_trace(cx, cell, key, class_of, &cj, &json!({}), fname, false, &tr, &marks, &states, Some(&state), bm, &mut r, exhaustive, img_state);
    let _ = std::fs::remove_dir_all(&dir);
    fin.map(|d| (d, tr))
}

fn zipoffset_case(cx: &mut Ctx, recs: &[String], checksum: u8, exhaustive: bool) {
    let cell = "ZipOffsetBlobStore";
    let cj = json!({"cell": "zipoffset", "records": recs, "checksum": checksum, "exhaustive": exhaustive});
    let build = || -> Result<ZipOffsetBlobStore, String> {
        let mut cfg = zipora::blob_store::ZipOffsetBlobStoreConfig::default();
        cfg.checksum_level = checksum; cfg.compress_level = 0;
        let mut b = ZipOffsetBlobStoreBuilder::with_config(cfg).map_err(|e| e.to_string())?;
        for rcd in recs { b.add_record(&unhex(rcd)).map_err(|e| e.to_string())?; }
        b.finish().map_err(|e| e.to_string())
    };
    // what the finished in-memory store presents is what a reopen has to present
    let held: Vec<String> = match guarded(|| build().map(|st| (0..st.len()).map(|i| st.get(i as u32).map(|d| hex(&d)).unwrap_or_else(|e| format!("unreadable: {}", e))).collect::<Vec<_>>())) {
        Ok(Ok(h)) => h,
        Ok(Err(_)) => { cx.sum.dist("zipoffset_build_refused"); return; }
        Err(p) => { cx.sum.eval(cell, &cj.to_string(), true); cx.sum.fail(cell, None, cj, &format!("builder panicked: {}", p)); return; }
    };
    if held != recs {
        // (the former finding class zip_offset_store_is_stub - finish() dropped every record - was repaired by 3312856/5e0cc1c)
        cx.sum.fail(cell, None, cj.clone(), &format!("the finished store holds {} records, {} were added", held.len(), recs.len()));
        return;
    }
    let state = json!({"records": held});
    let none = |_: &Value, _: &str, _: &str| -> Option<&'static str> { None };
    let mut w = |path: &str| -> Result<(), String> { build()?.save_to_file(path).map_err(|e| e.to_string()) };
    let cb: usize = recs.iter().map(|r| r.len() / 2 + if checksum >= 2 { 4 } else { 0 }).sum();
    let pad = (16 - cb % 16) % 16;
    let marks = [128, 128 + cb, 128 + cb + pad, 128 + cb + pad + 32];
    let got = once_case(cx, cell, "zipoffset", cj, state, "s.zob", exhaustive, &none, &mut w, &marks, None);
    // correspondence: the model's image and operations for these records; the model's loader on the file and on damaged copies
    if let Some((fin, tr)) = got {
        if let Some(f) = fin.get("s.zob") {
            if f.len() <= 1500 {
                let rb: Vec<Vec<u8>> = recs.iter().map(|r| unhex(r)).collect();
                if cx.n_zosave < if cx.thorough { 120 } else { 16 } && cx.coq_seen.insert(fnv64(f, 0x205a)) {
                    cx.n_zosave += 1;
                    cx.shards.push(format!("(XZoSave {} {} {})", checksum, coq_bytes_list(&rb), coq_bytes(f)), json!({"cell": "zipoffset_save", "records": recs, "checksum": checksum}));
                    cx.shards.push(format!("(XZoOps {} {} [{}])", checksum, coq_bytes_list(&rb), tr.iter().map(|o| fop_term(o, "s.zob")).collect::<Vec<_>>().join("; ")),
                                   json!({"cell": "zipoffset_ops", "records": recs, "checksum": checksum, "ops": tr.iter().map(op_brief).collect::<Vec<_>>()}));
                }
                let mut r = Rng::new(fnv64(f, 0x51));
                let mut imgs: Vec<Vec<u8>> = vec![f.clone()];
                let n = f.len();
                for t in [n - 1, n - 63, n - 64, n.saturating_sub(65), 128 + cb + pad + 31, 128 + cb + pad, (128 + cb + pad).saturating_sub(1), 128 + cb, 128 + cb / 2, 128, 127, 64, 0] { if t < n { imgs.push(f[..t].to_vec()); } }
                // header fields, configuration bytes, the offset index: one bit flipped
                for _ in 0..6 {
                    let i = match r.below(4) { 0 => 40 + r.below(43) as usize, 1 => r.below(40) as usize, 2 => 128 + cb + pad + r.below(32) as usize, _ => 128 + r.below((n - 128) as u64) as usize };
                    if i < n { let mut g = f.clone(); g[i] ^= 1 << r.below(8); imgs.push(g); }
                }
                // a longer file (bytes after the footer), and the content length field off by one
                let mut g = f.clone(); g.extend_from_slice(&[7, 7, 7]); imgs.push(g);
                // single header fields off by one / out of range: record count, content bytes, offsets bytes, version,
                // log2 block units, checksum level, compress level, element count and widths of the offset vector
                let o = 128 + cb + pad;
                for (i, d) in [(56usize, 1i16), (56, -1), (64, 1), (64, -1), (72, 1), (72, -1), (62, 1), (80, -3), (80, 3), (81, 4), (82, 23), (o, 1), (o, -1), (o + 8, 1), (o + 9, -9), (o + 10, 40), (o + 16, 1), (o + 24, -1)] {
                    if i < n { let mut g = f.clone(); g[i] = (g[i] as i16 + d) as u8; imgs.push(g); }
                }
                // a sample of them per file (the final image always), so that every file contributes
                let first = imgs.remove(0);
                for i in (1..imgs.len()).rev() { let j = r.below(i as u64 + 1) as usize; imgs.swap(i, j); }
                imgs.truncate(if cx.thorough { 40 } else { 12 });
                zo_coq_case(cx, &first);
                for im in imgs { zo_coq_case(cx, &im); }
            }
        }
    }
}
fn zo_coq_case(cx: &mut Ctx, img: &[u8]) {
    if img.len() > 1600 || cx.n_zo >= if cx.thorough { 2500 } else { 240 } { return; }
    if !cx.coq_seen.insert(fnv64(img, 0x20)) { return; }
    let mut d = Disk::new(); d.insert("s.zob".into(), img.to_vec());
    let out = cx.observe("zipoffset_full", &json!({}), &d, "s.zob", false);
    let expect: String = if let Some(st) = out.get("ok") {
        let mut v = vec![format!("[{}%Z]", st["len"].as_u64().unwrap_or(0))];
        for g in st["gets"].as_array().unwrap() {
            match g.as_str() { Some(h) => { let mut e = vec![1i128]; e.extend(unhex(h).iter().map(|&b| b as i128)); v.push(coq_z_list(e)); } None => v.push("[0%Z]".into()) }
        }
        format!("[{}]", v.join("; "))
    } else if out.get("err").is_some() { "[[(-1)%Z]]".into() } else { "[[(-2)%Z]]".into() };
    cx.n_zo += 1;
    cx.shards.push(format!("(XZoLoad {} {})", coq_bytes(img), expect), json!({"cell": "zipoffset_image", "image": hex(img)}));
}
/// record sets for the offset-indexed store: content lengths around the 16-byte padding boundary (0, 15, 16, 17, 31, 32,
/// 33, 48, 64, 160 bytes with and without the 4-byte record checksums), empty records, more than one 64-entry offset block
fn gen_zip(r: &mut Rng, i: usize) -> (Vec<String>, u8) {
    let ck = *r.pick(&[0u8, 0, 2, 2, 3, 1]);
    let per = if ck >= 2 { 4usize } else { 0 };
    let recs: Vec<Vec<u8>> = match i % 4 {
        0 => { let n = *r.pick(&[0usize, 1, 2, 5, 30]); (0..n).map(|_| { let l = *r.pick(&[0usize, 1, 3, 15, 16, 17, 100]); r.bytes(l) }).collect() }
        1 | 2 => {
            // total content length exactly `target`
            let target = *r.pick(&[0usize, 15, 16, 17, 31, 32, 33, 48, 64, 160]);
            let mut left = target; let mut v = vec![];
            while left > per || (left == per && per > 0) {
                let l = (r.below(20) as usize).min(left - per);
                v.push(r.bytes(l)); left -= l + per;
                if left == 0 { break; }
            }
            if left > 0 && per == 0 { v.push(r.bytes(left)); }
            if target == 0 && r.chance(1, 2) && per == 0 { v.push(vec![]); v.push(vec![]); }
            v
        }
        _ => { let n = *r.pick(&[63usize, 64, 65, 70, 130]); (0..n).map(|_| { let l = *r.pick(&[0usize, 0, 1, 2, 3]); r.bytes(l) }).collect() }
    };
    (recs.iter().map(|b| hex(b)).collect(), ck)
}
fn dict_case(cx: &mut Ctx, text: &[u8], minp: usize, maxp: usize, exhaustive: bool) { dict_case_opts(cx, &json!({"text": hex(text)}), minp, maxp, exhaustive, &json!({})) }
/// src: {"text": hex} or {"gen": [kind, n, seed]} (0 = random letters of an alphabet of `seed % 5 + 2`, 1 = repeated phrases, 2 = bytes)
fn dict_text(src: &Value) -> Vec<u8> {
    if let Some(g) = src["gen"].as_array() {
        let (kind, n, seed) = (g[0].as_u64().unwrap_or(0), (g[1].as_u64().unwrap_or(0) as usize).min(200_000), g[2].as_u64().unwrap_or(0));
        let mut r = Rng::new(seed);
        return match kind {
            0 => { let a = seed % 5 + 2; (0..n).map(|_| b'a' + r.below(a) as u8).collect() }
            1 => { let words: Vec<Vec<u8>> = (0..12).map(|_| { let l = r.range(3, 12) as usize; (0..l).map(|_| b'a' + r.below(26) as u8).collect() }).collect();
                   let mut v = vec![]; while v.len() < n { let w = r.pick(&words[..]).clone(); v.extend_from_slice(&w); v.push(b' '); } v.truncate(n); v }
            _ => r.bytes(n),
        };
    }
    unhex(src["text"].as_str().unwrap_or(""))
}
/// opts (oracle breadth): min_frequency, max_bfs_depth, sample_ratio (applies to texts of more than 10000 bytes), memory_pool,
/// external_mode, optimize (optimize_cache() before saving)
fn dict_case_opts(cx: &mut Ctx, src: &Value, minp: usize, maxp: usize, exhaustive: bool, opts: &Value) {
    let text = dict_text(src);
    let mut cj = json!({"cell": "dict", "min": minp, "max": maxp, "exhaustive": exhaustive});
    if src.get("gen").is_some() { cj["gen"] = src["gen"].clone(); } else { cj["text"] = json!(hex(&text)); }
    if opts.as_object().map(|o| !o.is_empty()).unwrap_or(false) { cj["opts"] = opts.clone(); }
    let cell = "SuffixArrayDictionary";
    let none = |_: &Value, _: &str, _: &str| -> Option<&'static str> { None };
    let ratio = opts["sample_ratio"].as_f64().unwrap_or(1.0);
    // the dictionary and what it presents before it is saved
    let built = guarded(|| -> Result<(SuffixArrayDictionary, Value), String> {
        let mut cfg = SuffixArrayDictionaryConfig::default();
        cfg.min_pattern_length = minp; cfg.max_pattern_length = maxp; cfg.min_frequency = opts["min_frequency"].as_u64().unwrap_or(1) as u32;
        if let Some(x) = opts["max_bfs_depth"].as_u64() { cfg.max_bfs_depth = x as u32; }
        cfg.sample_ratio = ratio;
        if let Some(x) = opts["memory_pool"].as_bool() { cfg.use_memory_pool = x; }
        if let Some(x) = opts["external_mode"].as_bool() { cfg.external_mode = x; }
        let mut d = SuffixArrayDictionary::new(&text, cfg).map_err(|e| format!("refused: {}", e))?;
        let sampled = ratio < 1.0 && text.len() > 10000;
        if !sampled && d.data() != &text[..] { return Err("dictionary text differs from training data".into()); }
        if sampled && (d.data().is_empty() || d.data().len() > text.len()) { return Err("sampled dictionary text is empty or longer than the training data".into()); }
        if opts["optimize"].as_bool().unwrap_or(false) { d.optimize_cache().map_err(|e| format!("optimize_cache failed: {}", e))?; }
        let st = dict_state(&mut d)?;
        // serialize / deserialize in memory: the same structure
        let img = d.serialize().map_err(|e| format!("serialize failed: {}", e))?;
        let mut back = SuffixArrayDictionary::deserialize(&img).map_err(|e| format!("deserialize(serialize()) failed: {}", e))?;
        if dict_state(&mut back)? != st { return Err("deserialize(serialize()) presents another dictionary".into()); }
        Ok((d, st))
    });
    let (d, state) = match built {
        Ok(Ok(x)) => x,
        Ok(Err(e)) if e.starts_with("refused") => { cx.sum.dist("dict_write_refused"); return; }
        Ok(Err(e)) => { cx.sum.eval(cell, &cj.to_string(), true); cx.sum.fail(cell, None, cj, &e); return; }
        Err(p) => { cx.sum.eval(cell, &cj.to_string(), true); cx.sum.fail(cell, None, cj, &format!("building the dictionary panicked: {}", p)); return; }
    };
    let mut w = |path: &str| -> Result<(), String> { d.save_to_file(path).map_err(|e| e.to_string()) };
    let got = once_case(cx, cell, "dict", cj.clone(), state, "d.dict", exhaustive, &none, &mut w, &[8], None);
    // the file is the serialized image
    if let Some((fin, _)) = got {
        if fin.get("d.dict").map(|f| Some(f) != d.serialize().ok().as_ref()).unwrap_or(true) { cx.sum.fail(cell, None, cj, "the saved file differs from serialize()"); }
    }
}
// ops: ["w", hex] write_slice | ["s", k] seek to capacity * k / 8 | ["x"] seek past the capacity (must be refused) | ["f"] flush | ["t"] truncate
// oracle breadth: ["g", n, seed] write_slice of n generated bytes | ["o"] flush, drop, MemoryMappedOutput::open (position 0, the capacity
// is the file length) | ["u8"|"u16"|"u32"|"u64"|"var", v], ["str", s], ["bytes", hex] the DataOutput writers | ["r"] remaining()
// every history ends with flush, truncate, flush
fn mmio_case(cx: &mut Ctx, ops: &[Value], initial: usize, exhaustive: bool) {
    let cj = json!({"cell": "mmio", "ops": ops, "initial": initial, "exhaustive": exhaustive});
    // what the file must hold at the end: a plain byte vector with the same write / seek / truncate semantics
    let mut sh: Vec<u8> = vec![]; let mut shp = 0usize;
    let mut seeks: Vec<usize> = vec![];
    let mut terms: Vec<String> = vec![]; let mut obs: Vec<[u64; 2]> = vec![];
    let mut volume = 0usize;
    let mut modelled = true;
    let mut typed: Vec<Value> = vec![]; let mut typed_only = true;
    // a raw byte stream has no header: any image is "what the file contains"; the reader must serve exactly
    // the bytes present and refuse reads past them; for crash images that is all that is required
    let class_of = |_: &Value, _: &str, _: &str| -> Option<&'static str> { None };
    let img_state = |d: &Disk| -> Vec<Value> { d.get("o.bin").map(|b| vec![mmio_state(b)]).unwrap_or_default() };
    let mut full: Vec<Value> = ops.to_vec(); full.push(json!(["f"])); full.push(json!(["t"])); full.push(json!(["f"]));
    let mut w = |path: &str| -> Result<(), String> {
        use zipora::DataOutput;
        let mut o = MemoryMappedOutput::create(path, initial).map_err(|e| e.to_string())?;
        for op in &full {
            let kind = op[0].as_str().unwrap_or("");
            // the bytes an operation appends at the position
            let mut put: Option<Vec<u8>> = None;
            match kind {
                "w" => { let d = unhex(op[1].as_str().unwrap_or("")); o.write_slice(&d).map_err(|e| e.to_string())?; terms.push(format!("MWrite {}", coq_bytes(&d))); typed.push(json!(["bytes", hex(&d)])); put = Some(d); }
                "g" => { modelled = false; let d = Rng::new(op[2].as_u64().unwrap_or(0)).bytes((op[1].as_u64().unwrap_or(0) as usize).min(3 << 20)); o.write_slice(&d).map_err(|e| e.to_string())?; typed_only = false; put = Some(d); }
                "u8" => { modelled = false; let v = op[1].as_u64().unwrap_or(0); o.write_u8(v as u8).map_err(|e| e.to_string())?; typed.push(json!(["u8", v as u8])); put = Some(vec![v as u8]); }
                "u16" => { modelled = false; let v = op[1].as_u64().unwrap_or(0) as u16; o.write_u16(v).map_err(|e| e.to_string())?; typed.push(json!(["u16", v])); put = Some(v.to_le_bytes().to_vec()); }
                "u32" => { modelled = false; let v = op[1].as_u64().unwrap_or(0) as u32; o.write_u32(v).map_err(|e| e.to_string())?; typed.push(json!(["u32", v])); put = Some(v.to_le_bytes().to_vec()); }
                "u64" => { modelled = false; let v = op[1].as_u64().unwrap_or(0); o.write_u64(v).map_err(|e| e.to_string())?; typed.push(json!(["u64", v])); put = Some(v.to_le_bytes().to_vec()); }
                "var" => { modelled = false; let mut v = op[1].as_u64().unwrap_or(0); o.write_var_int(v).map_err(|e| e.to_string())?; typed.push(json!(["var", v]));
                           let mut b = vec![]; loop { let x = (v & 0x7f) as u8; v >>= 7; if v == 0 { b.push(x); break; } b.push(x | 0x80); } put = Some(b); }
                "str" => { modelled = false; let t = op[1].as_str().unwrap_or("").to_string(); o.write_length_prefixed_string(&t).map_err(|e| e.to_string())?; typed.push(json!(["str", t]));
                           let mut v = t.len() as u64; let mut b = vec![]; loop { let x = (v & 0x7f) as u8; v >>= 7; if v == 0 { b.push(x); break; } b.push(x | 0x80); } b.extend_from_slice(t.as_bytes()); put = Some(b); }
                "bytes" => { modelled = false; let d = unhex(op[1].as_str().unwrap_or("")); o.write_bytes(&d).map_err(|e| e.to_string())?; typed.push(json!(["bytes", hex(&d)])); put = Some(d); }
                "r" => { modelled = false; if o.remaining() != o.capacity() - o.position() { return Err("remaining() differs from capacity() - position()".into()); } continue; }
                "o" => { modelled = false; typed_only = false; o.flush().map_err(|e| e.to_string())?; let cap = o.capacity(); drop(o); o = MemoryMappedOutput::open(path).map_err(|e| e.to_string())?;
                         if o.capacity() != cap { return Err(format!("capacity {} after open, the file had {} bytes", o.capacity(), cap)); }
                         if sh.len() < cap { sh.resize(cap, 0); } shp = 0; }
                "s" => { typed_only = false; let p = o.capacity() * (op[1].as_u64().unwrap_or(0) as usize).min(8) / 8; o.seek(p).map_err(|e| e.to_string())?; shp = p; seeks.push(p); terms.push(format!("MSeek {}", p)); }
                "x" => { if o.seek(o.capacity() + 1).is_ok() { return Err("seek past the capacity succeeded".into()); } continue; }
                "f" => { o.flush().map_err(|e| e.to_string())?; terms.push("MFlush".into()); }
                "t" => { o.truncate().map_err(|e| e.to_string())?; if sh.len() < shp { sh.resize(shp, 0); } sh.truncate(shp); terms.push("MTruncate".into()); }
                _ => continue,
            }
            if let Some(d) = put { if sh.len() < shp + d.len() { sh.resize(shp + d.len(), 0); } sh[shp..shp + d.len()].copy_from_slice(&d); shp += d.len(); volume += d.len(); }
            if o.position() != shp { return Err(format!("position {} after {}, expected {}", o.position(), brief(op), shp)); }
            obs.push([o.position() as u64, o.capacity() as u64]);
        }
        Ok(())
    };
    // the writer runs inside once_case; the expected final state is known only afterwards, so run the oracle in two steps:
    // first the writer (traced), then the judgement against the shadow
    dbg_case(&cj);
    let cell = "MemoryMappedOutput/Input";
    cx.sum.eval(cell, &cj.to_string(), true);
    cx.sum.cell_status(cell, "M+S");
    let mut r = Rng::new(fnv64(cj.to_string().as_bytes(), 17));
    let dir = cx.fresh_dir("on");
    let path = format!("{}/o.bin", dir);
    trace::start(&dir);
    let res = guarded(|| w(&path));
    let tr = trace::stop();
    match res { Err(p) => { cx.sum.fail(cell, None, cj, &format!("writer panicked: {}", p)); let _ = std::fs::remove_dir_all(&dir); return; }
                Ok(Err(e)) => { cx.sum.fail(cell, None, cj, &format!("writer failed: {}", e)); let _ = std::fs::remove_dir_all(&dir); return; }
                Ok(Ok(())) => {} }
    let mut sim = Disk::new();
    for op in &tr { apply(&mut sim, op); }
    if let Err(w) = tracer_in_sync(&dir, &sim) { panic!("C19 tracer out of sync with the file system:{}", w); }
    let state = mmio_state(&sh);
    let states = vec![state.clone()];
    let marks = vec![tr.len()];
    let fin = judge_trace(cx, cell, "mmio", &class_of, &cj, &json!({}), "o.bin", false, &tr, &marks, &states, Some(&state), &[], &mut r, exhaustive, Some(&img_state));
    let _ = std::fs::remove_dir_all(&dir);
    // a stream written only through the DataOutput writers reads back value by value through DataInput
    if let (Some(d), true) = (fin.as_ref(), typed_only && !typed.is_empty()) {
        let out = cx.observe("mmio_typed", &json!({"typed": typed}), d, "o.bin", false);
        if out.get("ok") != Some(&json!(true)) { let mut c = cj.clone(); c["image"] = json!("clean"); cx.sum.fail(cell, None, c, &format!("what DataOutput wrote does not read back through DataInput: {}", brief(&out))); }
    }
    if let Some(f) = fin.as_ref().and_then(|d| d.get("o.bin")) {
        if modelled && volume <= 3000 && initial <= 4096 && cx.n_mmio < if cx.thorough { 120 } else { 14 } && cx.coq_seen.insert(fnv64(cj.to_string().as_bytes(), 0x6d6d)) {
            cx.n_mmio += 1;
            cx.shards.push(format!("(XMmio {} [{}] [{}] {})", initial, terms.join("; "), obs.iter().map(|o| format!("[{}; {}]", o[0], o[1])).collect::<Vec<_>>().join("; "), coq_bytes(f)),
                           json!({"cell": "mmio_ops", "ops": ops, "initial": initial}));
        }
    }
}
/// oracle breadth: histories with the DataOutput writers, reopening for writing, generated chunks that carry the file across the
/// reader's strategy switch (4096 bytes: buffered / mapped), its 64 KiB prefetch threshold and the 1 MiB huge-page threshold
fn gen_mmio_wide(r: &mut Rng, i: usize) -> (Vec<Value>, usize) {
    let mut ops: Vec<Value> = vec![];
    match i % 6 {
        0 | 1 => { // typed values only
            for _ in 0..r.range(1, 12) { match r.below(7) {
                0 => ops.push(json!(["u8", r.below(256)])), 1 => ops.push(json!(["u16", r.below(65536)])), 2 => ops.push(json!(["u32", r.next() >> 32])), 3 => ops.push(json!(["u64", r.next()])),
                4 => ops.push(json!(["var", *r.pick(&[0u64, 127, 128, 16383, 16384, u32::MAX as u64, u64::MAX, 1 << 56, 300])])),
                5 => { let n = *r.pick(&[0usize, 1, 5, 127, 128, 200]); let t: String = (0..n).map(|k| (b'a' + ((k * 7 + n) % 26) as u8) as char).collect(); ops.push(json!(["str", t])); }
                _ => { let l = *r.pick(&[0usize, 3, 64, 700]); ops.push(json!(["bytes", hex(&r.bytes(l))])); } } }
            (ops, *r.pick(&[0usize, 1, 16, 4096])) }
        2 => { // reopen for writing: overwrite the head, extend the tail
            ops.push(json!(["g", *r.pick(&[10usize, 100, 5000]), r.next()])); ops.push(json!(["o"])); ops.push(json!(["w", hex(&r.bytes(4))])); ops.push(json!(["r"]));
            if r.chance(1, 2) { ops.push(json!(["s", 8])); ops.push(json!(["u32", 7])); } else { ops.push(json!(["s", r.below(9)])); }
            if r.chance(1, 2) { ops.push(json!(["o"])); ops.push(json!(["s", r.below(9)])); ops.push(json!(["var", 300])); }
            (ops, *r.pick(&[0usize, 16, 10000])) }
        3 => { let t = *r.pick(&[4095usize, 4096, 4097, 4098, 8192]); let a = r.below(t as u64) as usize; ops.push(json!(["g", a, r.next()])); ops.push(json!(["g", t - a, r.next()])); (ops, *r.pick(&[1usize, 4096, 4097])) }
        4 => { let t = *r.pick(&[65535usize, 65536, 65537, 70001]); ops.push(json!(["g", t - 9, r.next()])); ops.push(json!(["u64", r.next()])); ops.push(json!(["u8", 1])); (ops, *r.pick(&[16usize, 65536])) }
        _ => { let t = *r.pick(&[1048575usize, 1048576, 1048577]); ops.push(json!(["g", 1 << 20, r.next()])); ops.push(json!(["s", 8])); ops.push(json!(["f"])); let cap = (1usize << 20) + (1 << 19); let _ = cap;
               // the capacity is 1.5 MiB after the growth: seek back to the target length through a reopen
               ops.clear(); ops.push(json!(["g", t, r.next()])); (ops, 1 << 20) }
    }
}

// ------------------------------------------------------------------ replay / dispatch
fn run_one(cx: &mut Ctx, c: &Value) {
    let ex = c["exhaustive"].as_bool().unwrap_or(false);
    match c["cell"].as_str() {
        Some("mmapvec") | Some("mmapvec_ops") | Some("mmapvec_units") => {
            let ops: Vec<Vec<u64>> = c["ops"].as_array().map(|a| a.iter().map(|o| o.as_array().map(|x| x.iter().map(|y| y.as_u64().unwrap_or(0)).collect()).unwrap_or_default()).collect()).unwrap_or_default();
            run_mv_ty(cx, &ty_of(c), c["ic"].as_u64().unwrap_or(0) as usize, c["growth"].as_f64().unwrap_or(1.618), c["sync_on_write"].as_bool().unwrap_or(false), &ops, ex, c["preset"].as_u64().unwrap_or(0));
        }
        Some("mmapvec_image") => { let im = unhex(c["image"].as_str().unwrap_or("")); cx.coq_seen.clear(); mv_coq_case(cx, c["es"].as_u64().unwrap_or(8) as usize, &im); }
        Some("reorder_image") => { let im = unhex(c["image"].as_str().unwrap_or("")); cx.coq_seen.clear(); reorder_coq_case(cx, &im); }
        Some("plain") | Some("plain_history") => { let fo: Vec<String> = c["foreign"].as_array().map(|a| a.iter().filter_map(|x| x.as_str().map(|s| s.to_string())).collect()).unwrap_or_default();
            plain_case_in(cx, c["ops"].as_array().map(|a| a.as_slice()).unwrap_or(&[]), c["leftover"].as_u64().unwrap_or(0) as usize, ex, &fo) }
        Some("reorder") | Some("reorder_encode") | Some("reorder_writes") => {
            let b = if c.get("builds").is_some() { c["builds"].as_array().cloned().unwrap_or_default() } else { vec![json!({"values": c["values"], "neg": c["neg"]})] };
            reorder_case(cx, &b, ex)
        }
        Some("zipoffset") => { let recs: Vec<String> = c["records"].as_array().map(|a| a.iter().map(|x| x.as_str().unwrap_or("").to_string()).collect()).unwrap_or_default(); zipoffset_case(cx, &recs, c["checksum"].as_u64().unwrap_or(0) as u8, ex) }
        Some("dict") => dict_case_opts(cx, c, c["min"].as_u64().unwrap_or(4) as usize, c["max"].as_u64().unwrap_or(256) as usize, ex, &c["opts"]),
        Some("mmio") | Some("mmio_ops") => {
            // (older replays carry "chunks")
            let ops: Vec<Value> = if let Some(ch) = c["chunks"].as_array() { ch.iter().map(|x| json!(["w", x])).collect() } else { c["ops"].as_array().cloned().unwrap_or_default() };
            mmio_case(cx, &ops, c["initial"].as_u64().unwrap_or(16) as usize, ex)
        }
        _ => { wide::run_one_wide(cx, c); }
    }
}

/// the tracer must see what std::fs does in this build; otherwise the crash images would silently be empty
fn tracer_self_test(root: &str) {
    let d = format!("{}/selftest", root);
    std::fs::create_dir_all(&d).unwrap();
    trace::start(&d);
    {
        use std::os::unix::fs::FileExt;
        let mut f = std::fs::File::create(format!("{}/a", d)).unwrap();
        f.write_all(b"hello").unwrap();
        f.write_all(b" world").unwrap();
        f.write_at(b"J", 0).unwrap();
        f.set_len(9).unwrap();
        f.sync_all().unwrap();
        drop(f);
        std::fs::rename(format!("{}/a", d), format!("{}/b", d)).unwrap();
        std::fs::write(format!("{}/c", d), b"xyz").unwrap();
        std::fs::remove_file(format!("{}/c", d)).unwrap();
    }
    let tr = trace::stop();
    let want = vec![
        Op::Open { p: "a".into(), creat: true, trunc: true }, Op::Write { p: "a".into(), off: 0, data: b"hello".to_vec() },
        Op::Write { p: "a".into(), off: 5, data: b" world".to_vec() }, Op::Write { p: "a".into(), off: 0, data: b"J".to_vec() },
        Op::SetLen { p: "a".into(), n: 9 }, Op::Fsync { p: "a".into() }, Op::Rename { a: "a".into(), b: "b".into() },
        Op::Open { p: "c".into(), creat: true, trunc: true }, Op::Write { p: "c".into(), off: 0, data: b"xyz".to_vec() }, Op::Unlink { p: "c".into() },
    ];
    if tr != want { panic!("C19 file-operation tracer does not see std::fs in this build: {:?}", tr.iter().map(op_brief).collect::<Vec<_>>()); }
    let _ = std::fs::remove_dir_all(&d);
}

pub fn run(args: &Args) {
    // private sub-mode: the reader server
    if let Some(f) = &args.replay {
        if let Ok(s) = std::fs::read_to_string(f) {
            if let Ok(v) = serde_json::from_str::<Value>(&s) { if v["case"]["c19_server"] == json!(true) { serve(); return; } }
        }
    }
    let base = if std::path::Path::new("/dev/shm").is_dir() { "/dev/shm".to_string() } else { std::env::temp_dir().to_string_lossy().to_string() };
    let root = format!("{}/zv-c19-{}", base, std::process::id());
    let _ = std::fs::remove_dir_all(&root);
    std::fs::create_dir_all(&root).unwrap();
    std::panic::set_hook(Box::new(|i| { let s = i.to_string(); if s.contains("C19 ") { eprintln!("{}", s); } }));
    let srv = Server::start(&root);   // started before any writer runs: a process that never saw the written structures
    tracer_self_test(&root);
    let mut cx = Ctx {
        sum: Summary::new("C19", "histories of real write operations (MmapVec push/pop/set/truncate/clear/reserve/shrink/resize/extend/bulk/copy_from_simd/sync/reopen at capacities around 0,1,block and growth factors 1.0..2.0, destinations that are not full copied from 1x..10x their capacity; PlainBlobStore put/remove/reopen with records of 0..9000 bytes, also over leftover temporary files; ZReorderMap builds incl. overwriting an older map, runs of 1,2,127..129, 40-bit values, many short runs crossing the 4096-byte write buffer once, twice and several times; ZipOffsetBlobStore with content lengths around the 16-byte padding and more than one offset block, SuffixArrayDictionary, MemoryMappedOutput files with seeks) with the file operations traced; every crash image (each operation prefix, last write torn at boundary-biased or all byte positions, one unsynced write dropped, one 4 KiB block rolled back) and every truncation of the finished files is reopened and read completely in a separate process; non-trivial = history of >= 3 operations / map of >= 2 values / any write-once file"),
        shards: CoqShards::new(HEADER, 150),
        budget: if args.thorough { 6000 } else { 1000 },
        srv, root: root.clone(), seq: 0, thorough: args.thorough, cache: HashMap::new(), images: 0, coq_seen: Default::default(), proto: 0, n_mv: 0, n_ro: 0,
        n_zo: 0, n_zosave: 0, n_row: 0, n_row_big: 0, n_plain: 0, n_mvops: 0, n_mmio: 0, n_units: 0,
    };
    cx.sum.cell_status("MmapVec<u8>", "M+S"); cx.sum.cell_status("MmapVec<u64>", "M+S"); cx.sum.cell_status("ZReorderMap", "M+S");
    let mut rng = Rng::new(args.seed);
    if let Some(f) = &args.replay {
        let v: Value = serde_json::from_str(&std::fs::read_to_string(f).expect("replay file")).expect("json");
        let c = if v.get("case").is_some() { v["case"].clone() } else { v };
        run_one(&mut cx, &c);
    } else {
        if let Ok(rd) = std::fs::read_dir("corpus/C19") {
            let mut files: Vec<_> = rd.filter_map(|e| e.ok()).map(|e| e.path()).filter(|p| p.extension().map(|x| x == "json").unwrap_or(false)).collect();
            files.sort();
            for p in files {
                if let Ok(v) = serde_json::from_str::<Value>(&std::fs::read_to_string(&p).unwrap_or_default()) {
                    let c = if v.get("case").is_some() { v["case"].clone() } else { v };
                    run_one(&mut cx, &c);
                    cx.sum.dist("corpus_cases");
                }
            }
        }
        let scale = if args.thorough { 12 } else { 1 };
        // exhaustive byte positions on a few small cases of each kind
        for i in 0..(3 * scale) {
            let (es, ic, g, sow, ops) = gen_mv(&mut rng, false);
            if i == 0 { cx.sum.sample(json!({"mmapvec": {"es": es, "ic": ic, "growth": g, "sync_on_write": sow, "ops": ops}})); }
            run_mv(&mut cx, es, ic.min(130), g, sow, &ops[..ops.len().min(7)], true);
        }
        for _ in 0..(2 * scale) { let b = gen_reorder(&mut rng); reorder_case(&mut cx, &b, true); }
        for _ in 0..(1 * scale) {
            // every byte position: keep the records small
            let o: Vec<Value> = gen_plain(&mut rng).into_iter().map(|mut op| { if op[0] == json!(0) { let h = op[1].as_str().unwrap_or("").to_string(); op[1] = json!(h[..h.len().min(120)].to_string()); } op }).collect();
            plain_case(&mut cx, &o, 0, true);
        }
        // boundary-biased sampling on many
        for i in 0..(120 * scale) {
            let (es, ic, g, sow, ops) = gen_mv(&mut rng, i % 40 == 39);
            run_mv(&mut cx, es, ic, g, sow, &ops, false);
        }
        for i in 0..(120 * scale) {
            let b = gen_reorder(&mut rng);
            if i == 0 { cx.sum.sample(json!({"reorder": b})); }
            reorder_case(&mut cx, &b, false);
        }
        // many short runs: one, two and several intermediate flushes of the builder's 4096-byte buffer, and record
        // bytes landing on 4095/4096/4097/8191/8192/8193
        for (i, t) in [4095usize, 4096, 4097, 4100, 8191, 8192, 8193, 4090 + 4100, 12288].iter().enumerate() {
            if !args.thorough && i % 3 == (args.seed % 3) as usize && i >= 3 { continue; }
            let b = gen_reorder_dense(&mut rng, *t, 0); reorder_case(&mut cx, &b, false);
        }
        for i in 0..(16 * if args.thorough { 3 } else { 1 }) { let b = gen_reorder_wide(&mut rng, i as usize); if i == 0 { cx.sum.sample(json!({"reorder_wide": b})); } reorder_case(&mut cx, &b, i % 8 < 3 && i < 6); }
        for n in [830usize, 1300, 2000, 5000].iter().take(if args.thorough { 4 } else { 3 }) {
            let extra = rng.below(40) as usize; let b = gen_reorder_dense(&mut rng, 0, *n + extra); reorder_case(&mut cx, &b, false);
        }
        if args.thorough { for _ in 0..10 { let n = rng.range(800, 5200) as usize; let b = gen_reorder_dense(&mut rng, 0, n); reorder_case(&mut cx, &b, false); } }
        for i in 0..(24 * scale) {
            let (es, ic, g, sow, ops) = gen_mv_copy(&mut rng, i as usize);
            run_mv(&mut cx, es, ic, g, sow, &ops, false);
        }
        // oracle breadth: secondary entry points, presets, element types inside the histories; sizes across the 64 KiB mapping
        // (the breadth families grow by 4 in the thorough tier, the older ones by 12: the harness has 15 minutes)
        let wscale = if args.thorough { 4 } else { 1 };
        for i in 0..(44 * wscale) {
            let (ty, ic, g, sow, ops, preset) = gen_mv_wide(&mut rng, i as usize);
            if i == 0 { cx.sum.sample(json!({"mmapvec_wide": {"ty": ty, "ic": ic, "growth": g, "sync_on_write": sow, "ops": ops, "preset": preset}})); }
            let ex = i % 22 == 5;
            run_mv_ty(&mut cx, &ty, if ex { ic.min(130) } else { ic }, g, sow, if ex { &ops[..ops.len().min(6)] } else { &ops }, ex && preset == 0, preset);
        }
        for i in 0..(if args.thorough { 33 } else { 11 }) {
            let (ty, ic, g, sow, ops, preset) = gen_mv_sow(&mut rng, i as usize);
            run_mv_ty(&mut cx, &ty, ic, g, sow, &ops, false, preset);
        }
        for i in 0..(if args.thorough { 16 } else { 8 }) {
            let (ty, ic, g, sow, ops, preset) = gen_mv_big(&mut rng, i as usize);
            run_mv_ty(&mut cx, &ty, ic, g, sow, &ops, false, preset);
        }
        for i in 0..(40 * scale) {
            let o = gen_plain(&mut rng);
            if i == 0 { cx.sum.sample(json!({"plain": o})); }
            let leftover = if i % 3 == 1 { *rng.pick(&[1usize, 7, 50, 200, 5000]) } else { 0 };
            plain_case(&mut cx, &o, leftover, false);
        }
        for i in 0..(24 * wscale) {
            let o = gen_plain_wide(&mut rng);
            if i == 0 { cx.sum.sample(json!({"plain_wide": o})); }
            let leftover = if i % 4 == 1 { *rng.pick(&[1usize, 50, 5000]) } else { 0 };
            let foreign: Vec<String> = if i % 4 == 2 { ["x", ".7.tmp.bak", "007", "+3", "1.tmp", "0x2"].iter().filter(|_| rng.chance(1, 2)).map(|s| s.to_string()).collect() } else { vec![] };
            let ex = i % 12 == 7 && leftover == 0;
            // every byte position: keep the records small
            let trim = |h: &Value| -> Value { let t = h.as_str().unwrap_or(""); json!(t[..t.len().min(80)].to_string()) };
            let o: Vec<Value> = if ex { o.into_iter().map(|mut op| { if op[0] == json!(0) { op[1] = trim(&op[1]); } else if op[0] == json!(4) { let v: Vec<Value> = op[1].as_array().map(|a| a.iter().map(|h| trim(h)).collect()).unwrap_or_default(); op[1] = json!(v); } op }).collect() } else { o };
            plain_case_in(&mut cx, &o, leftover, ex, &foreign);
        }
        for i in 0..(22 * scale) {
            let (recs, ck) = gen_zip(&mut rng, i as usize);
            // every byte position on a few small stores
            let small: usize = recs.iter().map(|r| r.len() / 2).sum();
            zipoffset_case(&mut cx, &recs, ck, i % 11 == 3 && small <= 200);
        }
        for _ in 0..(6 * scale) {
            let n = *rng.pick(&[16usize, 40, 200, 600]);
            let alpha = *rng.pick(&[2u64, 4, 26]);
            let text: Vec<u8> = (0..n).map(|_| b'a' + rng.below(alpha) as u8).collect();
            dict_case(&mut cx, &text, *rng.pick(&[2usize, 4]), *rng.pick(&[8usize, 256]), false);
        }
        for _ in 0..(14 * scale) {
            let k = rng.range(0, 5);
            let with_seeks = rng.chance(1, 3);
            let mut ops: Vec<Value> = vec![];
            for _ in 0..k {
                let l = *rng.pick(&[0usize, 1, 4, 8, 100, 4096, 5000]);
                let l = if with_seeks { l.min(100) } else { l };
                ops.push(json!(["w", hex(&rng.bytes(l))]));
                if with_seeks { match rng.below(5) { 0 => ops.push(json!(["s", rng.below(9)])), 1 => ops.push(json!(["x"])), 2 => ops.push(json!(["f"])), 3 => ops.push(json!(["t"])), _ => {} } }
            }
            mmio_case(&mut cx, &ops, *rng.pick(&[1usize, 16, 4096, 10000]), false);
        }
        for i in 0..(if args.thorough { 30 } else { 12 }) {
            if i % 6 == 5 && i != 5 && i != 17 { continue; }   // one file at the 1 MiB threshold per quick run, two per thorough run (7 - 20 s each)
            let (ops, initial) = gen_mmio_wide(&mut rng, i as usize);
            mmio_case(&mut cx, &ops, initial, i < 2 && initial <= 16);
        }
        // every var-int length incl. the ten-byte ones (values >= 2^63), in a small (buffered) and a mapped (> 4 KiB) file
        for (pad, initial) in [(0usize, 16usize), (5000, 4096)] {
            let mut ops: Vec<Value> = vec![];
            if pad > 0 { ops.push(json!(["bytes", hex(&vec![0xA5u8; pad])])); }
            for k in 1..=9u32 { ops.push(json!(["var", (1u64 << (7 * k)) - 1])); ops.push(json!(["var", 1u64 << (7 * k)])); }
            for v in [0u64, (1 << 63) - 1, 1 << 63, (1 << 63) + 1, u64::MAX - 1, u64::MAX, i64::MIN as u64, (-1i64) as u64] { ops.push(json!(["var", v])); ops.push(json!(["u8", 7])); }
            ops.push(json!(["u64", u64::MAX])); ops.push(json!(["str", "end"]));
            mmio_case(&mut cx, &ops, initial, false);
        }
    }
    if args.replay.is_none() { wide::run_families(&mut cx, &mut rng, args.thorough); }
    cx.sum.dist_max("images_reopened_in_reader_process", cx.images);
    cx.sum.dist_max("coq_cases", cx.shards.len() as u64);
    let sh = cx.shards.write(&args.out);
    cx.sum.write(&args.out, sh);
    drop(cx);
    let _ = std::fs::remove_dir_all(&root);
}

#[path = "c19_wide.rs"]
mod wide;
