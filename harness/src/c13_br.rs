//! C13, part 5 (oracle breadth): long sequences named by (kind, n, seed) through every strategy and through the strategy
//! chooser, big collections across the pre-allocation bound, version migrations, cross-version records.
use super::c13_io::{ds, u64s, u8s};
use super::c13_ser::{stype_rt, ver, ver_u64};
use super::c13_uni as uni;
use super::{known_delta_u, known_gv, Ctx, STRATS};
use crate::util::*;
use serde_json::{json, Value};
use std::collections::{BTreeMap, BTreeSet, HashMap, HashSet};
use zipora::io::data_input::SliceDataInput;
use zipora::io::data_output::VecDataOutput;
use zipora::io::simd_encoding::varint as sv;
use zipora::io::var_int::VarInt;
use zipora::io::var_int_variants::{choose_optimal_strategy, choose_optimal_strategy_signed, VarIntEncoder, VarIntStrategy};
use zipora::io::versioning::{MigrationRegistry, Version, VersionConfig, VersionManager, VersionedSerialize, VersionedSerializer};
use zipora::io::{DataInput, DataOutput};

type R<T> = Result<T, String>;

/// The preset constructor of a strategy (must build the same encoder as `new(strategy)`).
pub fn preset(si: usize) -> VarIntEncoder {
    match si % 7 {
        0 => VarIntEncoder::leb128(), 1 => VarIntEncoder::zigzag(), 2 => VarIntEncoder::delta(), 3 => VarIntEncoder::group_varint(),
        4 => VarIntEncoder::prefix_free(), 5 => VarIntEncoder::compact(), _ => VarIntEncoder::simd(),
    }
}

/// u64 sequences: 0 small (< 256), 1 sorted with small steps, 2 below 2^32, 3 boundary-biased mix, 4 constant,
/// 5 sorted 63-bit values, 6 alternating 0 / 2^63 (the delta finding class), 7 one wide value at the end
pub fn gen_u64s(kind: u64, n: usize, seed: u64) -> Vec<u64> {
    let mut r = Rng::new(seed ^ 0x5E0);
    match kind {
        0 => (0..n).map(|_| r.below(256)).collect(),
        1 => { let mut a = r.below(1000); (0..n).map(|_| { a += r.below(300); a }).collect() }
        2 => (0..n).map(|_| r.below(1u64 << 32)).collect(),
        3 => (0..n).map(|_| super::rand_u64(&mut r)).collect(),
        4 => { let v = super::rand_u64(&mut r); vec![v; n] }
        5 => { let mut a: Vec<u64> = (0..n).map(|_| r.next() >> 1).collect(); a.sort(); a }
        6 => (0..n).map(|i| if i % 2 == 0 { 0 } else { 1u64 << 63 }).collect(),
        _ => { let mut a: Vec<u64> = (0..n).map(|_| r.below(1000)).collect(); if let Some(l) = a.last_mut() { *l = 1u64 << 32; } a }
    }
}
/// i64 sequences: 0 small around zero, 1 sorted, 2 boundary-biased mix, 3 small non-negative, 4 extremes alternating,
/// 5 small values then i64::MIN
pub fn gen_i64s(kind: u64, n: usize, seed: u64) -> Vec<i64> {
    let mut r = Rng::new(seed ^ 0x15E0);
    match kind {
        0 => (0..n).map(|_| r.below(512) as i64 - 256).collect(),
        1 => { let mut a = -(r.below(100_000) as i64); (0..n).map(|_| { a += r.below(500) as i64; a }).collect() }
        2 => (0..n).map(|_| super::rand_i64(&mut r)).collect(),
        3 => (0..n).map(|_| r.below(256) as i64).collect(),
        4 => (0..n).map(|i| if i % 2 == 0 { i64::MIN } else { i64::MAX }).collect(),
        _ => { let mut a: Vec<i64> = (0..n).map(|_| r.below(200) as i64).collect(); if let Some(l) = a.last_mut() { *l = i64::MIN; } a }
    }
}

fn strat_index(s: VarIntStrategy) -> usize { STRATS.iter().position(|(x, _)| *x == s).unwrap_or(0) }

/// A sequence named by (kind, n, seed) through strategy `s` (0..6), or through the strategy the chooser picks (s = 7).
pub fn varint_seq(cx: &mut Ctx, s: usize, signed: bool, kind: u64, n: usize, seed: u64, tail: &[u8]) {
    let cj = json!({"cell": "varint_seq", "s": s, "signed": signed, "kind": kind, "n": n, "seed": seed.to_string(), "tail": tail});
    if !cx.gate(&cj) { return; }
    let xs_u = if signed { vec![] } else { gen_u64s(kind, n, seed) };
    let xs_i = if signed { gen_i64s(kind, n, seed) } else { vec![] };
    let auto = s >= 7;
    // the chooser must give an answer for every input
    let chosen = if auto {
        match guarded(|| if signed { choose_optimal_strategy_signed(&xs_i) } else { choose_optimal_strategy(&xs_u) }) {
            Ok(st) => strat_index(st),
            Err(p) => {
                let cell = format!("VarIntEncoder/auto/{}", if signed { "i64_seq" } else { "u64_seq" });
                cx.sum.eval(&cell, &cj.to_string(), n >= 2);
                cx.sum.fail(&cell, None, cj, &format!("choose_optimal_strategy{} panicked: {}", if signed { "_signed" } else { "" }, p));
                return;
            }
        }
    } else { s % 7 };
    let (strat, sname) = STRATS[chosen];
    let cell = format!("VarIntEncoder/{}/{}", if auto { "auto" } else { sname }, if signed { "i64_seq" } else { "u64_seq" });
    cx.sum.eval(&cell, &cj.to_string(), n >= 2);
    cx.sum.dist(&format!("varint_seq_len={}", n));
    if auto { cx.sum.dist(&format!("auto_strategy={}", sname)); }
    let as_u: Vec<u64> = if signed { xs_i.iter().map(|&x| x as u64).collect() } else { xs_u.clone() };
    // the chooser guards group varint by max < 2^32: a wide value under "auto" is the chooser's defect, not the recorded finding
    let class = match chosen {
        2 if !signed && known_delta_u(&xs_u) => Some("delta_u64_big_difference"),
        3 if !auto && known_gv(&as_u) => Some("group_varint_wide_value"),
        _ => None,
    };
    let r = guarded(|| -> R<bool> {
        let e = if seed % 2 == 1 { preset(chosen) } else { VarIntEncoder::new(strat) };
        if e.strategy() != strat { return Err(format!("the preset constructor builds strategy {:?}, want {:?}", e.strategy(), strat)); }
        let enc = match if signed { e.encode_i64_sequence(&xs_i) } else { e.encode_u64_sequence(&xs_u) } {
            Ok(b) => b,
            // a strategy may refuse a whole kind of input (zigzag: unsigned); the chooser must not pick such a strategy
            Err(x) => return if auto { Err(format!("the chosen strategy refuses the sequence: {}", x)) } else { Ok(false) },
        };
        let mut buf = enc.clone();
        buf.extend_from_slice(tail);
        if signed {
            let d = e.decode_i64_sequence(&buf).map_err(|x| format!("decode failed: {}", x))?;
            if d != xs_i { let i = d.iter().zip(xs_i.iter()).position(|(a, b)| a != b).unwrap_or(d.len().min(xs_i.len())); return Err(format!("decoded {} elements, want {}; first difference at index {}: {:?} vs {:?}", d.len(), xs_i.len(), i, d.get(i), xs_i.get(i))); }
        } else {
            let d = e.decode_u64_sequence(&buf).map_err(|x| format!("decode failed: {}", x))?;
            if d != xs_u { let i = d.iter().zip(xs_u.iter()).position(|(a, b)| a != b).unwrap_or(d.len().min(xs_u.len())); return Err(format!("decoded {} elements, want {}; first difference at index {}: {:?} vs {:?}", d.len(), xs_u.len(), i, d.get(i), xs_u.get(i))); }
        }
        Ok(true)
    });
    match r {
        Err(p) => cx.sum.fail(&cell, class, cj.clone(), &format!("panicked: {}", p)),
        Ok(Err(why)) => cx.sum.fail(&cell, class, cj.clone(), &why),
        Ok(Ok(false)) => cx.sum.dist("encode_refused"),
        Ok(Ok(true)) => if class.is_some() { cx.sum.dist("known_class_but_passed"); },
    }
    // the plain and the accelerated batch codec on the same long input
    if !signed && !auto && chosen == 0 {
        let cell = "simd_varint/batch";
        cx.sum.eval(cell, &format!("long {}", cj), n >= 4);
        let r = guarded(|| -> R<()> {
            let scalar: Vec<u8> = xs_u.iter().flat_map(|&x| VarInt::encode(x)).collect();
            if VarInt::encode_multiple(xs_u.iter().cloned()) != scalar { return Err("encode_multiple is not the concatenation".into()); }
            let codec = sv::get_global_varint_codec().clone();
            let (e1, e2, e3) = (codec.encode_batch(&xs_u).map_err(|x| x.to_string())?, sv::SimdVarintCodec::default().encode_batch(&xs_u).map_err(|x| x.to_string())?, sv::encode_varint_batch(&xs_u).map_err(|x| x.to_string())?);
            if e1 != scalar || e2 != scalar || e3 != scalar { let i = e1.iter().zip(scalar.iter()).position(|(a, b)| a != b).unwrap_or(e1.len().min(scalar.len())); return Err(format!("encode_batch ({} bytes) differs from the scalar codec ({} bytes) at byte {}", e1.len(), scalar.len(), i)); }
            let mut buf = scalar.clone();
            buf.extend_from_slice(tail);
            if n > 0 || !buf.is_empty() {
                let d = codec.decode_batch(&buf, n).map_err(|x| format!("decode_batch failed: {}", x))?;
                if d != xs_u { return Err(format!("decode_batch gave {} values, the first difference at {:?}", d.len(), d.iter().zip(xs_u.iter()).position(|(a, b)| a != b))); }
            }
            if VarInt::decode_multiple(&scalar).map_err(|x| x.to_string())? != xs_u { return Err("decode_multiple differs".into()); }
            Ok(())
        });
        match r { Err(p) => cx.sum.fail(cell, None, cj, &format!("panicked: {}", p)), Ok(Err(why)) => cx.sum.fail(cell, None, cj, &why), Ok(Ok(())) => {} }
    }
}

/// Collections across the pre-allocation bound of the decoders (4096 elements) and the 2^16 mark, named by (which, n, seed).
pub fn complex_big(cx: &mut Ctx, which: usize, n: usize, seed: u64, tail: &[u8]) {
    let names = ["vec_u8", "vec_u32", "vec_string", "hashset_u32", "hashmap_u32_u16", "btreemap_u64_u8", "btreeset_i64", "vec_bool", "vec_i8", "vec_vec_u16"];
    let which = which % names.len();
    let cell = format!("complex/big_{}", names[which]);
    let cj = json!({"cell": "complex_big", "which": which, "n": n, "seed": seed.to_string(), "tail": tail});
    if !cx.gate(&cj) { return; }
    cx.sum.eval(&cell, &cj.to_string(), true);
    // model tie (type-universe model) for the sizes a Coq list literal can carry: n = 300 and, element size permitting, 4095..4097
    uni::stash_clear();
    let r = guarded(|| -> R<()> {
        let mut r = Rng::new(seed ^ 0xB16);
        match which {
            0 => stype_rt(&r.bytes(n), tail),
            1 => stype_rt(&(0..n).map(|_| r.next() as u32).collect::<Vec<u32>>(), tail),
            2 => stype_rt(&(0..n).map(|i| format!("s{}", (i as u64).wrapping_mul(r.below(7) + 1))).collect::<Vec<String>>(), tail),
            3 => { let v: HashSet<u32> = (0..n as u32).map(|i| i.wrapping_mul(2654435761)).collect(); if v.len() != n { return Err("generator".into()); } stype_rt(&v, tail) }
            4 => { let v: HashMap<u32, u16> = (0..n as u32).map(|i| (i.wrapping_mul(40503) ^ 0x5555, i as u16)).collect(); stype_rt(&v, tail) }
            5 => { let v: BTreeMap<u64, u8> = (0..n as u64).map(|i| (i.wrapping_mul(0x9E3779B97F4A7C15), i as u8)).collect(); stype_rt(&v, tail) }
            6 => { let v: BTreeSet<i64> = (0..n as i64).map(|i| i.wrapping_mul(0x9E3779B97F4A7C15u64 as i64)).collect(); stype_rt(&v, tail) }
            7 => stype_rt(&(0..n).map(|_| r.chance(1, 2)).collect::<Vec<bool>>(), tail),
            8 => stype_rt(&(0..n).map(|_| r.next() as i8).collect::<Vec<i8>>(), tail),
            _ => stype_rt(&(0..n / 16 + 1).map(|i| (0..(i % 33)).map(|j| (i * 31 + j) as u16).collect::<Vec<u16>>()).collect::<Vec<Vec<u16>>>(), tail),
        }
    });
    match r { Err(p) => cx.sum.fail(&cell, None, cj, &format!("panicked: {}", p)), Ok(Err(why)) => cx.sum.fail(&cell, None, cj, &why), Ok(Ok(())) => cx.coq_uni(&cell, 2, true) }
}

// ------------------------------------------------------------------------------------------
// versioning: migrations, cross-version records
// ------------------------------------------------------------------------------------------
/// The same record layout as c13_ser::Rec, with the library's convenience macros.
#[derive(Debug, PartialEq, Clone)]
pub struct Rec2<const V: u32> { id: u32, name: Option<String>, score: Option<u64> }
const SINCE_NAME: Version = Version::new(1, 1, 0);
const SINCE_SCORE: Version = Version::new(1, 2, 5);
impl<const V: u32> VersionedSerialize for Rec2<V> {
    fn current_version() -> Version { Version::from_u32(V) }
    fn serialize_with_manager<O: DataOutput>(&self, m: &mut VersionManager, o: &mut O) -> zipora::Result<()> {
        m.register_field("name", SINCE_NAME);
        m.register_field("score", SINCE_SCORE);
        o.write_u32(self.id)?;
        zipora::versioned_field!(m, "name", &self.name.clone().unwrap_or_default(), o);
        zipora::versioned_field!(m, "score", &self.score.unwrap_or(0), o);
        Ok(())
    }
    fn deserialize_with_manager<I: DataInput>(m: &mut VersionManager, i: &mut I) -> zipora::Result<Self> {
        m.register_field("name", SINCE_NAME);
        m.register_field("score", SINCE_SCORE);
        let id = i.read_u32()?;
        // the macro folds "absent" into a default; keep the distinction with a sentinel
        let name: String = zipora::versioned_field_with_default!(m, "name", i, "\u{1}absent".to_string());
        let score: Option<u64> = m.deserialize_field("score", i)?;
        Ok(Rec2 { id, name: if name == "\u{1}absent" { None } else { Some(name) }, score })
    }
}

const SCHEMAS: [u32; 6] = [0x01000000, 0x01010000, 0x01020004, 0x01020005, 0x02000000, 0x01050000];

fn write_rec<const V: u32>(id: u32, name: &str, score: u64) -> R<Vec<u8>> {
    let v = Rec2::<V> { id, name: Some(name.to_string()), score: Some(score) };
    let mut o = VecDataOutput::new();
    v.serialize_versioned(&mut o).map_err(|e| e.to_string())?;
    Ok(o.into_vec())
}
fn write_schema(k: usize, id: u32, name: &str, score: u64) -> R<Vec<u8>> {
    match k % 6 { 0 => write_rec::<0x01000000>(id, name, score), 1 => write_rec::<0x01010000>(id, name, score), 2 => write_rec::<0x01020004>(id, name, score),
        3 => write_rec::<0x01020005>(id, name, score), 4 => write_rec::<0x02000000>(id, name, score), _ => write_rec::<0x01050000>(id, name, score) }
}
/// (fields read back, bytes consumed) through the trait's own reader, and the outcomes of the high-level reader in several configurations
fn read_rec<const V: u32>(bytes: &[u8], cfgs: &[VersionConfig]) -> R<((u32, Option<String>, Option<u64>), usize, Vec<Option<(u32, Option<String>, Option<u64>)>>)> {
    let mut i = SliceDataInput::new(bytes);
    let g = Rec2::<V>::deserialize_versioned(&mut i).map_err(|e| format!("deserialize_versioned: {}", e))?;
    let mut outs = vec![];
    for c in cfgs {
        let s = VersionedSerializer::new(c.clone());
        outs.push(s.deserialize_from_bytes::<Rec2<V>>(bytes).ok().map(|r| (r.id, r.name, r.score)));
    }
    Ok(((g.id, g.name, g.score), i.pos(), outs))
}
fn read_schema(k: usize, bytes: &[u8], cfgs: &[VersionConfig]) -> R<((u32, Option<String>, Option<u64>), usize, Vec<Option<(u32, Option<String>, Option<u64>)>>)> {
    match k % 6 { 0 => read_rec::<0x01000000>(bytes, cfgs), 1 => read_rec::<0x01010000>(bytes, cfgs), 2 => read_rec::<0x01020004>(bytes, cfgs),
        3 => read_rec::<0x01020005>(bytes, cfgs), 4 => read_rec::<0x02000000>(bytes, cfgs), _ => read_rec::<0x01050000>(bytes, cfgs) }
}

/// kinds: 0 = a record written by schema A read by schema B (every pair), 1 = migration registry chains, 2 = a migration through VersionedSerializer
pub fn versioning_x(cx: &mut Ctx, kind: usize, ints: &[u64], ss: &[String], tail: &[u8]) {
    let names = ["cross_version", "migration", "migrated_record"];
    let kind = kind % names.len();
    let cell = format!("versioning/{}", names[kind]);
    let cj = json!({"cell": "versioning_x", "kind": kind, "ints": ds(ints), "strs": ss, "tail": tail});
    if !cx.gate(&cj) { return; }
    cx.sum.eval(&cell, &cj.to_string(), true);
    // cross-version records are tied to the versioned-record model; migrations are oracle-only
    if kind != 0 { cx.sum.cell_status(&cell, "S-only"); }
    uni::rstash_clear();
    let i = |k: usize| ints.get(k).copied().unwrap_or(0);
    let name = ss.first().cloned().unwrap_or_default();
    let r = guarded(|| -> R<()> {
        match kind {
            0 => {
                let (a, b) = (i(0) as usize % 6, i(1) as usize % 6);
                let (id, score) = (i(2) as u32, i(3));
                let bytes = write_schema(a, id, &name, score)?;
                let mut all = bytes.clone();
                all.extend_from_slice(tail);
                let va = Version::from_u32(SCHEMAS[a]);
                // every field the writer's version has is in the stream and the reader is told the stream's version
                let want = (id, if va >= SINCE_NAME { Some(name.clone()) } else { None }, if va >= SINCE_SCORE { Some(score) } else { None });
                let cfgs = [VersionConfig::new(), VersionConfig::strict(), VersionConfig::flexible(), VersionConfig::development(), VersionConfig::default(),
                    VersionConfig { strict_version_checking: false, allow_forward_compatibility: i(4) % 2 == 0, max_version_skew: u16::MAX, enable_migrations: false },
                    VersionConfig { strict_version_checking: i(4) % 3 == 0, allow_forward_compatibility: true, max_version_skew: (i(4) % 7) as u16, enable_migrations: i(4) % 5 < 2 }];
                let (got, used, outs) = read_schema(b, &all, &cfgs)?;
                // model tie: the writer's bytes, what deserialize_versioned returned and consumed, every serializer configuration's verdict
                let vb = Version::from_u32(SCHEMAS[b]);
                uni::rstash_enc(va, id, &name, score, &bytes);
                uni::rstash_dec(vb, &all, &got, used);
                for (c, o) in cfgs.iter().zip(outs.iter()) { uni::rstash_vs(c.strict_version_checking, c.max_version_skew, c.enable_migrations, vb, &all, o); }
                if got != want { return Err(format!("schema {} read by schema {}: got {:?}, want {:?}", va, Version::from_u32(SCHEMAS[b]), got, want)); }
                if used != bytes.len() { return Err(format!("schema {} read by schema {}: consumed {} bytes, the record has {}", va, Version::from_u32(SCHEMAS[b]), used, bytes.len())); }
                // the high-level reader may refuse a foreign version; what it accepts must be the record
                for (k, o) in outs.iter().enumerate() {
                    match o {
                        Some(g) => if *g != want { return Err(format!("config {}: schema {} read by schema {}: got {:?}, want {:?}", k, va, Version::from_u32(SCHEMAS[b]), g, want)); },
                        None => if a == b || k == 5 { return Err(format!("config {}: the reader of schema {} refuses a record of schema {}", k, Version::from_u32(SCHEMAS[b]), va)); },
                    }
                }
                Ok(())
            }
            1 => {
                // a chain v0 -> v1 -> ... -> vk of registered steps, each appending its number: the data must come out with the
                // steps' marks in order; a direct step wins over the chain; equal versions are the identity; no path is an error
                let k = 1 + (i(0) % 4) as usize;
                let vs: Vec<Version> = (0..=k as u16).map(|j| Version::new(1, j, (i(1) % 3) as u16)).collect();
                let mut reg = if i(2) % 2 == 0 { MigrationRegistry::new() } else { MigrationRegistry::default() };
                for j in 0..k { let mark = j as u8 + 1; reg.register_migration(vs[j], vs[j + 1], move |d: &[u8]| { let mut v = d.to_vec(); v.push(mark); Ok(v) }); }
                let data = name.as_bytes().to_vec();
                for from in 0..=k { for to in from..=k {
                    let g = reg.migrate_data(&data, vs[from], vs[to]).map_err(|e| format!("migrate {} -> {}: {}", vs[from], vs[to], e))?;
                    let mut want = data.clone();
                    want.extend((from..to).map(|j| j as u8 + 1));
                    if g != want { return Err(format!("migrate {} -> {} = {:?}, want {:?}", vs[from], vs[to], g, want)); }
                } }
                if k >= 2 {
                    reg.register_migration(vs[0], vs[k], |d: &[u8]| { let mut v = d.to_vec(); v.push(0xEE); Ok(v) });
                    let g = reg.migrate_data(&data, vs[0], vs[k]).map_err(|e| e.to_string())?;
                    let mut want = data.clone();
                    want.push(0xEE);
                    if g != want { return Err(format!("direct migration {} -> {} = {:?}, want {:?}", vs[0], vs[k], g, want)); }
                }
                if reg.migrate_data(&data, vs[k], Version::new(9, 9, 9)).is_ok() { return Err("a migration without a registered path succeeded".into()); }
                Ok(())
            }
            _ => {
                // records of schema 1.0.0 upgraded to the body of schema 1.1.0 by a registered migration
                let (id, score) = (i(0) as u32, i(1));
                let old = write_rec::<0x01000000>(id, &name, score)?;
                let mut s = if i(2) % 2 == 0 { VersionedSerializer::new(VersionConfig::flexible()) } else { VersionedSerializer::new(VersionConfig { strict_version_checking: false, allow_forward_compatibility: false, max_version_skew: 1, enable_migrations: true }) };
                let newname = format!("{}+", name);
                let nn = newname.clone();
                s.register_migration(Version::new(1, 0, 0), Version::new(1, 1, 0), move |body: &[u8]| {
                    // body of 1.0.0: id, absent name, absent score -> body of 1.1.0: id, name, absent score
                    let mut inp = SliceDataInput::new(body);
                    let id = inp.read_u32()?;
                    let mut o = VecDataOutput::new();
                    o.write_u32(id)?; o.write_u8(1)?; o.write_length_prefixed_string(&nn)?; o.write_u8(0)?;
                    Ok(o.into_vec())
                });
                let g: Rec2<0x01010000> = s.deserialize_from_bytes(&old).map_err(|e| format!("migrated read: {}", e))?;
                if (g.id, g.name.clone(), g.score) != (id, Some(newname.clone()), None) { return Err(format!("migrated record = {:?}", g)); }
                // the same serializer still reads its own version unchanged, and writes what the trait writes
                let cur = Rec2::<0x01010000> { id, name: Some(name.clone()), score: Some(score) };
                let by = s.serialize_to_bytes(&cur).map_err(|e| e.to_string())?;
                if by != write_rec::<0x01010000>(id, &name, score)? { return Err("serialize_to_bytes differs from serialize_versioned".into()); }
                let mut w = by.clone();
                w.extend_from_slice(tail);
                let g: Rec2<0x01010000> = s.deserialize_from_bytes(&w).map_err(|e| format!("own version after registering a migration: {}", e))?;
                if (g.id, g.name, g.score) != (id, Some(name.clone()), None) { return Err("own version after registering a migration".into()); }
                Ok(())
            }
        }
    });
    match r { Err(p) => cx.sum.fail(&cell, None, cj, &format!("panicked: {}", p)), Ok(Err(why)) => cx.sum.fail(&cell, None, cj, &why), Ok(Ok(())) => if kind == 0 { cx.coq_rec(&cell, 40) } }
    let _ = (ver(0), ver_u64(0, 0, 0));
}

pub fn run_case(cx: &mut Ctx, c: &Value) -> bool {
    let tail = u8s(&c["tail"]);
    let num = |k: &str| c[k].as_u64().or_else(|| c[k].as_str().and_then(|s| s.parse().ok())).unwrap_or(0);
    match c["cell"].as_str().unwrap_or("") {
        "varint_seq" => varint_seq(cx, num("s") as usize, c["signed"].as_bool().unwrap_or(false), num("kind"), num("n") as usize, num("seed"), &tail),
        "complex_big" => complex_big(cx, num("which") as usize, num("n") as usize, num("seed"), &tail),
        "versioning_x" => versioning_x(cx, num("kind") as usize, &u64s(&c["ints"]), &super::c13_io::strs(&c["strs"]), &tail),
        _ => return false,
    }
    true
}

/// The deterministic families of this file.
pub fn run_all(cx: &mut Ctx, thorough: bool) {
    // sequence lengths across the count prefix's byte boundaries (127/128, 16383/16384), the group size, the chooser's
    // switch points (6/7 sorted, 16 for group varint) and the 2^16 mark
    let lens: &[usize] = if thorough { &[5, 6, 7, 8, 15, 16, 17, 127, 128, 129, 4095, 4096, 4097, 16383, 16384, 16385, 65535, 65536, 65537] } else { &[6, 7, 15, 16, 17, 127, 128, 129, 4097, 16383, 16384, 65536] };
    for (li, &n) in lens.iter().enumerate() {
        for s in 0..8usize {
            for kind in 0..8u64 {
                // the long ones: one kind per strategy and length
                if n > 200 && (kind + s as u64 + li as u64) % (if thorough { 3 } else { 8 }) != 0 { continue; }
                let tail: &[u8] = if (kind + n as u64) % 2 == 0 { &[] } else { &[0x80, 0xFF, 0x01] };
                varint_seq(cx, s, false, kind, n, 1000 + n as u64 + kind, tail);
                if kind < 6 { varint_seq(cx, s, true, kind, n, 2000 + n as u64 + kind, tail); }
            }
        }
    }
    // the model-tied size first (the per-cell Coq budget is spent in order)
    for which in 0..10 { complex_big(cx, which, 300 + which, 7, if which % 2 == 0 { &[1, 0, 0, 0, 9] } else { &[] }); }
    for (k, &n) in [4095usize, 4096, 4097, 65536, 70000].iter().enumerate() {
        for which in 0..10 {
            if !thorough && n > 5000 && (which + k) % 3 != 0 { continue; }
            complex_big(cx, which, n, 7 + n as u64, if which % 2 == 0 { &[] } else { &[1, 0, 0, 0, 9] });
        }
    }
    for a in 0..6u64 { for b in 0..6u64 {
        versioning_x(cx, 0, &[a, b, 77 + a, u64::MAX - b, a * 6 + b], &["n\u{e9}".to_string()], if (a + b) % 2 == 0 { &[] } else { &[1, 1] });
    } }
    for k in 0..24u64 { versioning_x(cx, 1, &[k, k / 4, k / 12], &[format!("d{}", k)], &[]); }
    for k in 0..4u64 { versioning_x(cx, 2, &[k, 1 << (k * 16), k], &["x".repeat(k as usize * 60)], if k % 2 == 0 { &[] } else { &[0, 1] }); }
}
